"""A-FLOW: intra-procedural, flow-insensitive may-flow closure over MIR locals, first-level local
fields and type-based abstract heap locations ('Adt.field' reached through a deref).

Calls are transparent (result and every &mut argument's referent may depend on every argument),
except at the I/O effect primitives. Over-approximate: must-flow rules err towards silence,
no-flow rules towards alarms (they are backed by confinement rules)."""
from collections import defaultdict

from core import op_local, place_has_deref, mem_loc, rvalue_operands
from effects import prim_effects

OPAQUE_PRIMS = {'READ', 'WRITE', 'FLUSH', 'FSYNC', 'SEEK', 'SETLEN'}


def place_node_parts(pl):
    """(base_local, first_field_key or None, has_deref, memloc)"""
    first = None
    variant = None
    for e in pl['p']:
        if e['k'] == 'deref':
            break
        if e['k'] == 'downcast':
            variant = e.get('variant')
            continue
        if e['k'] == 'field':
            nm = e['name'] if e.get('name') is not None else str(e['i'])
            first = ('%s.%s' % (variant, nm)) if variant else nm
            break
        break
    return pl['l'], first, place_has_deref(pl), mem_loc(pl)


class Flow:
    def __init__(self, body):
        self.b = body
        self.edges = defaultdict(set)
        self.redges = defaultdict(set)
        self.fields = defaultdict(set)   # local -> known field keys
        self.whole_copies = []           # (src_local, dst_local)
        self._build()

    def _add(self, s, d):
        if s == d:
            return
        self.edges[s].add(d)
        self.redges[d].add(s)

    def read_nodes(self, pl):
        l, first, deref, loc = place_node_parts(pl)
        out = []
        if deref:
            if loc:
                out.append(('m', loc))
            out.append(('l', l))
            if first is not None:
                out.append(('lf', l, first))
            else:
                for f in self.fields[l]:
                    out.append(('lf', l, f))
        else:
            out.append(('l', l))
            if first is not None:
                self.fields[l].add(first)
                out.append(('lf', l, first))
            else:
                for f in self.fields[l]:
                    out.append(('lf', l, f))
        for e in pl['p']:
            if e['k'] == 'index':
                out.append(('l', e['local']))
        return out

    def write_nodes(self, pl):
        l, first, deref, loc = place_node_parts(pl)
        if deref:
            out = []
            if loc:
                out.append(('m', loc))
            else:
                out.append(('l', l))
            return out
        if first is not None:
            self.fields[l].add(first)
            return [('lf', l, first)]
        return [('l', l)]

    def op_nodes(self, op):
        if op['k'] in ('copy', 'move'):
            return self.read_nodes(op['place'])
        return []

    def _referent_nodes(self, l, depth=0):
        """Nodes a `&mut` local may point to (follow its ref definition)."""
        out = []
        if depth > 8:
            return out
        for (p, kind, data) in self.b.defs.get(l, []):
            if kind == 'assign' and not data['place']['p']:
                rv = data['rv']
                if rv['k'] in ('ref', 'rawptr'):
                    out.extend(self.write_nodes(rv['place']))
                    # reborrow through another reference local
                    pl = rv['place']
                    if pl['p'] and pl['p'][0]['k'] == 'deref' and len(pl['p']) == 1:
                        out.extend(self._referent_nodes(pl['l'], depth + 1))
                elif rv['k'] in ('use', 'cast'):
                    o = rv['op']
                    if o['k'] in ('copy', 'move'):
                        if place_has_deref(o['place']):
                            # a pointer loaded from a field reached through a reference: that heap location
                            out.extend(self.write_nodes(o['place']))
                        else:
                            # a copy of (a field of) another reference-carrying local
                            out.extend(self._referent_nodes(o['place']['l'], depth + 1))
            elif kind == 'call':
                # &mut returned by an accessor: it may alias whatever the &mut arguments pointed to;
                # the local itself also stands for the (unknown) referent
                out.append(('l', l))
                for a in data.args:
                    al = op_local(a)
                    if al is not None and self.b.local_ty(al).startswith('&mut'):
                        out.extend(self._referent_nodes(al, depth + 1))
        if not self.b.defs.get(l):
            out.append(('l', l))
        return out

    def _build(self):
        b = self.b
        # pass 0: collect field names
        for bi, blk in enumerate(b.blocks):
            if not b.live[bi]:
                continue
            for s in blk['stmts']:
                if s['k'] == 'assign':
                    self.write_nodes(s['place'])
                    rv = s['rv']
                    for o in rvalue_operands(rv):
                        self.op_nodes(o)
                    if rv['k'] in ('ref', 'rawptr', 'discr'):
                        self.read_nodes(rv['place'])
        for _round in range(3):
            for bi, blk in enumerate(b.blocks):
                if not b.live[bi]:
                    continue
                for s in blk['stmts']:
                    if s['k'] != 'assign':
                        continue
                    rv = s['rv']
                    dst = s['place']
                    if rv['k'] == 'agg' and rv.get('agg') in ('adt', 'tuple') and not dst['p']:
                        names = rv.get('fields') or [str(i) for i in range(len(rv['ops']))]
                        pref = (rv['variant'] + '.') if rv.get('is_enum') else ''
                        for nm, o in zip(names, rv['ops']):
                            key = pref + nm
                            self.fields[dst['l']].add(key)
                            for n in self.op_nodes(o):
                                self._add(n, ('lf', dst['l'], key))
                        continue
                    srcs = []
                    for o in rvalue_operands(rv):
                        srcs.extend(self.op_nodes(o))
                    if rv['k'] in ('ref', 'rawptr', 'discr'):
                        srcs.extend(self.read_nodes(rv['place']))
                    dsts = self.write_nodes(dst)
                    # whole -> whole copy keeps field sensitivity
                    if rv['k'] in ('use', 'cast') and not dst['p']:
                        o = rv['op']
                        if o['k'] in ('copy', 'move') and not o['place']['p']:
                            sl = o['place']['l']
                            for f in list(self.fields[sl]):
                                self.fields[dst['l']].add(f)
                                self._add(('lf', sl, f), ('lf', dst['l'], f))
                            self._add(('l', sl), ('l', dst['l']))
                            continue
                    if rv['k'] == 'ref' and not dst['p'] and not rv['place']['p']:
                        sl = rv['place']['l']
                        for f in list(self.fields[sl]):
                            self.fields[dst['l']].add(f)
                            self._add(('lf', sl, f), ('lf', dst['l'], f))
                        self._add(('l', sl), ('l', dst['l']))
                        continue
                    for sn in srcs:
                        for dn in dsts:
                            self._add(sn, dn)
                t = blk['term']
                if t['k'] == 'call':
                    cs = b.call_at[b.pterm[bi]]
                    opaque = bool(prim_effects(cs.name) & OPAQUE_PRIMS)
                    argnodes = []
                    for a in cs.args:
                        argnodes.append(self.op_nodes(a))
                    dsts = self.write_nodes(cs.dest) if cs.dest is not None else []
                    if not opaque:
                        for an in argnodes:
                            for sn in an:
                                for dn in dsts:
                                    self._add(sn, dn)
                        # &mut args: referents may receive every other arg
                        for i, a in enumerate(cs.args):
                            al = op_local(a)
                            if al is None:
                                continue
                            if not b.local_ty(al).startswith('&mut'):
                                continue
                            refs = self._referent_nodes(al)
                            for j, an in enumerate(argnodes):
                                if j == i:
                                    continue
                                for sn in an:
                                    for dn in refs:
                                        self._add(sn, dn)
                            # the result may also depend on the referent's content
                            for rn in refs:
                                for dn in dsts:
                                    self._add(rn, dn)
        # whole taint flows into field reads
        for l, fs in self.fields.items():
            for f in fs:
                self._add(('l', l), ('lf', l, f))

    # ---- queries
    def forward(self, sources, skip_mem=False, stop=()):
        """`stop`: nodes the taint does not enter (e.g. the unit result of a write call, which carries no count)."""
        seen = set(sources)
        work = list(sources)
        while work:
            n = work.pop()
            for m in self.edges.get(n, ()):
                if skip_mem and m[0] == 'm':
                    continue
                if m in stop:
                    continue
                if m not in seen:
                    seen.add(m)
                    work.append(m)
        return seen

    def backward(self, sinks, skip_mem=False):
        seen = set(sinks)
        work = list(sinks)
        while work:
            n = work.pop()
            for m in self.redges.get(n, ()):
                if skip_mem and m[0] == 'm':
                    continue
                if m not in seen:
                    seen.add(m)
                    work.append(m)
        return seen

    def op_tainted(self, op, tainted):
        return any(n in tainted for n in self.op_nodes(op))

    def place_tainted(self, pl, tainted):
        return any(n in tainted for n in self.read_nodes(pl))

    def local_sources(self, l):
        out = [('l', l)]
        for f in self.fields[l]:
            out.append(('lf', l, f))
        return out

    def call_result_nodes(self, cs):
        return self.write_nodes(cs.dest) if cs.dest is not None else []


_cache = {}


def flow_of(body):
    k = id(body)
    if k not in _cache:
        _cache[k] = Flow(body)
    return _cache[k]
