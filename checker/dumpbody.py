"""dev helper: dumpbody.py <facts.json> <path-substring>  -- compact dump of a (normalised) body"""
import sys, json, os
sys.path.insert(0, os.path.dirname(__file__))
from core import Facts
f = Facts(sys.argv[1])
def pl_s(pl):
    s = '_%d' % pl['l']
    for e in pl['p']:
        if e['k'] == 'deref': s = '(*%s)' % s
        elif e['k'] == 'field': s += '.%s' % (e.get('name') if e.get('name') is not None else e['i'])
        elif e['k'] == 'downcast': s = '(%s as %s)' % (s, e.get('variant'))
        elif e['k'] == 'index': s += '[_%s]' % e['local']
        else: s += '{%s}' % e['k']
    return s
def op_s(o):
    if o['k'] in ('copy', 'move'): return ('mv ' if o['k'] == 'move' else '') + pl_s(o['place'])
    if o['k'] == 'const': return 'const %s' % (o.get('text') or o.get('bits'))
    return json.dumps(o)[:60]
def rv_s(rv):
    k = rv['k']
    if k in ('use',): return op_s(rv['op'])
    if k == 'cast': return 'cast(%s)' % op_s(rv['op'])
    if k in ('ref', 'rawptr'): return '&%s%s' % ('mut ' if rv.get('mut') == 'mut' else '', pl_s(rv['place']))
    if k == 'discr': return 'discr(%s)' % pl_s(rv['place'])
    if k == 'binop': return '%s(%s, %s)' % (rv['op'], op_s(rv['a']), op_s(rv['b']))
    if k == 'unop': return '%s(%s)' % (rv['op'], op_s(rv['a']))
    if k == 'agg': return '%s::%s(%s)' % ((rv.get('adt') or rv.get('agg') or '').split('::')[-1], rv.get('variant'), ', '.join(op_s(o) for o in rv.get('ops', [])))
    return json.dumps(rv)[:80]
for b in f.bodies.values():
    if sys.argv[2] in b.path and not b.generic_dup():
        print('==', b.path, 'id', b.id)
        for bi, blk in enumerate(b.blocks):
            if not b.live[bi]: continue
            print(' bb%d%s:' % (bi, ' (split of %s)' % blk['split_of'] if 'split_of' in blk else ''))
            for s in blk['stmts']:
                if s['k'] == 'assign': print('     %s = %s' % (pl_s(s['place']), rv_s(s['rv'])))
            t = blk['term']
            if t['k'] == 'call': print('     %s = CALL %s(%s) -> bb%s' % (pl_s(t['dest']) if t.get('dest') else '_', t['callee']['name'][-70:], ', '.join(op_s(a) for a in t['args']), t.get('target')))
            elif t['k'] == 'switch': print('     SWITCH %s %s else bb%s' % (op_s(t['discr']), t['targets'], t['otherwise']))
            elif t['k'] in ('goto', 'drop', 'assert'): print('     %s -> bb%s' % (t['k'], t['target']))
            else: print('     %s' % t['k'])
