"""A-EFF / A-CONST / A-WR: effect primitives at the std boundary, may/must summaries over the
monomorphic call graph, constant specialisation on fieldless-enum parameters, field write sets."""
import re
from collections import defaultdict

from core import op_local, op_const_bits, place_fields, place_has_deref, mem_locs

# ------------------------------------------------------------------------------------------------
# §4.1 effect primitives: regexes over the *resolved* callee name
PRIM_TABLE = [
    ('WRITE', r'^<std::io::BufWriter<std::fs::File> as std::io::Write>::(write_all|write|write_vectored|write_fmt|write_all_vectored)$'),
    ('WRITE', r'^<&?std::fs::File as std::io::Write>::(write_all|write|write_vectored|write_fmt|write_all_vectored)$'),
    ('WRITE', r'^std::os::unix::fs::FileExt::(write_at|write_all_at)'),
    ('WRITE', r'^<std::fs::File as std::os::unix::fs::FileExt>::(write_at|write_all_at)'),
    ('FLUSH', r'^<std::io::BufWriter<std::fs::File> as std::io::Write>::flush$'),
    ('FSYNC', r'^std::fs::File::(sync_data|sync_all)$'),
    ('UNLINK', r'^std::fs::(remove_file|remove_dir|remove_dir_all|rename)(::<.*>)?$'),
    ('CREATE', r'^std::fs::File::(create|create_new|create_buffered)(::<.*>)?$'),
    ('CREATE', r'^std::fs::(write|copy|hard_link|create_dir|create_dir_all|soft_link)(::<.*>)?$'),
    ('CREATE', r'^std::os::unix::fs::symlink(::<.*>)?$'),
    ('CREATE', r'^std::fs::DirBuilder::create(::<.*>)?$'),
    ('OPEN', r'^std::fs::OpenOptions::open(::<.*>)?$'),
    ('OPENRO', r'^std::fs::File::open(::<.*>)?$'),
    ('OPENRO', r'^std::fs::(read|read_to_string)(::<.*>)?$'),
    ('SETLEN', r'^std::fs::File::set_len$'),
    ('SEEK', r'^<std::fs::File as std::io::Seek>::(seek|rewind|seek_relative)$'),
    ('SEEK', r'^<std::io::BufWriter<std::fs::File> as std::io::Seek>::(seek|rewind|seek_relative)$'),
    ('SCAN', r'^std::fs::read_dir(::<.*>)?$'),
    ('READ', r'^<std::fs::File as std::io::Read>::(read|read_exact|read_to_end|read_to_string|read_buf|read_vectored)$'),
    ('PERM', r'^std::fs::(set_permissions)(::<.*>)?$'),
    ('PERM', r'^std::fs::File::(set_permissions|set_modified|set_times)$'),
    ('LEAK', r'^std::mem::forget(::<.*>)?$'),
    ('LEAK', r'^std::mem::ManuallyDrop::<.*>::new$'),
    ('LEAK', r'^std::sync::Arc::<.*>::(into_raw|increment_strong_count|from_raw|decrement_strong_count)$'),
    ('LEAK', r'^std::boxed::Box::<.*>::leak'),
    ('LEAK', r'^std::vec::Vec::<.*>::leak'),
    ('BUFESCAPE', r'^std::io::BufWriter::<std::fs::File>::(into_parts|into_inner|get_mut)$'),
    ('NOW', r'^std::time::Instant::now$'),
    ('NOW', r'^std::time::SystemTime::now$'),
]
PRIM_RE = [(e, re.compile(r)) for (e, r) in PRIM_TABLE]

PATH_TAKING = {'UNLINK', 'CREATE', 'OPEN', 'OPENRO', 'SCAN', 'PERM'}

MEM_ADTS = {'mem::queues::MemQueues', 'mem::queue::MemQueue', 'mem::rolling_buffer::RollingBuffer', 'mem::queue::RecordMeta'}
TRACK_FIELDS = {('rolling::file_number::FileTracker', 'files')}


def prim_effects(name):
    return {e for (e, r) in PRIM_RE if r.match(name)}


class Effects:
    def __init__(self, facts):
        self.f = facts
        self._direct = {}
        self._may = None
        self._must_cache = {}
        self._dirsync_bodies = None
        self._maywrite = None

    # ---- direct (intra-body) effect sites: list of (point, effect, detail)
    def direct_sites(self, b):
        """Effect sites of b. The fsync of a handle opened on the WAL *directory* is labelled DIRFSYNC, so
        that FSYNC always means "the WAL file's data was synced"."""
        key = ('rel', b.id)
        if key in self._direct:
            return self._direct[key]
        raw = self._raw_sites(b)
        if b.id in self.dirsync_bodies():
            raw = [(p, 'DIRFSYNC' if e == 'FSYNC' else e, d) for (p, e, d) in raw]
        self._direct[key] = raw
        return raw

    def _raw_sites(self, b):
        if b.id in self._direct:
            return self._direct[b.id]
        out = []
        openopts = {}
        for cs in b.calls:
            for e in prim_effects(cs.name):
                out.append((cs.point, e, cs))
        # OPEN refinement: OPENRW / CREATE / OPENRO depending on OpenOptions methods used in body
        methods = set()
        for cs in b.calls:
            m = re.match(r'^std::fs::OpenOptions::(\w+)$', cs.name)
            if m:
                # record the constant bool argument when present
                val = None
                if len(cs.args) >= 2:
                    val = op_const_bits(cs.args[1])
                    if val is None:
                        val = 'dyn'
                methods.add((m.group(1), val))
        refined = []
        for (p, e, cs) in out:
            if e == 'OPEN':
                on = {m for (m, v) in methods if v in (1, 'dyn', None)}
                if on & {'create', 'create_new', 'truncate', 'append'}:
                    refined.append((p, 'CREATE', cs))
                elif 'write' in on:
                    refined.append((p, 'OPENRW', cs))
                else:
                    refined.append((p, 'OPENRO', cs))
            else:
                refined.append((p, e, cs))
        out = refined
        # MEM / TRACK: stores and &mut borrows through a deref of fields of the tracked ADTs
        for (p, pl, _rv) in b.stores:
            for (adt, name, deref) in place_fields(pl):
                if deref and adt in MEM_ADTS:
                    out.append((p, 'MEM', pl))
                    break
            for (adt, name, deref) in place_fields(pl):
                if deref and (adt, name) in TRACK_FIELDS:
                    out.append((p, 'TRACK', pl))
        for (p, pl) in b.mut_borrows:
            if not place_has_deref(pl):
                continue
            for (adt, name, deref) in place_fields(pl):
                if deref and adt in MEM_ADTS:
                    out.append((p, 'MEM', pl))
                    break
            for (adt, name, deref) in place_fields(pl):
                if deref and (adt, name) in TRACK_FIELDS:
                    out.append((p, 'TRACK', pl))
        self._direct[b.id] = out
        return out

    def openoptions_methods(self, b):
        ms = set()
        for cs in b.calls:
            m = re.match(r'^std::fs::OpenOptions::(\w+)$', cs.name)
            if m:
                ms.add(m.group(1))
        return ms

    # ---- DIRSYNC: body that opens Directory.dir itself (read-only) and fsyncs that handle
    def dirsync_bodies(self):
        if self._dirsync_bodies is not None:
            return self._dirsync_bodies
        res = set()
        for b in self.f.bodies.values():
            opens = [cs for (p, e, cs) in self._raw_sites(b) if e == 'OPENRO' and (cs.name.startswith('std::fs::OpenOptions::open') or cs.name.startswith('std::fs::File::open'))]
            syncs = [cs for (p, e, cs) in self._raw_sites(b) if e == 'FSYNC']
            # `open(dir).and_then(|fd| fd.sync_data())`: the fsync sits in a closure this body calls (A-DESUGAR)
            for c in b.calls:
                if c.node is not None and c.node in self.f.bodies and self.f.bodies[c.node].is_closure:
                    syncs += [cs for (p, e, cs) in self._raw_sites(self.f.bodies[c.node]) if e == 'FSYNC']
            if not opens or not syncs:
                continue
            ok = False
            for cs in opens:
                # path argument is args[1]; must be a borrow of (*self).dir of Directory
                al = cs.arg_local(1) if cs.name.startswith('std::fs::OpenOptions::open') else cs.arg_local(0)     # File::open(path): read-only
                if al is None:
                    continue
                # ... possibly through re-borrows and path views (`&*self.dir`, `self.dir.as_path()`, a `&Path` kept in a
                # helper struct)
                seen, work = set(), [al]
                while work:
                    l = work.pop()
                    if l is None or l in seen:
                        continue
                    seen.add(l)
                    for o in b.trace_local(l):
                        if o[0] == 'rv' and o[2]['k'] == 'ref':
                            fl = place_fields(o[2]['place'])
                            if fl and fl[-1][0] == 'rolling::directory::Directory' and fl[-1][1] == 'dir':
                                ok = True
                            elif all(e['k'] == 'deref' for e in o[2]['place']['p']):
                                work.append(o[2]['place']['l'])
                        elif o[0] == 'call' and o[1].name.split('::')[-1].split('<')[0] in ('deref', 'as_path', 'as_ref', 'borrow', 'as_os_str') and o[1].args:
                            work.append(o[1].arg_local(0))
            if ok:
                res.add(b.id)
        self._dirsync_bodies = res
        return res

    # ---- may
    def may(self):
        """node id -> set of effects that may happen inside (transitively, incl. closures created)."""
        if self._may is not None:
            return self._may
        may = {}
        for b in self.f.bodies.values():
            s = {e for (_p, e, _d) in self.direct_sites(b)}
            if b.id in self.dirsync_bodies():
                s.add('DIRSYNC')
            may[b.id] = s
        changed = True
        while changed:
            changed = False
            for b in self.f.bodies.values():
                s = may[b.id]
                n0 = len(s)
                for cs in b.calls:
                    if cs.node is not None and cs.node in may:
                        s |= may[cs.node]
                for (_p, fnj) in b.fn_values:
                    n = fnj.get('node')
                    if n is not None and n in may:
                        s |= may[n]
                if len(s) != n0:
                    changed = True
        self._may = may
        return may

    def call_may(self, cs, effect):
        if cs.node is not None:
            return effect in self.may().get(cs.node, set())
        return effect in prim_effects(cs.name)

    def may_sites(self, b, effect):
        """Points in b (calls / stores) where `effect` may happen (direct or via callee)."""
        pts = []
        for (p, e, _d) in self.direct_sites(b):
            if e == effect:
                pts.append(p)
        for cs in b.calls:
            if cs.node is not None and effect in self.may().get(cs.node, set()):
                pts.append(cs.point)
        if effect == 'DIRSYNC':
            pass
        return sorted(set(pts))

    # ---- const context helpers (A-CONST)
    def arg_const(self, b, cs, i, ctx):
        """Constant value (int) of argument i of call cs in body b under context ctx, else None."""
        if i >= len(cs.args):
            return None
        a = cs.args[i]
        v = op_const_bits(a)
        if v is not None:
            return v
        l = op_local(a)
        if l is None:
            return None
        return self.local_const(b, l, ctx)

    def local_const(self, b, l, ctx, depth=0):
        if depth > 8:
            return None
        if 1 <= l <= b.arg_count and not b.defs.get(l):
            return ctx.get(l) if ctx else None
        d = b.single_def(l)
        if d is None:
            return None
        (p, kind, data) = d
        if kind != 'assign' or data['place']['p']:
            return None
        rv = data['rv']
        if rv['k'] == 'use':
            v = op_const_bits(rv['op'])
            if v is not None:
                return v
            ol = op_local(rv['op'])
            if ol is not None:
                return self.local_const(b, ol, ctx, depth + 1)
        if rv['k'] == 'agg' and rv.get('agg') == 'adt' and rv.get('is_enum') and not rv['ops']:
            # fieldless enum value built in place (mir-opt-level=0 keeps it an aggregate)
            adt = rv['adt'].replace('mrecordlog::', '')
            a = self.f.adts.get(adt)
            if a is not None:
                for v in a['variants']:
                    if v['idx'] == rv['variant_idx'] and v['discr'] is not None:
                        return int(v['discr'])
            return rv['variant_idx']
        return None

    def pruned_edges(self, b, ctx):
        """Edges (point pairs) that cannot be taken under ctx: switches on discriminant of a
        parameter (or copy) whose value is known."""
        if not ctx:
            return set()
        dead = set()
        for (bi, pl, adt, edges) in b.discr_switches():
            if pl['p']:
                continue
            v = self.local_const(b, pl['l'], ctx)
            if v is None:
                continue
            # find the variant for this discr value
            t = b.blocks[bi]['term']
            taken = None
            for (sv, tb) in t['targets']:
                if int(sv) == v:
                    taken = tb
            if taken is None:
                taken = t['otherwise']
            for (_lab, e) in b.switch_edges(bi):
                if e[1] != b.pstart[taken]:
                    dead.add(e)
        return dead

    def callee_ctx(self, b, cs, ctx):
        """Context for the callee of cs: {param_local: const} for enum-const arguments."""
        out = {}
        for i in range(len(cs.args)):
            v = self.arg_const(b, cs, i, ctx)
            if v is not None:
                out[i + 1] = v
        return out

    # ---- must
    def must(self, node, effect, ctx=None):
        """Every path entry -> successful exit of body `node` crosses `effect` (under ctx)."""
        ctx = ctx or {}
        key = (node, effect, tuple(sorted(ctx.items())))
        if key in self._must_cache:
            return self._must_cache[key]
        self._must_cache[key] = False  # recursion guard (graph is recursion-free anyway)
        b = self.f.bodies[node]
        cut = set(self.must_sites(b, effect, ctx))
        dead = self.pruned_edges(b, ctx)
        exits = [e['point'] for e in b.ok_exits()]
        if not exits:
            exits = b.return_points()
        r = b.reach([b.entry], avoid=cut, avoid_edges=dead)
        res = not any((e in r and e not in cut) for e in exits) and (b.entry not in cut or True)
        if b.entry in cut:
            res = True
        self._must_cache[key] = res
        return res

    def must_sites(self, b, effect, ctx=None):
        """Points of b that certainly perform `effect` when executed successfully."""
        ctx = ctx or {}
        pts = []
        if effect == 'DIRSYNC':
            for cs in b.calls:
                if cs.node is not None and cs.node in self.dirsync_bodies() and self._dirsync_must(cs.node):
                    pts.append(cs.point)
        for (p, e, _d) in self.direct_sites(b):
            if e == effect:
                pts.append(p)
        for cs in b.calls:
            if cs.node is None or cs.node not in self.f.bodies:
                continue
            if effect not in self.may().get(cs.node, set()):
                continue
            cctx = self.callee_ctx(b, cs, ctx)
            if self.must(cs.node, effect, cctx):
                pts.append(cs.point)
        return sorted(set(pts))

    def _dirsync_must(self, node):
        return self.must(node, 'OPENRO') and self.must(node, 'DIRFSYNC')

    def call_must(self, b, cs, effect, ctx=None):
        if cs.node is None:
            return effect in prim_effects(cs.name)
        if effect == 'DIRSYNC' and cs.node in self.dirsync_bodies():
            return self._dirsync_must(cs.node)
        return self.must(cs.node, effect, self.callee_ctx(b, cs, ctx or {}))

    # ---- A-WR: may-write sets of abstract locations 'Adt.field'
    def maywrite(self):
        if self._maywrite is not None:
            return self._maywrite
        mw = {}
        for b in self.f.bodies.values():
            s = set()
            for (p, pl, _rv) in b.stores:
                for loc in mem_locs(pl):
                    s.add(loc)
            for (p, pl) in b.mut_borrows:
                if not place_has_deref(pl):
                    continue
                locs = mem_locs(pl)
                if not locs:
                    continue
                # who consumes the borrow? if only passed to local callees, their summaries count;
                # conservatively count the innermost field as written when the borrow goes to a
                # non-local callee or is stored/returned.
                if self._borrow_escapes_to_nonlocal(b, p):
                    s.add(locs[-1])
            mw[b.id] = s
        changed = True
        while changed:
            changed = False
            for b in self.f.bodies.values():
                s = mw[b.id]
                n0 = len(s)
                for cs in b.calls:
                    if cs.node is not None and cs.node in mw:
                        s |= mw[cs.node]
                for (_p, fnj) in b.fn_values:
                    n = fnj.get('node')
                    if n is not None and n in mw:
                        s |= mw[n]
                if len(s) != n0:
                    changed = True
        self._maywrite = mw
        return mw

    def _borrow_escapes_to_nonlocal(self, b, p):
        st = b.stmt_at(p)
        if st is None or st['k'] != 'assign' or st['place']['p']:
            return True
        l = st['place']['l']
        if l == 0:
            return True  # returned to the caller: caller decides; count as write capability
        # follow l through copies to its uses
        work = [l]
        seen = set()
        while work:
            x = work.pop()
            if x in seen:
                continue
            seen.add(x)
            for cs in b.calls:
                for i, a in enumerate(cs.args):
                    pl = a.get('place') if a['k'] in ('copy', 'move') else None
                    if pl is not None and pl['l'] == x:
                        if cs.node is None:
                            return True
            for (dl, ds) in b.defs.items():
                for (dp, kind, data) in ds:
                    if kind == 'assign':
                        rv = data['rv']
                        for o in ([rv.get('op')] if rv['k'] in ('use', 'cast') else []):
                            if o and o['k'] in ('copy', 'move') and o['place']['l'] == x:
                                if dl == 0:
                                    return True
                                work.append(dl)
                        if rv['k'] == 'ref' and rv['place']['l'] == x:
                            if dl == 0:
                                return True
                            work.append(dl)
                        if rv['k'] == 'agg':
                            for o in rv['ops']:
                                if o['k'] in ('copy', 'move') and o['place']['l'] == x:
                                    return True
            for (sp, spl, srv) in b.stores:
                if spl['l'] == x:
                    return True
        return False
