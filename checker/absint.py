"""A small abstract interpreter over the (normalised) MIR facts, for rules whose question is about VALUES of a finite
domain -- which enum variant / boolean reaches a call in which iteration -- and not about the shape of the code that
computes them. It executes bodies on abstract values:

    ('i', n)                         an integer / bool constant
    ('adt', path, variant, fields)   an enum variant or struct value built by an aggregate
    ('tup', fields)                  a tuple
    ('refv', value)                  a shared reference to a (snapshotted) known value
    ('cond', name, polarity)         a boolean whose truth is the named condition (decided once per scope by forking)
    ('len', root)                    the length of the slice rooted at local `root`
    UNK                              anything else

Switches on known values follow one edge; switches on a `cond` fork once and remember the decision; switches on UNK
fork over all targets. Calls to crate-local functions that have no effect at all are evaluated by running the callee on
the argument values (bounded depth); other calls give UNK unless the client's `on_call` hook says otherwise. There is
no solver and nothing is executed: this is constant propagation with path splitting, bounded in states and steps
(a run that exceeds its budget reports `exhausted` and the client must treat the answer as unknown)."""
from core import op_local, strip_crate, mem_loc

UNK = ('unk',)


def is_known(v):
    return v is not None and v != UNK


class Path(object):
    __slots__ = ('block', 'env', 'conds', 'trace', 'data')

    def __init__(self, block, env, conds, trace, data):
        self.block = block
        self.env = env
        self.conds = conds
        self.trace = trace
        self.data = data

    def fork(self, block=None):
        return Path(self.block if block is None else block, dict(self.env), dict(self.conds), list(self.trace), dict(self.data))


class AbsInt(object):
    def __init__(self, ctx, max_states=400, max_steps=20000, max_depth=3):
        self.ctx = ctx
        self.f = ctx.f
        self.max_states = max_states
        self.max_steps = max_steps
        self.max_depth = max_depth
        self.exhausted = False
        self.on_binop = None      # client hook: (body, rvalue, value_a, value_b) -> value or None
        self._memo = {}

    # ---------------------------------------------------------------- values
    def discr_of(self, adt, variant):
        adt = strip_crate(adt or '')
        if adt in self.f.adts:
            for v in self.f.adts[adt]['variants']:
                if v['name'] == variant:
                    return int(v['discr']) if v.get('discr') is not None else int(v['idx'])
            return None
        for dv in range(0, 8):
            if self.f.variant_by_discr(adt, dv) == variant:
                return dv
        return None

    def const_val(self, op):
        if op.get('bits') is not None:
            return ('i', int(op['bits']))
        if op.get('zst') and op.get('ty') == '()':
            return ('tup', ())
        return UNK

    def _mem_key(self, pl):
        """('m', 'Adt.field') when pl is exactly a field of an ADT reached through a dereference (`(*self).flag`)"""
        if not pl['p'] or pl['p'][-1]['k'] != 'field' or not any(e['k'] == 'deref' for e in pl['p']):
            return None
        loc = mem_loc(pl)
        return ('m', loc) if loc else None

    def read_place(self, env, pl):
        mk = self._mem_key(pl)
        if mk is not None:
            return env.get(mk, UNK)
        v = env.get(pl['l'], UNK)
        for e in pl['p']:
            k = e['k']
            if k == 'deref':
                if isinstance(v, tuple) and v and v[0] == 'refv':
                    v = v[1]
                elif isinstance(v, tuple) and v and v[0] == 'ref':
                    v = env.get(v[1], UNK)
                else:
                    return UNK
            elif k == 'downcast':
                if isinstance(v, tuple) and v and v[0] == 'adt':
                    if v[2] != e.get('variant'):
                        return UNK
                else:
                    return UNK
            elif k == 'field':
                if isinstance(v, tuple) and v and v[0] == 'adt' and e['i'] < len(v[3]):
                    v = v[3][e['i']]
                elif isinstance(v, tuple) and v and v[0] == 'tup' and e['i'] < len(v[1]):
                    v = v[1][e['i']]
                else:
                    return UNK
            else:
                return UNK
        return v

    def eval_op(self, env, op):
        if op['k'] in ('copy', 'move'):
            return self.read_place(env, op['place'])
        if op['k'] == 'const':
            return self.const_val(op)
        return UNK

    def write_place(self, env, pl, val):
        mk = self._mem_key(pl)
        if mk is not None:
            env[mk] = val
            return
        if not pl['p']:
            env[pl['l']] = val
            return
        # field update of a known aggregate held in a local: X.f = v / (X as V).f = v
        proj = [e for e in pl['p'] if e['k'] != 'downcast']
        if len(proj) == 1 and proj[0]['k'] == 'field':
            cur = env.get(pl['l'], UNK)
            i = proj[0]['i']
            if isinstance(cur, tuple) and cur and cur[0] == 'adt' and i < len(cur[3]):
                fs = list(cur[3])
                fs[i] = val
                env[pl['l']] = ('adt', cur[1], cur[2], tuple(fs))
                return
            if isinstance(cur, tuple) and cur and cur[0] == 'tup' and i < len(cur[1]):
                fs = list(cur[1])
                fs[i] = val
                env[pl['l']] = ('tup', tuple(fs))
                return
        if pl['p'][0]['k'] != 'deref':
            env[pl['l']] = UNK
        # stores through references: not modelled (the pointee, if a local we track by ('ref', l), is forgotten)
        else:
            v = env.get(pl['l'], UNK)
            if isinstance(v, tuple) and v and v[0] == 'ref':
                env[v[1]] = val if len(pl['p']) == 1 else UNK

    def eval_rv(self, body, env, rv):
        k = rv['k']
        if k == 'use':
            return self.eval_op(env, rv['op'])
        if k == 'cast':
            v = self.eval_op(env, rv['op'])
            return v if isinstance(v, tuple) and v and v[0] in ('i', 'refv', 'ref') else UNK
        if k == 'agg':
            ops = tuple(self.eval_op(env, o) for o in rv.get('ops', []))
            if rv.get('agg') == 'adt':
                return ('adt', strip_crate(rv.get('adt') or ''), rv.get('variant'), ops)
            if rv.get('agg') == 'tuple':
                return ('tup', ops)
            return UNK
        if k == 'ref':
            pl = rv['place']
            if not pl['p']:
                return ('ref', pl['l'])
            if all(e['k'] == 'deref' for e in pl['p']):
                v = env.get(pl['l'], UNK)
                return v if isinstance(v, tuple) and v and v[0] in ('ref', 'refv') else UNK
            v = self.read_place(env, pl)
            return ('refv', v) if is_known(v) else UNK
        if k == 'discr':
            v = self.read_place(env, rv['place'])
            if isinstance(v, tuple) and v and v[0] == 'adt':
                d = self.discr_of(v[1], v[2])
                return ('i', d) if d is not None else UNK
            return UNK
        if k == 'binop':
            a, b_ = self.eval_op(env, rv['a']), self.eval_op(env, rv['b'])
            op = rv['op']
            if self.on_binop is not None:
                r_ = self.on_binop(body, rv, a, b_)
                if r_ is not None:
                    return r_
            base = op.replace('WithOverflow', '').replace('Unchecked', '')
            if isinstance(a, tuple) and isinstance(b_, tuple) and a and b_ and a[0] == 'i' and b_[0] == 'i':
                x, y = a[1], b_[1]
                res = {'Eq': int(x == y), 'Ne': int(x != y), 'Lt': int(x < y), 'Le': int(x <= y), 'Gt': int(x > y), 'Ge': int(x >= y),
                       'Add': x + y, 'Sub': x - y, 'Mul': x * y, 'BitAnd': x & y, 'BitOr': x | y, 'BitXor': x ^ y}.get(base)
                if res is None:
                    return UNK
                return ('tup', (('i', res), ('i', 0))) if op.endswith('WithOverflow') else ('i', res)
            # emptiness spelt with len(): len == 0, len != 0, len < 1, len > 0, len >= 1, len <= 0
            for (p, q, flip) in ((a, b_, False), (b_, a, True)):
                if isinstance(p, tuple) and p and p[0] == 'len' and isinstance(q, tuple) and q and q[0] == 'i':
                    o2 = {'Lt': 'Gt', 'Gt': 'Lt', 'Le': 'Ge', 'Ge': 'Le'}.get(base, base) if flip else base
                    if (o2, q[1]) in (('Eq', 0), ('Lt', 1), ('Le', 0)):
                        return ('cond', 'empty:%s' % (p[1],), True)
                    if (o2, q[1]) in (('Ne', 0), ('Ge', 1), ('Gt', 0)):
                        return ('cond', 'empty:%s' % (p[1],), False)
            if base in ('Eq', 'Ne') and a == b_ and is_known(a) and a[0] in ('adt',):
                return ('i', int(base == 'Eq'))
            return UNK
        if k == 'unop':
            a = self.eval_op(env, rv['a'])
            if rv['op'] == 'Not':
                if isinstance(a, tuple) and a and a[0] == 'i' and a[1] in (0, 1):
                    return ('i', 1 - a[1])
                if isinstance(a, tuple) and a and a[0] == 'cond':
                    return ('cond', a[1], not a[2])
            return UNK
        return UNK

    # ---------------------------------------------------------------- pure callees
    def pure_call(self, callee, args, depth):
        """value returned by running the effect-free crate-local body `callee` on args, if it is the same on every
        path; else UNK"""
        if depth > self.max_depth or callee.loops():
            return UNK
        if self.ctx.E.may().get(callee.id):
            return UNK
        key = (callee.id, repr(args))
        if key in self._memo:
            return self._memo[key]
        self._memo[key] = UNK
        env = {}
        for i, a in enumerate(args):
            if isinstance(a, tuple) and a and a[0] == 'ref':
                a = UNK
            env[i + 1] = a
        outs = self.run(callee, Path(0, env, {}, [], {}), depth=depth + 1)
        vals = set()
        for (kind, p) in outs:
            if kind == 'return':
                vals.add(repr(p.env.get(0, UNK)))
                last = p.env.get(0, UNK)
            else:
                vals.add('?')
        res = last if len(vals) == 1 and '?' not in vals and is_known(last) else UNK
        self._memo[key] = res
        return res

    # ---------------------------------------------------------------- the interpreter
    def run(self, body, start, on_call=None, on_block=None, depth=0):
        """Explore body from Path `start`. on_block(path, block) -> None to go on, or a string to end the path there with
        that outcome kind. on_call(path, callsite, arg_values) -> None for the default treatment, or a list of
        (dest_value, data_updates) alternatives. Returns [(kind, Path)] with kind in return / diverge / <on_block kinds>."""
        outs = []
        work = [start]
        steps = 0
        nstates = 0
        while work:
            p = work.pop()
            nstates += 1
            if nstates > self.max_states:
                self.exhausted = True
                break
            ended = False
            while not ended:
                steps += 1
                if steps > self.max_steps:
                    self.exhausted = True
                    return outs
                bi = p.block
                if on_block is not None:
                    r = on_block(p, bi)
                    if r is not None:
                        outs.append((r, p))
                        break
                blk = body.blocks[bi]
                if p.data.pop('_resume_at_term', False):
                    pass
                else:
                    for st in blk['stmts']:
                        if st['k'] == 'assign':
                            self.write_place(p.env, st['place'], self.eval_rv(body, p.env, st['rv']))
                t = blk['term']
                k = t['k']
                if k == 'goto' or k in ('drop', 'assert'):
                    p.block = t['target']
                    continue
                if k == 'return':
                    outs.append(('return', p))
                    break
                if k == 'switch':
                    v = self.eval_op(p.env, t['discr'])
                    targets = [(int(sv), tb) for (sv, tb) in t['targets']]
                    if isinstance(v, tuple) and v and v[0] == 'cond':
                        name, pol = v[1], v[2]
                        if name in p.conds:
                            truth = p.conds[name] == pol
                            v = ('i', int(truth))
                        else:
                            alts = []
                            for decided in (True, False):
                                q = p.fork()
                                q.conds[name] = decided
                                truth = int(decided == pol)
                                tgt = None
                                for (sv, tb) in targets:
                                    if sv == truth:
                                        tgt = tb
                                if tgt is None:
                                    tgt = t['otherwise']
                                q.block = tgt
                                alts.append(q)
                            work.extend(alts)
                            break
                    if isinstance(v, tuple) and v and v[0] == 'i':
                        tgt = None
                        for (sv, tb) in targets:
                            if sv == v[1]:
                                tgt = tb
                        p.block = tgt if tgt is not None else t['otherwise']
                        continue
                    seen_t = []
                    for tb in [tb for (_sv, tb) in targets] + [t['otherwise']]:
                        if tb in seen_t:
                            continue
                        # an `otherwise` that is plain unreachable is not a path
                        tbk = body.blocks[tb]
                        if tbk['term']['k'] == 'unreachable' and not tbk['stmts']:
                            continue
                        seen_t.append(tb)
                    for tb in seen_t:
                        work.append(p.fork(tb))
                    break
                if k == 'call':
                    cs = body.call_at.get(body.pterm[bi])
                    args = [self.eval_op(p.env, a) for a in t.get('args', [])]
                    # an argument that is an undecided condition: decide it here (the callee may branch on it)
                    und = None
                    for a in args:
                        if isinstance(a, tuple) and a and a[0] == 'cond' and a[1] not in p.conds:
                            und = a[1]
                        if isinstance(a, tuple) and a and a[0] == 'ref':
                            pv = p.env.get(a[1], UNK)
                            if isinstance(pv, tuple) and pv and pv[0] == 'cond' and pv[1] not in p.conds:
                                und = pv[1]
                    if und is not None:
                        for decided in (True, False):
                            q = p.fork()
                            q.conds[und] = decided
                            q.data['_resume_at_term'] = True
                            work.append(q)
                        break
                    args = [(('i', int(p.conds[a[1]] == a[2])) if (isinstance(a, tuple) and a and a[0] == 'cond' and a[1] in p.conds) else a) for a in args]
                    alts = on_call(p, cs, args) if (on_call is not None and cs is not None) else None
                    if alts is None:
                        val = UNK
                        nm_ = (t.get('callee') or {}).get('name', '')
                        if 'as std::ops::Try>::branch' in nm_ and args and isinstance(args[0], tuple) and args[0] and args[0][0] == 'adt':
                            a0 = args[0]
                            if a0[2] in ('Ok', 'Some'):
                                val = ('adt', 'std::ops::ControlFlow', 'Continue', (a0[3][0] if a0[3] else UNK,))
                            elif a0[2] in ('Err', 'None'):
                                val = ('adt', 'std::ops::ControlFlow', 'Break', (a0,))
                        elif cs is not None and cs.node is not None and cs.node in self.f.bodies:
                            cal = self.f.bodies[cs.node]
                            pargs = []
                            for a in args:
                                if isinstance(a, tuple) and a and a[0] == 'ref':
                                    pv = p.env.get(a[1], UNK)
                                    if isinstance(pv, tuple) and pv and pv[0] == 'cond' and pv[1] in p.conds:
                                        pv = ('i', int(p.conds[pv[1]] == pv[2]))
                                    a = ('refv', pv) if is_known(pv) else UNK
                                pargs.append(a)
                            val = self.pure_call(cal, pargs, depth)
                        alts = [(val, None)]
                    if t.get('target') is None:
                        outs.append(('diverge', p))
                        break
                    first = True
                    for (val, upd) in alts[1:]:
                        q = p.fork(t['target'])
                        if t.get('dest') is not None:
                            self.write_place(q.env, t['dest'], val)
                        if upd:
                            q.data.update(upd.get('data', {}))
                            q.conds.update(upd.get('conds', {}))
                            q.trace.extend(upd.get('trace', []))
                        work.append(q)
                    (val, upd) = alts[0]
                    if t.get('dest') is not None:
                        self.write_place(p.env, t['dest'], val)
                    if upd:
                        p.data.update(upd.get('data', {}))
                        p.conds.update(upd.get('conds', {}))
                        p.trace.extend(upd.get('trace', []))
                    p.block = t['target']
                    continue
                # unreachable / resume / anything else
                break
        return outs
