"""Groups BYTES and QUIET (§5.7): what a call reports and when it must be silent."""
import re

from core import op_local, op_const_bits, op_const_named, place_fields, strip_crate, alias_paths, place_path, mem_loc
from engine import rule
from flow import flow_of
from vocab import api_mut, open_bodies, kinds_written, where, root_bodies, reachable_bodies, log_sites, agg_field_op, MRL
from rules_open import iob_enums, err_type_of
from rules_persist import BW_WRITE

EFFECTS = ['WRITE', 'FLUSH', 'FSYNC', 'UNLINK', 'CREATE', 'SETLEN', 'MEM', 'TRACK']


def counting_writer_calls(ctx, b):
    out = []
    for cs in b.calls:
        dl = cs.dest_local()
        if cs.node is None or dl is None or not ctx.E.call_may(cs, 'WRITE'):
            continue
        ty = b.local_ty(dl)
        if re.match(r'^std::result::Result<(u64|usize), std::io::Error>$', ty):
            out.append(cs)
    return out


def ref_root(b, l, depth=0):
    """Follow `x = &(*y)` / `x = copy y` chains: ('call', cs) | ('param', i) | ('local', l)"""
    if l is None or depth > 12:
        return None
    ds = b.defs.get(l, [])
    if not ds:
        return ('param', l) if 1 <= l <= b.arg_count else ('local', l)
    if len(ds) != 1:
        return ('local', l)
    (p, kind, data) = ds[0]
    if kind == 'call':
        return ('call', data)
    if kind == 'assign' and not data['place']['p']:
        rv = data['rv']
        pl = rv['place'] if rv['k'] == 'ref' else (rv['op']['place'] if rv['k'] in ('use', 'cast') and rv['op']['k'] in ('copy', 'move') else None)
        if pl is not None and all(e['k'] == 'deref' for e in pl['p']):
            return ref_root(b, pl['l'], depth + 1)
    return ('local', l)


def outcome_field_op(b, exit_, field='wal_bytes_written'):
    """operand stored into `field` of the outcome struct returned by an Ok exit (API bodies)."""
    if not exit_.get('ops'):
        return None, None
    ol = op_local(exit_['ops'][0])
    if ol is None:
        return None, None
    for o in b.trace_local(ol):
        if o[0] == 'rv' and o[2]['k'] == 'agg' and o[2].get('agg') == 'adt' and field in o[2].get('fields', []):
            return agg_field_op(o[2], field), o[2]
    return None, None


@rule('BY1', ['C15'], floor=2, template='must-flow')
def by1(ctx):
    """Frame writer: the length of every slice handed to the block writer is counted."""
    n = 0
    for b in ctx.f.bodies.values():
        if not b.path.startswith('frame::writer::FrameWriter'):
            continue
        ws = [cs for cs in b.calls if cs.orig.endswith('BlockWrite::write') or cs.name == BW_WRITE]
        if not ws:
            continue
        fl = flow_of(b)
        exits = [e for e in b.exits() if e['kind'] == 'ok']
        seen = 0
        for w in ws:
            n += 1
            seen += 1
            # the slice argument: follow re-borrows to the slicing call / the original slice
            srcs = set()
            root = ref_root(b, op_local(w.args[1])) if len(w.args) > 1 and op_local(w.args[1]) is not None else None
            if root is not None and root[0] == 'call' and re.search(r'ops::Index(Mut)?<std::ops::Range', root[1].name) and len(root[1].args) > 1:
                rl = op_local(root[1].args[1])
                for o in (b.trace_local(rl) if rl is not None else []):
                    if o[0] == 'rv' and o[2]['k'] == 'agg' and re.search(r'ops::Range(To|ToInclusive)?$', o[2].get('adt', '')):
                        e = agg_field_op(o[2], 'end')
                        if e is not None:
                            srcs |= set(fl.op_nodes(e))
                            # the count is usually added from the same variable the range end was copied from
                            el = op_local(e)
                            hops = 0
                            while el is not None and hops < 8:
                                hops += 1
                                srcs.add(('l', el))
                                d = b.single_def(el)
                                if d and d[1] == 'assign' and not d[2]['place']['p'] and d[2]['rv']['k'] == 'use' and op_local(d[2]['rv']['op']) is not None:
                                    el = op_local(d[2]['rv']['op'])
                                else:
                                    break
            elif root is not None and root[0] in ('local', 'param'):
                for c in b.calls:
                    if c.name.endswith('::len') and c.args and op_local(c.args[0]) is not None and ref_root(b, op_local(c.args[0])) == root:
                        srcs |= set(fl.call_result_nodes(c))
            # the unit result of the write itself says nothing about the count: an error value travelling
            # through a shared Result local must not make the Ok payload look counted
            stop = set()
            for w2 in ws:
                stop |= set(fl.call_result_nodes(w2))
            t = fl.forward({x for x in srcs}, skip_mem=True, stop=stop)
            reach_exits = [e for e in exits if e['point'] in b.reach_after(w.point)]
            ok = bool(srcs) and bool(reach_exits) and all(e['ops'] and fl.op_tainted(e['ops'][0], t) for e in reach_exits)
            ctx.check(ok, '%s:write#%d' % (b.path, seen), where(b, w.point), 'the length of the slice written flows to the byte count returned',
                      'bytes handed to the block writer (padding or frame) are not counted in the value write_frame returns')
    if n == 0:
        ctx.missing('frame-writer', 'no FrameWriter body calls BlockWrite::write')


@rule('BY2', ['C15'], floor=1, template='must-flow')
def by2(ctx):
    """Entry writer: every frame's byte count flows to the entry's byte count."""
    n = 0
    for b in ctx.f.bodies.values():
        if not (b.path.startswith('recordlog::writer::RecordWriter') or b.path.startswith('frame::writer::FrameWriter')) or b.generic_dup():
            continue
        cws = counting_writer_calls(ctx, b)
        if not cws:
            continue
        fl = flow_of(b)
        exits = [e for e in b.exits() if e['kind'] == 'ok']
        for c in cws:
            n += 1
            t = fl.forward(set(fl.call_result_nodes(c)), skip_mem=True)
            ok = bool(exits) and all(e['ops'] and fl.op_tainted(e['ops'][0], t) for e in exits if e['point'] in b.reach_after(c.point))
            ctx.check(ok, '%s:%s' % (b.path, c.path.split('::')[-1]), where(b, c.point), 'frame byte count flows to the entry byte count',
                      'the bytes reported by write_frame do not reach the value write_record returns')
    if n == 0:
        ctx.missing('record-writer', 'no RecordWriter body calls a counting writer')


BY3_EXCEPTIONS = {
    'multi_record_log::MultiRecordLog::open_with_prefs': 'recovery has no outcome to report GC bytes to (DESIGN §5.7 BY3)',
}


def const_equals_count(b, fl, tainted, point, op):
    """`return Ok(k)` for a constant k is the count itself when the exit is dominated by the edge on which a
    count-tainted value was found equal to k (e.g. `if total == 0 { return Ok(0) }`)."""
    k = op_const_bits(op)
    if k is None:
        ol = op_local(op)
        if ol is not None:
            for o in b.trace_local(ol):
                if o[0] == 'const' and op_const_bits(o[2]) is not None:
                    k = op_const_bits(o[2])
    if k is None:
        return False
    for bj, blk in enumerate(b.blocks):
        if not b.live[bj] or blk['term']['k'] != 'switch':
            continue
        c = b.switch_cond(bj)
        if not (c and c['kind'] == 'bool'):
            continue
        for o in c['origin']:
            if not (o[0] == 'rv' and o[2]['k'] == 'binop' and o[2]['op'] in ('Eq', 'Ne', 'Lt', 'Le', 'Gt', 'Ge')):
                continue
            a_, b_ = o[2]['a'], o[2]['b']
            op_ = o[2]['op']
            if fl.op_tainted(b_, tainted) and op_const_bits(a_) is not None:
                a_, b_ = b_, a_
                op_ = {'Lt': 'Gt', 'Gt': 'Lt', 'Le': 'Ge', 'Ge': 'Le'}.get(op_, op_)
            kk = op_const_bits(b_)
            if kk is None or not fl.op_tainted(a_, tainted):
                continue
            e = b.bool_edges(bj)
            if not e:
                continue
            eq_edge = None
            if (op_, kk) == ('Eq', k):
                eq_edge = e[0]
            elif (op_, kk) == ('Ne', k):
                eq_edge = e[1]
            elif k == 0 and (op_, kk) in (('Le', 0), ('Lt', 1)):
                eq_edge = e[0]
            elif k == 0 and (op_, kk) in (('Gt', 0), ('Ge', 1)):
                eq_edge = e[1]
            if eq_edge is not None and b.edge_dominates(eq_edge, point):
                return True
    return False


@rule('BY3', ['C15'], floor=8, template='must-flow')
def by3(ctx):
    """API and helpers: every entry / GC byte count reaches wal_bytes_written of the outcome."""
    apis = [b for b in api_mut(ctx) if not b.generic_dup()]
    api_ids = {b.id for b in apis}
    bodies = [b for b in reachable_bodies(ctx, apis) if b.path.startswith(MRL) and not b.generic_dup()]
    n = 0
    for b in bodies:
        cws = counting_writer_calls(ctx, b)
        if not cws:
            continue
        fl = flow_of(b)
        for c in cws:
            n += 1
            key = '%s:%s' % (b.path, c.path.split('::')[-1])
            t = fl.forward(set(fl.call_result_nodes(c)), skip_mem=True)
            exits = [e for e in b.exits() if e['kind'] == 'ok' and e['point'] in b.reach_after(c.point)]
            if not exits:
                ctx.bad(key, where(b, c.point), 'no successful exit after the counting writer call')
                continue
            ok = True
            for e in exits:
                if b.id in api_ids:
                    fo, agg = outcome_field_op(b, e)
                    if fo is None or not (fl.op_tainted(fo, t) or const_equals_count(b, fl, t, e['point'], fo)):
                        ok = False
                else:
                    if not (e['ops'] and (fl.op_tainted(e['ops'][0], t) or const_equals_count(b, fl, t, e['point'], e['ops'][0]))):
                        ok = False
            ctx.check(ok, key, where(b, c.point), 'byte count reaches %s' % ('outcome.wal_bytes_written' if b.id in api_ids else 'the helper\'s return value'),
                      'bytes written to the WAL by this call (%s) are not reported: they do not flow into %s' % (c.path.split('::')[-1], 'wal_bytes_written' if b.id in api_ids else 'the returned count'))
    for b in open_bodies(ctx):
        for c in counting_writer_calls(ctx, b):
            if b.path in BY3_EXCEPTIONS:
                ctx.ok('%s:%s' % (b.path, c.path.split('::')[-1]), where(b, c.point), 'exception: ' + BY3_EXCEPTIONS[b.path], nontrivial=False)


@rule('BY4', ['C13', 'C15'], floor=2, template='no-reach')
def by4(ctx):
    """wal_bytes_written = 0 is only returned where nothing can have been written."""
    n = 0
    for b in api_mut(ctx):
        if b.generic_dup():
            continue
        ws = ctx.E.may_sites(b, 'WRITE')
        seen = 0
        for e in b.exits():
            if e['kind'] != 'ok':
                continue
            fo, agg = outcome_field_op(b, e)
            if fo is not None and op_const_bits(fo) == 0:
                n += 1
                seen += 1
                bad = [w for w in ws if e['point'] in b.reach_after(w)]
                ctx.check(not bad, '%s:zero-exit#%d' % (b.path, seen), where(b, e['point']), 'constant 0 returned only on a path without any WAL write',
                          'a path that may have written to the WAL (at %s) reports wal_bytes_written = 0' % (b.loc(bad[0]) if bad else '-'))
    if n == 0:
        ctx.missing('zero-exits', 'no Ok exit with a constant wal_bytes_written = 0')


@rule('BY6', ['C15'], floor=1, template='pairing')
def by6(ctx):
    """Block writer: the offset advances by buf.len() on exactly the paths that write buf."""
    bs = [b for b in ctx.f.bodies.values() if b.name == BW_WRITE]
    if not bs:
        ctx.missing('write-impl', BW_WRITE + ' not found')
        return
    b = bs[0]
    fl = flow_of(b)
    ws = [p for (p, e, cs) in ctx.E.direct_sites(b) if e == 'WRITE']
    # offset stores whose value adds len(buf)
    t_len = set()
    for c in b.calls:
        if c.name.endswith('::len') and c.args and ('l', 2) in fl.backward(set(fl.op_nodes(c.args[0]))):
            t_len |= set(fl.call_result_nodes(c))
    t = fl.forward(t_len)
    adds = [p for (p, pl, rv) in b.stores if mem_loc(pl) == 'RollingWriter.offset' and rv['k'] == 'use' and fl.op_tainted(rv['op'], t)]
    exits = [e['point'] for e in b.ok_exits()]
    r_w = {e for e in exits if e in b.reach([b.entry], avoid=ws)}
    r_a = {e for e in exits if e in b.reach([b.entry], avoid=adds)}
    ctx.check(bool(ws) and bool(adds) and r_w == r_a, '%s:offset-pairs-write' % b.path, where(b, (ws or [b.entry])[0]),
              'offset += buf.len() and write_all(buf) lie on the same success paths',
              'the write offset and the bytes written can diverge (a success path has one without the other): roll-over and padding decisions would be taken on a wrong cursor')
    # an Ok return without a write happens only for an empty buffer
    r0 = b.reach([b.entry], avoid=ws)
    silent = [e for e in exits if e in r0]
    from vocab import emptiness_tests
    empt = emptiness_tests(b)
    ok_silent = all(any(b.edge_dominates(te, e) for (te, _fe, _cs) in empt) for e in silent)
    ctx.check(ok_silent, '%s:silent-only-if-empty' % b.path, where(b, (silent or [b.entry])[0]), 'Ok without a write only on the `buf.is_empty()` edge',
              'the block writer can return Ok without writing a non-empty buffer (inverted / missing emptiness test): bytes counted by the callers never reach the WAL')
    # the written buffer is the parameter
    okbuf = False
    for (p, e, cs) in ctx.E.direct_sites(b):
        if e == 'WRITE' and len(cs.args) > 1:
            back = fl.backward(set(fl.op_nodes(cs.args[1])))
            # only the parameter itself (re-borrowed), no other buffer
            others = {x for x in back if x[0] == 'm' or (x[0] == 'l' and 1 <= x[1] <= b.arg_count and x[1] != 2)}
            if ('l', 2) in back and not others:
                okbuf = True
    ctx.check(okbuf, '%s:writes-its-argument' % b.path, where(b, (ws or [b.entry])[0]), 'write_all receives the buf parameter itself', 'the block writer does not write exactly its buf argument')


# ------------------------------------------------------------------------------------------------
# QUIET

def gate_calls(ctx, b):
    """Gates in API body b. Returns list of dict(kind, call/edge info, reject_edges, accept_edges)."""
    gates = []
    fl = flow_of(b)
    # existence gate: bool-returning MEM-free call that (transitively) uses contains_key
    def uses_contains(body, depth=0):
        for cs in body.calls:
            if re.search(r'HashMap::<.*>::contains_key', cs.name):
                return True
            if depth < 3 and cs.node is not None and uses_contains(ctx.f.bodies[cs.node], depth + 1):
                return True
        return False
    for (bi, c, te, fe, cs) in b.switches_on_call(lambda c: c.node is not None and not ctx.E.call_may(c, 'MEM') and uses_contains(ctx.f.bodies[c.node])):
        gates.append({'kind': 'exists', 'call': cs, 'true': te, 'false': fe})
    # missing-queue gate: `?` on a MEM-free call returning Result<_, MissingQueue>
    for cs in b.calls:
        dl = cs.dest_local()
        if cs.node is None or dl is None or ctx.E.call_may(cs, 'MEM'):
            continue
        if err_type_of(b.local_ty(dl)) == 'error::MissingQueue':
            from core import result_edges
            re_ = result_edges(b, dl)
            for (oe, ee) in zip(re_['ok'], re_['err']):
                gates.append({'kind': 'missing', 'call': cs, 'true': oe, 'false': ee})
    # comparisons: retry gate (Eq) and past gate (Lt) between a value from the position argument and the next position
    from vocab import next_position_calls
    np_calls = next_position_calls(ctx, b)
    t_next = set()
    for cs in np_calls:
        t_next |= fl.forward(set(fl.call_result_nodes(cs)))
    opt_params = [i for i in range(1, b.arg_count + 1) if b.local_ty(i) == 'std::option::Option<u64>']
    t_pos = fl.forward({n for i in opt_params for n in fl.local_sources(i)}) if opt_params else set()
    for bi, blk in enumerate(b.blocks):
        if not b.live[bi] or blk['term']['k'] != 'switch':
            continue
        c = b.switch_cond(bi)
        if not c or c['kind'] != 'bool':
            continue
        for o in c['origin']:
            if o[0] == 'rv' and o[2]['k'] == 'binop' and o[2]['op'] in ('Eq', 'Lt', 'Le', 'Gt', 'Ge'):
                a, bb = o[2]['a'], o[2]['b']
                ta, tb = fl.op_tainted(a, t_pos) and not fl.op_tainted(a, t_next - t_pos), fl.op_tainted(bb, t_next)
                if fl.op_tainted(a, t_pos) and fl.op_tainted(bb, t_next) or (fl.op_tainted(bb, t_pos) and fl.op_tainted(a, t_next)):
                    e = b.bool_edges(bi)
                    if e:
                        gates.append({'kind': 'retry' if o[2]['op'] == 'Eq' else 'past', 'op': o[2]['op'], 'true': e[0], 'false': e[1], 'point': o[1],
                                      'pos_left': fl.op_tainted(a, t_pos)})
    # empty-batch gate: is_empty on a Vec<u8> local (the serialised buffer)
    from vocab import emptiness_tests
    for (te, fe, cs) in emptiness_tests(b, r'Vec::<u8>|\[u8\]>'):
        gates.append({'kind': 'empty', 'call': cs, 'true': te, 'false': fe})
    return gates


def quiet_exits(ctx, b):
    iob = iob_enums(ctx)
    out = []
    for e in b.exits():
        if e['kind'] == 'err':
            adt, v = e.get('adt'), e.get('variant')
            if adt in iob and iob[adt].get(v):
                continue
            # `match call() { Err(x) => return Err(Conv(x)) }` is the explicit spelling of `call()?`
            c = b.err_exit_origin(e)
            if c is not None and c.node is not None:
                if ctx.E.call_may(c, 'MEM'):
                    continue        # post-effect conversion: QX2's business, like its `?` twin
                dl = c.dest_local()
                et = err_type_of(b.local_ty(dl)) if dl is not None else None
                if et is not None and et != 'std::io::Error' and et not in iob:
                    out.append(('reject-gate:%s' % et.split('::')[-1], e))
                    continue
            out.append(('reject:%s' % (v or '?'), e))
        elif e['kind'] == 'err_prop':
            c = e.get('call')
            if c is not None and hasattr(c, 'node') and c.node is not None and not ctx.E.call_may(c, 'MEM'):
                dl = c.dest_local()
                et = err_type_of(b.local_ty(dl)) if dl is not None else None
                if et is not None and et != 'std::io::Error' and et not in iob:
                    out.append(('reject-gate:%s' % et.split('::')[-1], e))
        elif e['kind'] == 'ok':
            fo, agg = outcome_field_op(b, e)
            if fo is not None and op_const_bits(fo) == 0:
                out.append(('noop', e))
    return out


@rule('QX1', ['C13', 'C15'], floor=7, template='no-reach')
def qx1(ctx):
    """No effect site can reach a rejecting or no-op exit."""
    n = 0
    for b in api_mut(ctx):
        if b.generic_dup():
            continue
        qs = quiet_exits(ctx, b)
        eff = {}
        for x in EFFECTS:
            for p in ctx.E.may_sites(b, x):
                eff.setdefault(p, set()).add(x)
        # stores to self fields that are not scratch
        for (p, pl, rv) in b.stores:
            loc = mem_loc(pl)
            if loc and loc.startswith('MultiRecordLog.') and loc not in ('MultiRecordLog.multi_record_spare_buffer',):
                eff.setdefault(p, set()).add('STATE')
        seen = {}
        for (what, e) in qs:
            n += 1
            seen[what] = seen.get(what, 0) + 1
            bad = [(p, sorted(x)) for p, x in eff.items() if p != e['point'] and e['point'] in b.reach_after(p)]
            ctx.check(not bad, '%s:%s#%d' % (b.path, what, seen[what]), where(b, e['point']), 'no effect site reaches this quiet exit',
                      'a rejected / no-op call can leave a trace: %s at %s happens before this quiet exit' % (bad[0][1] if bad else '-', b.loc(bad[0][0]) if bad else '-'),
                      detail={'path': b.witness(bad[0][0], e['point'])} if bad else None)
    if n == 0:
        ctx.missing('quiet-exits', 'no rejecting / no-op exit found in the mutating API')


@rule('QX2', ['C13'], floor=4, template='guard-dominates-use')
def qx2(ctx):
    """Error conversions after an effect are infeasible: dominated by the gate that excludes them."""
    n = 0
    for b in api_mut(ctx):
        if b.generic_dup():
            continue
        gates = gate_calls(ctx, b)
        logs = [cs.point for cs in log_sites(ctx, b)]
        cands = []
        seen_c = set()
        for e in b.exits():
            if e['kind'] == 'err_prop':
                # several `?` of inlined helpers can share one propagating exit: each call behind it is an origin
                cs_ = list(e.get('calls') or []) or [e.get('call')]
                if e.get('call') is not None and e.get('call') not in cs_:
                    cs_.append(e.get('call'))
            elif e['kind'] == 'err':
                cs_ = [b.err_exit_origin(e)]      # explicit `match .. { Err(x) => return Err(Conv(x)) }`
            else:
                continue
            for c in cs_:
                if c is None or not hasattr(c, 'node') or id(c) in seen_c:
                    continue
                seen_c.add(id(c))
                cands.append((e, c))
        for (e, c) in cands:
            if c is None or not hasattr(c, 'node') or c.node is None or not ctx.E.call_may(c, 'MEM'):
                continue
            dl = c.dest_local()
            et = err_type_of(b.local_ty(dl)) if dl is not None else None
            if et in (None, 'std::io::Error'):
                continue
            if not any(e['point'] in b.reach_after(lp) for lp in logs):
                continue
            n += 1
            ok = False
            if et == 'error::AlreadyExists':
                ok = any(g['kind'] == 'exists' and b.edge_dominates(g['false'], c.point) for g in gates)
            elif et == 'error::MissingQueue':
                ok = any((g['kind'] == 'missing' and b.edge_dominates(g['true'], c.point)) or (g['kind'] == 'exists' and b.edge_dominates(g['true'], c.point)) for g in gates)
            elif et == 'error::AppendError':
                miss = any((g['kind'] == 'missing' and b.edge_dominates(g['true'], c.point)) for g in gates)
                # the Past gate only constrains explicit positions: it lies on the Some(position) path, the
                # implicit position is next_position itself (PAST3)
                past = any(g['kind'] == 'past' for g in gates) and not any(g['kind'] == 'past' and c.point in b.reach([g['true' if (g['op'] in ('Lt', 'Le')) == g['pos_left'] else 'false'][1]]) and b_reaches_only_via(b, g, c.point) for g in gates)
                ok = miss and past
            ctx.check(ok, '%s:%s' % (b.path, et.split('::')[-1]), where(b, c.point), 'post-effect %s conversion is dominated by the gate that rules it out' % et.split('::')[-1],
                      'after the WAL entry was written the call can still be rejected with %s and no gate before the write excludes it: the entry stays in the WAL of a rejected call' % et.split('::')[-1])
    if n < 4:
        ctx.missing('post-effect-errors', 'expected 4 post-effect error conversions (create, delete, 2 in append), found %d' % n)


def b_reaches_only_via(b, g, point):
    return False


LOOKUP_RE = r'HashMap::<.*>::(get|get_mut|remove|remove_entry|get_key_value)(::<.*>)?$|BTreeMap::<.*>::(get|get_mut|remove)(::<.*>)?$'


def presence_edges(b):
    """Edges of body b on which a keyed map lookup is known to have found ('present') or not found ('absent') the key."""
    out = []
    def from_lookup(l):
        return l is not None and any(o[0] == 'call' and re.search(LOOKUP_RE, o[1].name) for o in b.trace_local(l))
    for (bi, c, te, fe, cs) in b.switches_on_call(lambda c: True):
        if re.search(r'(HashMap|BTreeMap)::<.*>::contains_key(::<.*>)?$', cs.name):
            out += [(te, 'present'), (fe, 'absent')]
        elif re.search(r'Option::<.*>::is_none$', cs.name) and _opt_from_lookup(b, cs.arg_local(0), from_lookup):
            out += [(te, 'absent'), (fe, 'present')]
        elif re.search(r'Option::<.*>::is_some$', cs.name) and _opt_from_lookup(b, cs.arg_local(0), from_lookup):
            out += [(te, 'present'), (fe, 'absent')]
    for (bj, pl, adt, edges) in b.discr_switches():
        if adt and adt.endswith('Option') and 'Some' in edges and 'None' in edges and from_lookup(pl['l']):
            out += [(edges['Some'], 'present'), (edges['None'], 'absent')]
        if adt and adt.endswith('Entry') and 'Occupied' in edges and 'Vacant' in edges:
            out += [(edges['Occupied'], 'present'), (edges['Vacant'], 'absent')]
    return out


def _opt_from_lookup(b, l, from_lookup):
    """l is `&Option<_>`: follow the borrow to the option local and test its origin"""
    if l is None:
        return False
    if from_lookup(l):
        return True
    for o in b.trace_local(l):
        if o[0] == 'rv' and o[2]['k'] == 'ref' and from_lookup(o[2]['place']['l']):
            return True
    return False


@rule('QX4', ['C13'], floor=3, template='guard-polarity')
def qx4(ctx):
    """The queue map rejects with the right polarity: AlreadyExists is only built where a lookup FOUND the
    queue, MissingQueue only where a lookup did NOT find it (the API gates before the WAL write rely on the
    map functions after the write agreeing with them)."""
    n = 0
    want = {'error::AlreadyExists': 'present', 'error::MissingQueue': 'absent'}
    for b in ctx.f.bodies.values():
        if b.generic_dup() or b.is_test or b.is_closure or not b.path.startswith('mem::queues::MemQueues::'):
            continue
        et = err_type_of(b.ret_ty)
        if et not in want:
            continue
        pe = None
        for e in b.exits():
            if e['kind'] == 'err' and e.get('adt') == et:
                if pe is None:
                    pe = presence_edges(b)
                n += 1
                good = [k for (edge, k) in pe if b.edge_dominates(edge, e['point'])]
                ctx.check(want[et] in good and not (set(good) - {want[et]}), '%s:%s' % (b.path, et.split('::')[-1]), where(b, e['point']),
                          '%s is returned on the %s edge of the lookup' % (et.split('::')[-1], want[et]),
                          '%s is returned %s: a call that passed the API gate is rejected AFTER its WAL entry was written (and a call that should be rejected is applied)' % (
                              et.split('::')[-1], ('on the edge where the lookup says the queue is %s' % ('missing' if want[et] == 'present' else 'there')) if good else 'without a dominating lookup of the queue'))
            elif e['kind'] == 'forward':
                c = e.get('call')
                if c is not None and hasattr(c, 'name') and re.search(r'Option::<.*>::ok_or(_else)?(::<.*>)?$', c.name):
                    n += 1
                    src = c.arg_local(0)
                    okl = src is not None and any(o[0] == 'call' and re.search(LOOKUP_RE, o[1].name) for o in b.trace_local(src))
                    ctx.check(okl and want[et] == 'absent', '%s:%s:ok_or' % (b.path, et.split('::')[-1]), where(b, e['point']), 'lookup result converted with ok_or: the error is built exactly when the key is absent',
                              '%s is built by ok_or(_else) from something that is not a lookup of the queue map (or with the wrong polarity)' % et.split('::')[-1])
    if n < 3:
        ctx.missing('map-rejections', 'expected the rejecting exits of MemQueues (create, delete, get_queue*), found %d' % n)


@rule('QX3', ['C13', 'C15'], floor=7, template='instance-floor')
def qx3(ctx):
    """All gates exist, each with a quiet exit on its reject edge."""
    want = {'RecordPosition': ['exists'], 'DeleteQueue': ['missing'], 'Truncate': ['exists|missing'], 'AppendRecords': ['missing', 'retry', 'past', 'empty']}
    for b in api_mut(ctx):
        if b.generic_dup():
            continue
        kw = kinds_written(ctx, b)
        gates = gate_calls(ctx, b)
        qs = quiet_exits(ctx, b)
        logs = [cs.point for cs in log_sites(ctx, b)]
        for k, kinds in want.items():
            if k not in kw:
                continue
            for gk in kinds:
                alts = gk.split('|')
                found = False
                for g in gates:
                    if g['kind'] not in alts:
                        continue
                    # reject edge: the edge from which a quiet exit is reachable without passing a log site
                    # expected polarity of the reject edge per gate kind
                    def reject_sides(g):
                        if g['kind'] == 'retry':
                            return ('true',) if g.get('op') == 'Eq' else ()
                        if g['kind'] == 'empty':
                            return ('true',)
                        if g['kind'] == 'missing':
                            return ('false',)          # Break edge of `?`
                        if g['kind'] == 'past':
                            lt_true = (g['op'] in ('Lt',) and g['pos_left']) or (g['op'] in ('Gt',) and not g['pos_left'])
                            lt_false = (g['op'] in ('Ge',) and g['pos_left']) or (g['op'] in ('Le',) and not g['pos_left'])
                            return ('true',) if lt_true else ('false',) if lt_false else ()
                        if g['kind'] == 'exists':
                            # AlreadyExists is rejected when the queue exists, MissingQueue when it does not
                            return ('true',) if k == 'RecordPosition' else ('false',)
                        return ('true', 'false')
                    for side in reject_sides(g):
                        r = b.reach([g[side][1]], avoid=logs)
                        if any(e['point'] in r for (_w, e) in qs) and not any(lp in r for lp in logs):
                            # and the gate dominates the log site through its other edge
                            other = g['false' if side == 'true' else 'true']
                            if all(b.edge_dominates(other, lp) for lp in logs):
                                found = True
                            elif g['kind'] in ('retry', 'past'):
                                # gates on an explicit position only guard the Some(position) region
                                for (bj, pl, adt, edges) in b.discr_switches():
                                    if not pl['p'] and b.local_ty(pl['l']) == 'std::option::Option<u64>' and 'Some' in edges:
                                        if all(lp not in b.reach([edges['Some'][1]], avoid_edges=[other]) for lp in logs):
                                            found = True
                ctx.check(found, '%s:gate:%s' % (b.path, gk), b.span, '%s gate present: reject edge -> quiet exit, accept edge dominates the WAL write' % gk,
                          'gate "%s" missing in %s (no test before the WAL write whose reject edge leads to a quiet exit): a rejected/no-op call would be logged' % (gk, b.path.split('::')[-1]))


@rule('BY7', ['C15'], floor=1, template='accumulation')
def by7(ctx):
    """A byte count produced inside a loop is ACCUMULATED into the running total (total = total + n), never
    assigned over it."""
    n = 0
    for b in ctx.f.bodies.values():
        if b.generic_dup() or not (b.path.startswith(MRL) or b.path.startswith('recordlog::writer::RecordWriter')):
            continue
        loops = b.loops()
        if not loops:
            continue
        fl = flow_of(b)
        for c in counting_writer_calls(ctx, b):
            L = [x for x in loops if c.block in x['blocks']]
            if not L:
                continue
            inside = set()
            for x in L[0]['blocks']:
                for p in range(b.pstart[x], b.pterm[x] + 1):
                    inside.add(p)
            t = fl.forward(set(fl.call_result_nodes(c)), skip_mem=True)
            # locals assigned inside the loop from the count and read after / across iterations
            exits = [e for e in b.exits() if e['kind'] == 'ok']
            back_exit = set()
            for e in exits:
                if e['ops']:
                    back_exit |= fl.backward(set(fl.op_nodes(e['ops'][0])), skip_mem=True)
            n += 1
            bad = []
            okacc = 0
            for l, ds in b.defs.items():
                if ('l', l) not in t or ('l', l) not in back_exit:
                    continue
                if not any(p in inside for (p, k, d) in ds) or not any(p not in inside for (p, k, d) in ds):
                    continue   # accumulators are initialised outside the loop and updated inside
                for (p, kind, data) in ds:
                    if p not in inside or kind != 'assign':
                        continue
                    rv = data['rv']
                    src_l = op_local(rv['op']) if rv['k'] == 'use' else None
                    if rv['k'] == 'use' and rv['op']['k'] in ('copy', 'move') and rv['op']['place']['p']:
                        src_l = rv['op']['place']['l']
                    is_acc = False
                    if src_l is not None:
                        for (p2, k2, d2) in b.defs.get(src_l, []):
                            if k2 == 'assign' and d2['rv']['k'] == 'binop' and d2['rv']['op'].startswith('Add'):
                                ops = [d2['rv']['a'], d2['rv']['b']]
                                if any(op_local(o) == l for o in ops):
                                    is_acc = True
                    if is_acc:
                        okacc += 1
                    else:
                        bad.append(b.loc(p))
            ctx.check(okacc > 0 and not bad, '%s:%s:accumulated' % (b.path, c.path.split('::')[-1]), where(b, c.point), 'the count is added to the running total inside the loop',
                      'inside the loop the running byte total is overwritten (at %s) instead of increased: only the last entry is reported' % (bad[:1] or ['no accumulation found']))
    if n == 0:
        ctx.missing('loop-writers', 'no counting writer call inside a loop')


@rule('QX5', ['C04', 'C01', 'C13'], floor=3, template='guard-dominates-exit')
def qx5(ctx):
    """A mutating call answers Ok without having logged anything only where the specification says the call is a
    no-op: the retry of the last position and the empty batch in `append_records` -- nowhere else. `create_queue`,
    `delete_queue` and `truncate` do what they are asked or fail: an Ok that by-passes the WAL entry (a "this was asked
    before" cache, a watermark) acknowledges an operation that neither memory nor the log will ever know about -- a
    truncation that was to move the queue forward is dropped, and positions it covered are handed out again."""
    n = 0
    for b in api_mut(ctx):
        if b.generic_dup():
            continue
        kw = kinds_written(ctx, b)
        if not kw:
            continue
        logs = [cs.point for cs in log_sites(ctx, b)]
        gates = gate_calls(ctx, b)
        quiet_ok = [e for e in b.exits() if e['kind'] == 'ok' and not any(b.dominates(lp, e['point']) for lp in logs) and e['point'] in b.reach([b.entry], avoid=logs)]
        n += 1
        bad = []
        for e in quiet_ok:
            allowed = False
            if 'AppendRecords' in kw:
                for g in gates:
                    if g['kind'] == 'retry' and g.get('op') == 'Eq' and b.edge_dominates(g['true'], e['point']):
                        allowed = True
                    if g['kind'] == 'empty' and b.edge_dominates(g['true'], e['point']):
                        allowed = True
            if not allowed:
                bad.append(b.loc(e['point']))
        ctx.check(not bad, '%s:quiet-ok-only-for-noops' % b.path, b.span, 'every Ok that by-passes the WAL entry sits under the retry / empty-batch gate (%d such exits)' % len(quiet_ok),
                  '%s can answer Ok without writing its WAL entry outside the two specified no-ops (%s): the operation is acknowledged and never happens, live or after a restart' % (b.path.split('::')[-1], ', '.join(sorted(set(bad)))))
    if n < 3:
        ctx.missing('bodies', 'expected the mutating API bodies (create, delete, truncate, append), found %d' % n)


@rule('BY8', ['C15'], floor=1, template='no-self-dependence')
def by8(ctx):
    """A byte counter is advanced by what was written, once: in `acc += x` the addend does not itself contain the
    counter. A helper that returns "the running total, this entry included" added to the total again counts every
    earlier entry twice -- exact for the first entry, which is all a test with one empty queue sees."""
    n = 0
    bad = []
    for b in ctx.f.bodies.values():
        if b.generic_dup() or b.is_test or not ctx.E.may().get(b.id, set()) & {'WRITE'}:
            continue
        for bi, blk in enumerate(b.blocks):
            if not b.live[bi]:
                continue
            for si, st in enumerate(blk['stmts']):
                if st['k'] != 'assign' or st['rv']['k'] != 'binop' or not st['rv']['op'].startswith('Add') or st['place']['p']:
                    continue
                for (acc_op, x_op) in ((st['rv']['a'], st['rv']['b']), (st['rv']['b'], st['rv']['a'])):
                    al = op_local(acc_op)
                    if al is None or acc_op['place']['p'] or len(b.defs.get(al, [])) < 2 or b.local_ty(al) not in ('u64', 'usize'):
                        continue
                    # the sum is stored back into the same local: `acc = (acc + x).0`
                    t = st['place']['l']
                    back = any(kind == 'assign' and not d['place']['p'] and d['rv']['k'] == 'use' and d['rv']['op']['k'] in ('copy', 'move') and d['rv']['op']['place']['l'] == t
                               for (_p, kind, d) in b.defs.get(al, []))
                    if not back:
                        continue
                    n += 1
                    af = b.affine(x_op, phi=True)
                    if af is not None and af[0].get(('local', al), 0) > 0:
                        bad.append('%s (%s)' % (b.loc(b.pstart[bi] + si), b.path))
    if n == 0:
        ctx.missing('accumulators', 'no `acc += x` byte accumulation found in the writing bodies')
        return
    ctx.check(not bad, 'addend-does-not-contain-the-counter', 'src/', 'in the %d accumulations of the writing bodies the addend never contains the counter it is added to' % n,
              'a counter is advanced by a value that already contains the counter (%s): every earlier contribution is counted again -- exact for one entry, double from the second on' % ', '.join(sorted(set(bad))))
