#!/bin/bash
# usage: run.sh <repo-dir> <out-facts-dir> <nonce> [lib|test|all]
set -e
REPO="$1"; OUT="$2"; NONCE="$3"; MODE="${4:-lib}"
HERE="$(cd "$(dirname "$0")" && pwd)"
DRV="$HERE/target/debug/mrl-facts"
[ -x "$DRV" ] || { echo "driver not built: run setup" >&2; exit 2; }
mkdir -p "$OUT"
TGT="$OUT/../target.$$"
rm -rf "$TGT"
export LD_LIBRARY_PATH="$(rustc +nightly --print sysroot)/lib"
export RUSTFLAGS="-Zmir-opt-level=0 -Awarnings"
export RUSTC_WORKSPACE_WRAPPER="$DRV"
export CARGO_TARGET_DIR="$TGT"
export MRL_FACTS_DIR="$OUT" MRL_FACTS_NONCE="$NONCE" CARGO_NET_OFFLINE=true
cd "$REPO"
case "$MODE" in
  lib)  cargo +nightly check --offline --lib -q ;;
  test) cargo +nightly check --offline --lib --profile test -q ;;
  all)  cargo +nightly check --offline --workspace -q ;;
esac
rc=$?
rm -rf "$TGT"
exit $rc
