"""Positive / negative controls (DESIGN §3.4): the analyses are run on /verif/fixtures (a tiny crate with
known verdicts) through the same driver in the same run. A control that does not give its known
verdict makes the check fail closed: this is what keeps zero-count rules ("no File::create anywhere")
and the path analyses from passing vacuously."""
import os
import subprocess

from core import Facts, Body
from effects import Effects
from engine import R

HERE = os.path.dirname(os.path.abspath(__file__))
VERIF = os.path.dirname(HERE)


def poly_world(f):
    """Make the polymorphic bodies of a root-less crate analysable as a call graph (callees by path)."""
    by_path = {}
    f.bodies = {}
    for i, b in enumerate(f.poly):
        b.id = i
        f.bodies[i] = b
        by_path.setdefault(b.path, i)
    for b in f.poly:
        for cs in b.calls:
            cs.node = by_path.get(cs.path) if cs.callee.get('local') else None
        for (_p, fj) in b.fn_values:
            fj['node'] = by_path.get(fj.get('path', '').replace('mrl_fixtures::', ''))
    f._callers = None
    return f


def run(work, nonce, rule_ids):
    out = os.path.join(work, 'facts.fixtures')
    env = dict(os.environ, MRL_FACTS_CRATES='mrl_fixtures')
    p = subprocess.run([os.path.join(VERIF, 'driver', 'run.sh'), os.path.join(VERIF, 'fixtures'), out, nonce, 'lib'], capture_output=True, text=True, env=env)
    fp = os.path.join(out, 'mrl_fixtures.facts.json')
    failed = []

    def fail(key, msg):
        failed.append(R('CONTROL', key, 'anchor-missing', 'fixtures', 'control-failed: ' + msg, False))
    if p.returncode != 0 or not os.path.exists(fp):
        fail('extract', 'fixture crate could not be analysed: ' + (p.stdout + p.stderr)[-400:])
        return {'failed': failed, 'summary': {'controls': 0, 'failed': 1}}
    f = Facts(fp)
    if f.nonce != nonce:
        fail('nonce', 'stale fixture facts')
        return {'failed': failed, 'summary': {'controls': 0, 'failed': 1}}
    f = poly_world(f)
    E = Effects(f)
    n = 0

    def fn(name):
        for b in f.bodies.values():
            bp = b.path.replace('mrl_fixtures::', '')
            if bp == name or bp.endswith('::' + name):
                return b
        return None

    def expect(cond, key, msg):
        nonlocal n
        n += 1
        if not cond:
            fail(key, msg)

    # 1. effect table
    table = {
        'Log::prim_write': 'WRITE', 'Log::prim_flush': 'FLUSH', 'Log::prim_fsync': 'FSYNC', 'Log::prim_seek': 'SEEK', 'Log::prim_setlen': 'SETLEN',
        'Log::prim_escape': 'BUFESCAPE', 'prim_create': 'CREATE', 'prim_create_opts': 'CREATE', 'prim_open_rw': 'OPENRW', 'prim_open_ro': 'OPENRO',
        'prim_unlink': 'UNLINK', 'prim_scan': 'SCAN', 'prim_read': 'READ', 'prim_fs_write': 'CREATE', 'prim_leak': 'LEAK', 'prim_now': 'NOW',
    }
    for name, eff in table.items():
        b = fn(name)
        got = {e for (_p, e, _d) in E.direct_sites(b)} if b is not None else set()
        expect(b is not None and eff in got, 'prim:' + name, 'effect primitive %s not recognised in fixture %s (got %s)' % (eff, name, sorted(got)))
    b = fn('prim_leak')
    expect(b is not None and sum(1 for (_p, e, _d) in E.direct_sites(b) if e == 'LEAK') >= 2, 'prim:leak2', 'mem::forget and ManuallyDrop::new must both be recognised')
    b = fn('prim_unlink')
    expect(b is not None and sum(1 for (_p, e, _d) in E.direct_sites(b) if e == 'UNLINK') >= 2, 'prim:unlink2', 'rename and remove_dir_all must both be recognised')
    expect(f.j['unsafe_blocks'] == 1, 'unsafe-count', 'the one unsafe block of the fixtures was not counted (got %s)' % f.j['unsafe_blocks'])

    # 2. must / A-CONST
    per = fn('Log::persist')
    expect(per is not None and E.must(per.id, 'FLUSH') and not E.must(per.id, 'FSYNC'), 'must:persist', 'persist(a): must FLUSH, not must FSYNC')
    expect(per is not None and E.must(per.id, 'FSYNC', {2: 1}) and not E.must(per.id, 'FSYNC', {2: 0}), 'aconst:persist', 'constant specialisation on the Action parameter')

    def unlink_dominated_by_sync(name):
        g = fn(name)
        if g is None:
            return None
        us = [cs for (_p, e, cs) in E.direct_sites(g) if e == 'UNLINK']
        ss = [cs for cs in g.calls if E.call_must(g, cs, 'FLUSH') and E.call_must(g, cs, 'FSYNC')]
        return bool(us) and all(any(g.dominates(s.point, u.point) for s in ss) for u in us)
    expect(unlink_dominated_by_sync('Log::gc_good') is True, 'dom:gc_good', 'conforming twin: unlink dominated by flush+fsync')
    expect(unlink_dominated_by_sync('Log::gc_soft') is False, 'dom:gc_soft', 'violating fixture (flush only) must not be accepted')
    expect(unlink_dominated_by_sync('Log::gc_cond') is False, 'dom:gc_cond', 'violating fixture (conditional sync) must not be accepted')

    # 3. A-THREAD
    t = fn('Log::threaded')
    ok = False
    if t is not None:
        early = [e for e in t.exits() if e['kind'] == 'ok' and e['ops'] and e['ops'][0].get('bits') == '0']
        for bi, blk in enumerate(t.blocks):
            if t.live[bi] and blk['term']['k'] == 'switch':
                c = t.switch_cond(bi)
                if c and c['kind'] == 'bool' and any(o[0] == 'place' for o in c['origin']):
                    e = t.bool_edges(bi)
                    if e and early and early[0]['point'] not in t.reach([e[0][1]]):
                        ok = True
    expect(ok, 'thread:or-let', 'jump threading: the early exit must be unreachable from the `skip == true` edge')

    # 4. exits and error consumption
    d = fn('Log::drops_error')
    expect(d is not None and not any(e['kind'] in ('err', 'err_prop') for e in d.exits()), 'exits:dropped', 'dropped error fixture has no error exit')
    r = fn('Log::retries_forever')
    ok = False
    if r is not None:
        for cs in r.calls:
            if cs.name.endswith('::flush'):
                ok = cs.point in r.reach_after(cs.point)
    expect(ok, 'loop:retry', 'the retrying fixture must show a cycle through the failing call')
    pr = fn('Log::propagates')
    expect(pr is not None and any(e['kind'] == 'err' for e in pr.exits()), 'exits:propagates', 'Err(e) => return Err(e) must be classified as an error exit')

    # 5. taint
    from flow import flow_of
    import re as _re

    def sink_guarded(name):
        g = fn(name)
        if g is None:
            return None
        fl = flow_of(g)
        srcs = set()
        for cs in g.calls:
            if _re.match(r'^core::num::<impl u32>::from_le_bytes$', cs.name):
                srcs |= set(fl.call_result_nodes(cs))
        tnt = fl.forward(srcs, skip_mem=True)
        sinks = [cs for cs in g.calls if 'ops::Index<std::ops::RangeTo' in cs.name and len(cs.args) > 1 and fl.op_tainted(cs.args[1], tnt)]
        guards = []
        for bj, blk in enumerate(g.blocks):
            if g.live[bj] and blk['term']['k'] == 'switch':
                c = g.switch_cond(bj)
                if c and c['kind'] == 'bool':
                    for o in c['origin']:
                        if o[0] == 'rv' and o[2]['k'] == 'binop' and (fl.op_tainted(o[2]['a'], tnt) or fl.op_tainted(o[2]['b'], tnt)):
                            e = g.bool_edges(bj)
                            if e:
                                guards.append(e)
        if not sinks:
            return None
        return all(any((g.edge_dominates(e1, s.point) and s.point not in g.reach([e2[1]])) or (g.edge_dominates(e2, s.point) and s.point not in g.reach([e1[1]])) for (e1, e2) in guards) for s in sinks)
    expect(sink_guarded('unguarded') is False, 'taint:unguarded', 'a decoded length used unguarded must be reported')
    expect(sink_guarded('guarded') is True, 'taint:guarded', 'the guarded twin must be accepted')

    return {'failed': failed, 'summary': {'controls': n, 'failed': len(failed), 'fixture_bodies': len(f.bodies)}}
