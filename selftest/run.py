#!/usr/bin/env python3
"""Checker self-validation: apply each stored patch to a scratch copy of the CURRENT /repo tree,
extract facts, run the rules, compare with expectations.
usage: run.py [--jobs N] [--only name,...] [--kind mutants|refactors|all] [--json out]"""
import argparse, glob, importlib, json, os, shutil, subprocess, sys, tempfile
from concurrent.futures import ThreadPoolExecutor

HERE = os.path.dirname(os.path.abspath(__file__))
VERIF = os.path.dirname(HERE)
sys.path.insert(0, os.path.join(VERIF, 'checker'))


def analyse(patch, workroot, must_compile=False):
    """returns dict(status=..., violated={rule: [keys]}, missing=[...])"""
    w = tempfile.mkdtemp(prefix='st.', dir=workroot)
    try:
        p = subprocess.run([os.path.join(VERIF, 'checker', 'scratch.sh'), patch, w, 'lib'], capture_output=True, text=True)
        if 'PATCH-FAILED' in p.stdout or p.returncode == 3:
            return {'status': 'patch-failed'}
        facts = os.path.join(w, 'facts', 'mrecordlog.facts.json')
        if p.returncode != 0 or not os.path.exists(facts):
            return {'status': 'build-failed', 'log': (p.stdout + p.stderr)[-2000:]}
        env = dict(os.environ)
        if os.path.exists(os.path.join(w, 'PRE_FIX4')):
            env['MRL_PRE_FIX4'] = '1'       # patch applied to the tree before the fourth repair: GC13 is that tree's known finding
        q = subprocess.run([sys.executable, os.path.join(VERIF, 'checker', 'runall.py'), facts], capture_output=True, text=True, env=env)
        if q.returncode != 0:
            return {'status': 'engine-failed', 'log': (q.stdout + q.stderr)[-2000:]}
        return dict(json.loads(q.stdout), status='analysed', pre_fix4=os.path.exists(os.path.join(w, 'PRE_FIX4')))
    finally:
        shutil.rmtree(w, ignore_errors=True)


def main():
    ap = argparse.ArgumentParser()
    ap.add_argument('--jobs', type=int, default=8)
    ap.add_argument('--only', default='')
    ap.add_argument('--kind', default='all')
    ap.add_argument('--json', default='')
    ap.add_argument('--workroot', default=os.path.join(VERIF, '.work'))
    a = ap.parse_args()
    os.makedirs(a.workroot, exist_ok=True)
    corpus = json.load(open(os.path.join(HERE, 'corpus.json')))
    only = set(x for x in a.only.split(',') if x)
    jobs = []
    if a.kind in ('all', 'mutants'):
        for name, d in sorted(corpus['mutants'].items()):
            if only and name not in only:
                continue
            jobs.append(('mutant', name, d, os.path.join(HERE, 'mutants', name + '.patch')))
    if a.kind in ('all', 'refactors'):
        for name, d in sorted(corpus['refactors'].items()):
            if only and name not in only:
                continue
            jobs.append(('refactor', name, d, os.path.join(HERE, 'refactors', name + '.patch')))
        # refactorings written by independent sub-agents (DESIGN 14): all must be silent
        for pth in sorted(glob.glob(os.path.join(HERE, 'refactors_ext', '*.patch'))):
            name = 'ext:' + os.path.basename(pth)[:-6]
            if only and name not in only and 'ext:*' not in only:
                continue
            jobs.append(('refactor', name, {}, pth))
    results = []
    with ThreadPoolExecutor(max_workers=a.jobs) as ex:
        futs = [(j, ex.submit(analyse, j[3], a.workroot)) for j in jobs]
        for (kind, name, d, patch), fu in futs:
            r = fu.result()
            verdict = 'skipped'
            detail = ''
            if r['status'] == 'analysed':
                viol = r['violated']
                miss = r['missing']
                props_failed = set(r['props_failed'])
                if kind == 'mutant':
                    want = set(d.get('rules', []))
                    got = set(viol)
                    hit = want & got
                    notr = set(d.get('not_rules', [])) & got
                    pwant = set(d.get('props', []))
                    pmiss = pwant - props_failed
                    if hit and not notr and not pmiss:
                        verdict = 'caught'
                    elif hit and not notr:
                        verdict = 'caught-partial'
                        detail = 'properties not failing: %s' % sorted(pmiss)
                    else:
                        verdict = 'MISSED'
                        detail = 'wanted %s got %s (anchor-missing: %s)' % (sorted(want), sorted(got), miss[:3])
                else:
                    if not viol and not miss:
                        verdict = 'silent'
                    else:
                        verdict = 'FALSE-ALARM'
                        detail = 'violations %s missing %s' % ({k: v[:2] for k, v in viol.items()}, miss[:4])
            else:
                detail = r['status'] + ' ' + r.get('log', '')[-300:]
            results.append({'kind': kind, 'name': name, 'verdict': verdict, 'detail': detail, 'violated': r.get('violated'), 'props_failed': r.get('props_failed')})
            print('%-9s %-40s %-14s %s' % (kind, name, verdict, detail), flush=True)
    if a.json:
        json.dump(results, open(a.json, 'w'), indent=1)
    bad = [r for r in results if r['verdict'] in ('MISSED', 'FALSE-ALARM')]
    print('summary: %d jobs, %d caught, %d silent, %d partial, %d skipped, %d BAD' % (
        len(results), sum(r['verdict'] == 'caught' for r in results), sum(r['verdict'] == 'silent' for r in results),
        sum(r['verdict'] == 'caught-partial' for r in results), sum(r['verdict'] == 'skipped' for r in results), len(bad)))
    return 1 if bad else 0


if __name__ == '__main__':
    sys.exit(main())
