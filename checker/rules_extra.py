"""Rules added after confronting the checker with independently written bug patches (DESIGN §8.3)."""
import re

from core import op_local, op_const_bits, place_fields, strip_crate, alias_paths, place_path, mem_loc, rvalue_operands
from engine import rule
from flow import flow_of
from vocab import api_mut, open_bodies, where

RR = 'rolling::directory::RollingReader'


def success_edges_of_reads(ctx, b):
    """True edges of switches on the bool payload of `?` applied to a call that may READ and returns
    io::Result<bool> (a block read that succeeded)."""
    out = []
    for cs in b.calls:
        dl = cs.dest_local()
        if dl is None or b.local_ty(dl) != 'std::result::Result<bool, std::io::Error>':
            continue
        if not (ctx.E.call_may(cs, 'READ')):
            continue
        known = alias_paths(b, dl)
        for c2 in b.calls:
            if c2.name.endswith('::branch') and c2.arg_local(0) in known:
                k2 = alias_paths(b, c2.dest_local())
                for bj, blk in enumerate(b.blocks):
                    if not b.live[bj] or blk['term']['k'] != 'switch':
                        continue
                    c = b.switch_cond(bj)
                    if c and c['kind'] == 'bool':
                        for o in c['origin']:
                            if o[0] == 'place' and place_path(k2, o[2]) == [(('v', 'Continue'), ('f', '0'))]:
                                e = b.bool_edges(bj)
                                if e:
                                    out.append((cs, e[0], e[1]))
    return out


@rule('NB1', ['C01', 'C02', 'C07'], floor=4, template='guard-dominates-use')
def nb1(ctx):
    """The rolling reader moves (file, file number, block id) only after a block was read successfully."""
    bs = [b for b in ctx.f.bodies.values() if b.path.startswith('<' + RR + ' as block_read_write::BlockRead>::next_block') or b.name.startswith('<' + RR + ' as block_read_write::BlockRead>::next_block')]
    if not bs:
        ctx.missing('next_block', 'BlockRead::next_block impl of RollingReader not found')
        return
    b = bs[0]
    succ = success_edges_of_reads(ctx, b)
    if not succ:
        ctx.missing('reads', 'no `?`-checked block read found in next_block')
    seen = {}
    for (p, pl, rv) in b.stores:
        loc = mem_loc(pl)
        if loc not in ('RollingReader.file', 'RollingReader.file_number', 'RollingReader.block_id'):
            continue
        seen[loc] = seen.get(loc, 0) + 1
        ok = any(b.edge_dominates(te, p) for (_cs, te, _fe) in succ)
        ctx.check(ok, '%s#%d' % (loc, seen[loc]), where(b, p), 'reader position updated only under a successful block read',
                  'the reader\'s position (%s) is updated before the block read succeeded: on a short or empty next file the reader (and the writer built from it) ends up inside a file it read nothing from' % loc.split('.')[-1])
    # a failed read in the file loop must not be reported as success
    k = 0
    for e in b.exits():
        if e['kind'] == 'ok' and e['ops'] and op_const_bits(e['ops'][0]) == 1:
            ok = any(b.edge_dominates(te, e['point']) for (_cs, te, _fe) in succ)
            k += 1
            ctx.check(ok, 'ok-true#%d' % k, where(b, e['point']), 'Ok(true) only after a successful block read', 'next_block can report a new block although no block was read')


def holder_adts(ctx):
    """local ADTs that (transitively) own a FileNumber"""
    hold = {'rolling::file_number::FileNumber'}
    changed = True
    while changed:
        changed = False
        for p, a in ctx.f.adts.items():
            if p in hold:
                continue
            for v in a['variants']:
                for f in v['fields']:
                    if owns_any(f['ty'], hold):
                        hold.add(p)
                        changed = True
    return hold


def owns_any(ty, hold):
    ty = strip_crate(ty)
    for h in hold:
        for m in re.finditer(re.escape(h), ty):
            pre = ty[:m.start()]
            pre = re.sub(r"'\w+ $", '', pre)
            if pre.endswith('&') or pre.endswith('&mut '):
                continue
            # Arc<..>/Rc<..> of a holder is still a handle; references are not
            return True
    return False


@rule('GC11', ['C06'], floor=3, template='liveness')
def gc11(ctx):
    """Nothing that owns file handles (a removed queue, a cloned FileNumber) is kept alive across the
    GC pass by the caller: files only it references must be reclaimable by this very call."""
    hold = holder_adts(ctx)
    n = 0
    for b in list(api_mut(ctx)) + list(open_bodies(ctx)):
        if b.generic_dup():
            continue
        gcs = [cs for cs in b.calls if cs.node is not None and ctx.E.call_may(cs, 'UNLINK')]
        for g in gcs:
            n += 1
            bad = []
            for l in range(1, len(b.locals)):
                ty = b.local_ty(l)
                if ty.startswith('&') or not owns_any(ty, hold):
                    continue
                if l <= b.arg_count:
                    continue
                # MultiRecordLog / MemQueues / the writer itself are the long-lived owners
                if re.search(r'multi_record_log::MultiRecordLog|mem::queues::MemQueues|RecordWriter<|RecordReader<|RollingWriter|RollingReader|FrameWriter<|FrameReader<|Directory|FileTracker', ty):
                    continue
                defs = [p for (p, kind, data) in b.defs.get(l, [])]
                kills = []
                for bi, blk in enumerate(b.blocks):
                    if not b.live[bi]:
                        continue
                    t = blk['term']
                    if t['k'] == 'drop' and t['place']['l'] == l and not t['place']['p']:
                        kills.append(b.pterm[bi])
                    if t['k'] == 'call':
                        for a in t['args']:
                            if a['k'] == 'move' and a['place']['l'] == l and not a['place']['p']:
                                kills.append(b.pterm[bi])
                    for si, st in enumerate(blk['stmts']):
                        if st['k'] == 'assign':
                            for o in rvalue_operands(st['rv']):
                                if o['k'] == 'move' and o['place']['l'] == l and not o['place']['p']:
                                    kills.append(b.pstart[bi] + si)
                for d in defs:
                    if d == g.point:
                        continue
                    if g.point in b.reach_after(d, avoid=kills):
                        bad.append((l, ty, d))
            ctx.check(not bad, '%s:no-handle-live-across-gc' % b.path, where(b, g.point), 'no owner of file handles is live across the GC pass',
                      'a value owning WAL file handles (%s, defined at %s) is still alive when the GC pass runs: the files only it references survive this call' % (
                          (bad[0][1][:80], b.loc(bad[0][2])) if bad else ('-', '-')))
    if n == 0:
        ctx.missing('gc-callers', 'no API body calls the GC pass')
