"""Group RB: the in-memory ring buffer hands out exactly the window it was asked for."""
import re

from core import op_local, op_const_bits, strip_crate, strip_generics, place_str
from engine import rule
from flow import flow_of
from vocab import where


def _base_place(b, op, depth=0):
    """the place a (re-)borrowed slice reference ultimately points to, as a string ('_20.0'); through `&*x`, copies"""
    if op['k'] not in ('copy', 'move'):
        return None
    pl = op['place']
    if [e for e in pl['p'] if e['k'] != 'deref'] or depth > 8:
        return place_str({'l': pl['l'], 'p': [e for e in pl['p'] if e['k'] != 'deref']})
    sd = b.single_def(pl['l'])
    if sd and sd[1] == 'assign' and not sd[2]['place']['p']:
        rv = sd[2]['rv']
        if rv['k'] == 'ref':
            inner = rv['place']
            return _base_place(b, {'k': 'copy', 'place': inner}, depth + 1)
        if rv['k'] in ('use', 'cast') and rv['op']['k'] in ('copy', 'move'):
            return _base_place(b, rv['op'], depth + 1)
    return place_str(pl)


def _def_call(b, op, depth=0):
    """the call whose result operand op (a reference, re-borrowed / copied any number of times) is"""
    if op['k'] not in ('copy', 'move') or depth > 10:
        return None
    pl = op['place']
    if [e for e in pl['p'] if e['k'] != 'deref']:
        return None
    sd = b.single_def(pl['l'])
    if sd is None:
        return None
    if sd[1] == 'call':
        return sd[2]
    if sd[1] == 'assign' and not sd[2]['place']['p']:
        rv = sd[2]['rv']
        if rv['k'] == 'ref':
            return _def_call(b, {'k': 'copy', 'place': rv['place']}, depth + 1)
        if rv['k'] in ('use', 'cast') and rv['op']['k'] in ('copy', 'move'):
            return _def_call(b, rv['op'], depth + 1)
    return None


def _add(f, g, sg=1):
    t = dict(f[0])
    for (k, c) in g[0].items():
        t[k] = t.get(k, 0) + sg * c
    return ({k: c for (k, c) in t.items() if c}, f[1] + sg * g[1])


def _show(f):
    def leaf(k):
        if k[0] == 'call':
            return '%s(%s)' % (k[1].split('::')[-1], ', '.join(k[2]) if len(k) > 2 else '')
        if k[0] == 'local':
            return '_%d' % k[1]
        return str(k[-1])
    return ' + '.join(['%s%s' % ('' if c == 1 else ('-' if c == -1 else '%d*' % c), leaf(k)) for (k, c) in sorted(f[0].items(), key=str)] + ([str(f[1])] if f[1] or not f[0] else []))


@rule('RB1', ['C01', 'C08'], floor=2, template='provenance')
def rb1(ctx):
    """`RollingBuffer::get_range(start..end)` hands out exactly bytes [start, end) of the logical buffer, in each of
    its cases (window inside the first half of the ring, inside the second, across the wrap point): the pieces it
    returns, placed at their offset in the logical buffer (second-half offsets are shifted by the length of the first
    half), start at `start`, follow one another without gap or overlap, and stop at `end`. The wrap-around case is
    the one no test reaches without filling, truncating and re-filling the ring; a window that is too long there
    appends bytes of the following records to a record's payload, silently."""
    bs = ctx.fn('mem::rolling_buffer::RollingBuffer::get_range')
    if not bs:
        ctx.missing('get_range', 'RollingBuffer::get_range not found')
        return
    b = bs[0]
    fl = flow_of(b)
    sl = [cs for cs in b.calls if re.search(r'VecDeque::<u8>::as_slices$', cs.name)]
    sb = [cs for cs in b.calls if cs.name.endswith('::start_bound')]
    eb = [cs for cs in b.calls if cs.name.endswith('::end_bound')]
    if not sb or not eb:
        ctx.missing('bounds', 'get_range does not read its range through start_bound / end_bound')
        return
    T = place_str({'l': sl[0].dest_local(), 'p': []}) if sl and sl[0].dest_local() is not None else None
    lenL = ('call', 'core::slice::::len', ('%s.0' % T,))
    lenR = ('call', 'core::slice::::len', ('%s.1' % T,))
    s_nodes = set().union(*[set(fl.call_result_nodes(c)) for c in sb])
    e_nodes = set().union(*[set(fl.call_result_nodes(c)) for c in eb])
    def kind_of_local(l):
        back = fl.backward(set(fl.local_sources(l)), skip_mem=True)
        s_, e_ = bool(back & s_nodes), bool(back & e_nodes)
        return 'S' if (s_ and not e_) else ('E' if (e_ and not s_) else None)
    def norm(f):
        """rewrite ('local', l) leaves into S / E where they are the requested bounds"""
        t = {}
        for (k, c) in f[0].items():
            if k[0] == 'local':
                kd = kind_of_local(k[1])
                if kd:
                    k = (kd,)
            t[k] = t.get(k, 0) + c
        return ({k: c for (k, c) in t.items() if c}, f[1])
    def aff(op):
        f = b.affine(op, phi=True)
        return norm(f) if f is not None else None
    S, E, ZERO = ({('S',): 1}, 0), ({('E',): 1}, 0), ({}, 0)
    def piece(op):
        """logical interval [lo, hi) of the slice held in operand op, or None"""
        cs = _def_call(b, op)
        if cs is None:
            return None
        if re.search(r'ops::Index<std::ops::Range(To|From|Inclusive|ToInclusive)?<usize>>', cs.name) and len(cs.args) == 2:
            part = _base_place(b, cs.args[0])
            which = 'L' if part == '%s.0' % T else ('R' if part == '%s.1' % T else None)
            if which is None:
                return None
            rng = None
            rl = op_local(cs.args[1])
            for o in (b.trace_local(rl) if rl is not None else []):
                if o[0] == 'rv' and o[2]['k'] == 'agg' and re.search(r'ops::Range(To|From|Inclusive|ToInclusive)?$', o[2].get('adt') or ''):
                    rng = o[2]
            if rng is None:
                return None
            nm = rng['adt'].split('::')[-1]
            ops = rng['ops']
            lo = hi = None
            if nm == 'Range':
                lo, hi = aff(ops[0]), aff(ops[1])
            elif nm == 'RangeFrom':
                lo, hi = aff(ops[0]), ({(lenL if which == 'L' else lenR): 1}, 0)
            elif nm == 'RangeTo':
                lo, hi = ZERO, aff(ops[0])
            elif nm == 'RangeToInclusive':
                lo, hi = ZERO, aff(ops[0])
                hi = _add(hi, ({}, 1)) if hi is not None else None
            else:
                return None
            if lo is None or hi is None:
                return None
            if which == 'R':
                lo, hi = _add(lo, ({lenL: 1}, 0)), _add(hi, ({lenL: 1}, 0))
            return (lo, hi)
        return None
    def iter_window(op):
        """[lo, hi) of `self.buffer.iter().skip(a).take(n)` / `.range(a..b)` chains feeding a collect"""
        cs = _def_call(b, op) if op['k'] in ('copy', 'move') else None
        lo, n_, hops = ZERO, None, 0
        cur = op
        while hops < 8:
            hops += 1
            l = op_local(cur)
            sd = b.single_def(l) if l is not None else None
            if sd is None:
                return None
            if sd[1] == 'assign' and not sd[2]['place']['p'] and sd[2]['rv']['k'] in ('use', 'cast') and sd[2]['rv']['op']['k'] in ('copy', 'move'):
                cur = sd[2]['rv']['op']
                continue
            if sd[1] != 'call':
                return None
            c = sd[2]
            m = c.name
            if re.search(r'Iterator>?::(copied|cloned|collect|into_iter|by_ref)(::<.*>)?$', m) or re.search(r'::(copied|cloned)$', m):
                cur = c.args[0]
            elif re.search(r'::take$', m) and len(c.args) == 2:
                if n_ is not None:
                    return None
                n_ = aff(c.args[1])
                cur = c.args[0]
            elif re.search(r'::skip$', m) and len(c.args) == 2:
                if n_ is None and lo != ZERO:
                    return None
                a = aff(c.args[1])
                if a is None:
                    return None
                if n_ is not None and False:
                    return None
                lo = _add(lo, a)
                cur = c.args[0]
            elif re.search(r'VecDeque::<u8>::iter$', m):
                total = ({lenL: 1, lenR: 1}, 0)
                return (lo, _add(lo, n_) if n_ is not None else total)
            else:
                return None
        return None
    n = 0
    for bi, blk in enumerate(b.blocks):
        if not b.live[bi]:
            continue
        for si, st in enumerate(blk['stmts']):
            if st['k'] != 'assign' or st['rv']['k'] != 'agg' or not re.search(r'borrow::Cow$', st['rv'].get('adt') or ''):
                continue
            p = b.pstart[bi] + si
            var = st['rv'].get('variant')
            vname = var if isinstance(var, str) else ('Borrowed' if var == 0 else 'Owned')
            pieces = None
            if vname == 'Borrowed':
                pc = piece(st['rv']['ops'][0])
                pieces = [pc] if pc else None
            else:
                vl = op_local(st['rv']['ops'][0])
                root = None
                for o in (b.trace_local(vl) if vl is not None else []):
                    if o[0] == 'call':
                        root = o[1]
                if root is not None and re.search(r'Vec::<u8>::(with_capacity|new)$', root.name):
                    vroot = root.dest_local()
                    exts = [cs for cs in b.calls if re.search(r'Vec::<u8>::extend_from_slice$', cs.name) and _base_place(b, cs.args[0]) == place_str({'l': vroot, 'p': []}) and b.dominates(cs.point, p)]
                    exts.sort(key=lambda c: c.point)
                    pcs = [piece(cs.args[1]) for cs in exts]
                    pieces = pcs if pcs and all(pcs) else None
                elif root is not None and re.search(r'::collect(::<.*>)?$', root.name):
                    w = iter_window(root.args[0])
                    pieces = [w] if w else None
                elif root is not None and re.search(r'(to_vec|to_owned)$', root.name):
                    pc = piece(root.args[0])
                    pieces = [pc] if pc else None
            if not pieces:
                continue        # a form this rule does not read: no verdict on this exit
            n += 1
            probs = []
            if _add(pieces[0][0], S, -1) != ZERO:
                probs.append('starts at %s, not at the requested start' % _show(pieces[0][0]))
            for i in range(1, len(pieces)):
                if _add(pieces[i][0], pieces[i - 1][1], -1) != ZERO:
                    probs.append('piece %d starts at %s but piece %d ended at %s' % (i + 1, _show(pieces[i][0]), i, _show(pieces[i - 1][1])))
            if _add(pieces[-1][1], E, -1) != ZERO:
                probs.append('stops at %s, not at the requested end' % _show(pieces[-1][1]))
            ctx.check(not probs, 'get_range:exact-window#%d' % n, where(b, p), 'the %d piece(s) returned here cover exactly [start, end)' % len(pieces),
                      'get_range returns a window that is not the one asked for (%s; S/E = requested start/end, len(%s.0) = length of the first half of the ring): a record would be read back with bytes missing or with bytes of its neighbours' % ('; '.join(probs), T))
    if n == 0:
        ctx.missing('windows', 'no return of get_range could be read as slices of the two halves of the ring')
