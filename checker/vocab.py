"""§4 vocabulary shared by the rules: API sets, log sites, entry kinds, roles."""
import re

from core import op_local, place_fields, strip_crate
from flow import flow_of

MRL = 'multi_record_log::MultiRecordLog'
MPR = 'record::MultiPlexedRecord'
KINDS = ['AppendRecords', 'Truncate', 'RecordPosition', 'DeleteQueue']   # today's kinds (documentation); rules use kinds(ctx)


def kinds(ctx):
    """Entry kinds = variants of MultiPlexedRecord, read from the ADT on every run."""
    a = ctx.f.adts.get(MPR)
    return [v['name'] for v in a['variants']] if a else list(KINDS)


def root_bodies(ctx):
    out = []
    for r in ctx.f.roots:
        if r['node'] in ctx.f.bodies:
            out.append(ctx.f.bodies[r['node']])
    return out


def api_mut(ctx):
    """Public &mut self methods of MultiRecordLog (instances)."""
    return [b for b in root_bodies(ctx) if b.arg_count >= 1 and b.local_ty(1).startswith('&mut ' + MRL)]


def api_ro(ctx):
    return [b for b in root_bodies(ctx) if b.arg_count >= 1 and b.local_ty(1).startswith('&' + MRL)]


def open_bodies(ctx):
    """Roots that build a MultiRecordLog."""
    return [b for b in root_bodies(ctx) if re.match(r'^std::result::Result<' + re.escape(MRL) + r',', b.ret_ty)]


def is_log_site(ctx, cs):
    """A call that may WRITE and takes a MultiPlexedRecord: the one place entries enter the WAL."""
    if cs.node is None or not ctx.E.call_may(cs, 'WRITE'):
        return False
    for i, a in enumerate(cs.args):
        l = op_local(a)
        if l is not None and cs.body.local_ty(l).startswith(MPR):
            return True
    return False


def log_sites(ctx, b):
    return [cs for cs in b.calls if is_log_site(ctx, cs)]


def record_arg_local(cs):
    for a in cs.args:
        l = op_local(a)
        if l is not None and cs.body.local_ty(l).startswith(MPR):
            return l
    return None


def log_site_kinds(ctx, cs):
    """Variants of MultiPlexedRecord that may be the record argument of this log site,
    with the aggregate statements: [(variant, point, rvalue)]."""
    b = cs.body
    l = record_arg_local(cs)
    out = []
    if l is None:
        return out
    for o in b.trace_local(l):
        if o[0] == 'rv' and o[2]['k'] == 'agg' and strip_crate(o[2].get('adt', '')) == MPR:
            out.append((o[2]['variant'], o[1], o[2]))
    return out


def kinds_written(ctx, b):
    ks = {}
    for cs in log_sites(ctx, b):
        for (v, p, rv) in log_site_kinds(ctx, cs):
            ks.setdefault(v, []).append((cs, p, rv))
    return ks


def agg_field_op(rv, name):
    for n, o in zip(rv.get('fields', []), rv['ops']):
        if n == name:
            return o
    return None


def callers_of(ctx, b):
    """[(caller body, CallSite)] direct call sites of body b."""
    return [(cb, cs) for (cb, cs) in ctx.f.callers().get(b.id, []) if cs is not None]


def reachable_bodies(ctx, roots, stop=None):
    """Bodies reachable from the given bodies through calls and fn values."""
    seen = {}
    work = list(roots)
    for b in roots:
        seen[b.id] = b
    while work:
        b = work.pop()
        nxt = [cs.node for cs in b.calls if cs.node is not None]
        nxt += [fj.get('node') for (_p, fj) in b.fn_values if fj.get('node') is not None]
        for n in nxt:
            if n in ctx.f.bodies and n not in seen:
                if stop is not None and stop(ctx.f.bodies[n]):
                    continue
                seen[n] = ctx.f.bodies[n]
                work.append(ctx.f.bodies[n])
    return list(seen.values())


def lifted_dominated(ctx, b, point, site_pred, _depth=0, _seen=None, markers=None):
    """True iff on every call chain from a root down to (b, point) some site satisfying
    site_pred(body, CallSite) dominates the chain's call site (or `point` itself in b).
    Returns (ok, witness list / failing chain)."""
    if _seen is None:
        _seen = set()
    if (b.id, point) in _seen or _depth > 12:
        return True, []
    _seen.add((b.id, point))
    for cs in b.calls:
        if cs.point != point and site_pred(b, cs) and b.dominates(cs.point, point):
            return True, [(b, cs)]
    if markers is not None:
        # the required step written in place in this body (not factored into a callee)
        for mp in markers(b):
            if mp != point and b.dominates(mp, point):
                return True, [(b, b.call_at.get(mp))]
    cal = callers_of(ctx, b)
    is_root = any(r['node'] == b.id for r in ctx.f.roots)
    if is_root or not cal:
        return False, [(b, None)]
    wit = []
    for (cb, cs) in cal:
        ok, w = lifted_dominated(ctx, cb, cs.point, site_pred, _depth + 1, _seen, markers)
        if not ok:
            return False, [(b, None)] + w
        wit.extend(w)
    return True, wit


def where(b, p):
    return '%s (%s)' % (b.loc(p), b.path)


def const_comparisons(ctx, b, const_suffix):
    """Comparisons of a value with the named const `const_suffix` in body b, directly (binop) or
    through a one-comparison helper fn (A-GET style inlining).
    Returns [dict(point, op, x (operand json), res (result local), via)] with op normalised so that
    the relation reads `x OP CONST`."""
    from core import op_const_named
    out = []
    swap = {'Lt': 'Gt', 'Gt': 'Lt', 'Le': 'Ge', 'Ge': 'Le', 'Eq': 'Eq', 'Ne': 'Ne'}
    for bi, blk in enumerate(b.blocks):
        if not b.live[bi]:
            continue
        for si, st in enumerate(blk['stmts']):
            if st['k'] == 'assign' and st['rv']['k'] == 'binop' and st['rv']['op'] in swap and not st['place']['p']:
                a, bb = st['rv']['a'], st['rv']['b']
                na, nb = op_const_named(a), op_const_named(bb)
                if nb and nb.endswith(const_suffix) and not na:
                    out.append({'point': b.pstart[bi] + si, 'op': st['rv']['op'], 'x': a, 'res': st['place']['l'], 'via': None})
                elif na and na.endswith(const_suffix) and not nb:
                    out.append({'point': b.pstart[bi] + si, 'op': swap[st['rv']['op']], 'x': bb, 'res': st['place']['l'], 'via': None})
                else:
                    # the constant moved to the other side: `t + CONST OP K` (K another named constant) is
                    # `K - t OP' CONST` with the operator flipped (`cursor + HEADER_LEN <= BLOCK` is `remaining >= HEADER_LEN`)
                    def sum_with_const(op):
                        if op.get('k') not in ('copy', 'move'):
                            return False
                        found, only_add = [False], [True]
                        def walk(o, d=0):
                            if o.get('k') == 'const':
                                if (op_const_named(o) or '').endswith(const_suffix):
                                    found[0] = True
                                return
                            if o.get('k') not in ('copy', 'move') or d > 8:
                                return
                            ds = b.defs.get(o['place']['l'], [])
                            if len(ds) != 1 or ds[0][1] != 'assign':
                                return
                            rv = ds[0][2]['rv']
                            if rv['k'] in ('use', 'cast'):
                                walk(rv['op'], d + 1)
                            elif rv['k'] == 'binop':
                                if not rv['op'].startswith('Add'):
                                    only_add[0] = False
                                walk(rv['a'], d + 1)
                                walk(rv['b'], d + 1)
                        walk(op)
                        return found[0] and only_add[0]
                    if nb and not nb.endswith(const_suffix) and sum_with_const(a):
                        out.append({'point': b.pstart[bi] + si, 'op': swap[st['rv']['op']], 'x': a, 'res': st['place']['l'], 'via': 'sum'})
                    elif na and not na.endswith(const_suffix) and sum_with_const(bb):
                        out.append({'point': b.pstart[bi] + si, 'op': st['rv']['op'], 'x': bb, 'res': st['place']['l'], 'via': 'sum'})
    for cs in b.calls:
        if cs.node is None or cs.node not in ctx.f.bodies or cs.dest_local() is None:
            continue
        cb = ctx.f.bodies[cs.node]
        if cb.ret_ty != 'bool' or cb.arg_count != 1 or len(cb.calls) != 0:
            continue
        inner = const_comparisons(ctx, cb, const_suffix) if cb is not b else []
        for c in inner:
            # the helper compares its own parameter and returns the result
            xl = op_local(c['x'])
            from_param = xl is not None and any(o[0] == 'param' and o[1] == 1 for o in cb.trace_local(xl))
            if from_param and (c['res'] == 0 or any(o[0] == 'rv' and o[1] == c['point'] for o in cb.trace_local(0))):
                out.append({'point': cs.point, 'op': c['op'], 'x': cs.args[0], 'res': cs.dest_local(), 'via': cb.path})
    return out


def switch_on_result(b, comp):
    """Switch blocks consuming the boolean result of comparison `comp`: [(block, true_edge, false_edge)]"""
    out = []
    for bj, blk in enumerate(b.blocks):
        if not b.live[bj] or blk['term']['k'] != 'switch':
            continue
        c = b.switch_cond(bj)
        if not c or c['kind'] != 'bool':
            continue
        hit = c.get('local') == comp['res']
        for o in c['origin']:
            if o[0] == 'rv' and o[1] == comp['point']:
                hit = True
            if o[0] == 'call' and o[1].point == comp['point']:
                hit = True
        if hit:
            e = b.bool_edges(bj)
            if e:
                out.append((bj, e[0], e[1]))
    return out



def emptiness_tests(b, type_re=r'.'):
    """[(empty_edge, nonempty_edge, CallSite)] for every test of "this container / slice is empty" in body b:
    `x.is_empty()` and the `x.len() ==/!=/</>/<=/>= 0|1` spellings, polarity normalised. CallSite is the
    is_empty / len call (its arg 0 is the container)."""
    import re as _re
    from core import op_local, op_const_bits
    out = []
    for (bi, c, te, fe, cs) in b.switches_on_call(lambda c: _re.search(r'::is_empty$', c.name) is not None and _re.search(type_re, c.name) is not None):
        out.append((te, fe, cs))
    for bj, blk in enumerate(b.blocks):
        if not b.live[bj] or blk['term']['k'] != 'switch':
            continue
        c = b.switch_cond(bj)
        if not (c and c['kind'] == 'bool'):
            continue
        for o in c['origin']:
            if not (o[0] == 'rv' and o[2]['k'] == 'binop' and o[2]['op'] in ('Eq', 'Ne', 'Lt', 'Ge', 'Gt', 'Le')):
                continue
            for (x, y, flip) in ((o[2]['a'], o[2]['b'], False), (o[2]['b'], o[2]['a'], True)):
                lx = op_local(x)
                k = op_const_bits(y)
                if lx is None or k is None:
                    continue
                lens = [t for t in b.trace_local(lx) if t[0] == 'call' and _re.search(r'::len$', t[1].name) and _re.search(type_re, t[1].name)]
                if not lens:
                    continue
                e = b.bool_edges(bj)
                if not e:
                    continue
                op = o[2]['op']
                if flip:
                    op = {'Lt': 'Gt', 'Gt': 'Lt', 'Le': 'Ge', 'Ge': 'Le'}.get(op, op)
                if (op, k) in (('Eq', 0), ('Lt', 1), ('Le', 0)):
                    out.append((e[0], e[1], lens[0][1]))
                elif (op, k) in (('Ne', 0), ('Ge', 1), ('Gt', 0)):
                    out.append((e[1], e[0], lens[0][1]))
    return out



def next_position_calls(ctx, b):
    """Calls in API body b whose result is the queue's next position: the map-level accessor
    (`-> Result<u64, MissingQueue>`) or `MemQueue::next_position()` applied to a queue looked up in place."""
    out = []
    for cs in b.calls:
        dl = cs.dest_local()
        if cs.node is None or dl is None:
            continue
        ty = b.local_ty(dl)
        if ty.startswith('std::result::Result<u64, error::MissingQueue'):
            out.append(cs)
        elif ty == 'u64' and cs.path.endswith('MemQueue::next_position'):
            out.append(cs)
    return out
