"""A-INLINE: helper functions that did not exist when the rules were confirmed are analysed as part of
their callers.

Every rule is anchored in functions of the crate as it was read (known_fns.json = the functions of the
tree the rule instances were confirmed on).  A later change that extracts part of such a function into a
new private helper keeps the behaviour but moves the statements the rule looks at out of the anchored
body.  To stay exact in both directions the facts are normalised before any rule runs: a call to a
crate-local, non-recursive, non-closure function whose path is NOT in the known list is replaced by the
callee's MIR (fresh locals, argument / return-value moves, `return` -> goto the call's target).  The
helper body itself is dropped from the body table once nothing refers to it any more, so that it is
judged in the context of its callers only (an extracted `remove(path)` helper has no idea where its
parameter comes from; its callers do).

Consequences:
  * the unchanged tree is analysed exactly as before (no unknown function);
  * a fault hidden in a new helper is seen by the intra-procedural rules of the caller;
  * renaming a known function makes it "unknown": it is inlined into its callers, and rules anchored on
    the old name report a missing anchor (documented exception, DESIGN 13).
"""
import copy
import json
import os

HERE = os.path.dirname(os.path.abspath(__file__))
KNOWN_PATH = os.path.join(HERE, 'known_fns.json')
MAX_DEPTH = 4
MAX_BLOCKS = 400


def strip_crate(s):
    return s.replace('mrecordlog::', '') if s else s


def load_known():
    if not os.path.exists(KNOWN_PATH):
        return None
    return json.load(open(KNOWN_PATH))['fns']


def load_known_adts():
    if not os.path.exists(KNOWN_PATH):
        return {}
    return json.load(open(KNOWN_PATH)).get('adts', {})


def rename_fields_back(j, known_adts):
    """A private field that only changed its NAME (same struct / variant, same position, same type, same number of
    fields) is given its known name back in every place projection, aggregate and in the ADT table: the rules name
    the fields of the tree they were confirmed on (`RollingWriter.offset`, `FrameReader.cursor`, ...)."""
    if j.get('crate') != 'mrecordlog' or not known_adts:
        return {}
    ren = {}   # (adt, variant name, index) -> (new name, old name)
    for a in j.get('adts', []):
        path = strip_crate(a['path'])
        k = known_adts.get(path)
        if not k or len(k) != len(a['variants']):
            continue
        for kv, v in zip(k, a['variants']):
            if kv['name'] != v['name'] or len(kv['fields']) != len(v['fields']):
                continue
            if [t for (_n, t) in kv['fields']] != [f['ty'] for f in v['fields']]:
                continue
            cur_names = [f['name'] for f in v['fields']]
            old_names = [n for (n, _t) in kv['fields']]
            if sorted(cur_names) == sorted(old_names):
                continue        # same names (possibly reordered): nothing to do
            for i, (f, (on, _t)) in enumerate(zip(v['fields'], kv['fields'])):
                if f['name'] != on and on not in cur_names:
                    ren[(path, v['name'], i)] = (f['name'], on)
                    f['name'] = on
    if not ren:
        return {}
    by_adt = {}
    for (path, vn, i), (nn, on) in ren.items():
        by_adt.setdefault(path, []).append((vn, i, nn, on))
    def visit(o):
        if isinstance(o, dict):
            if o.get('k') == 'field' and o.get('adt') and strip_crate(o['adt']) in by_adt:
                for (vn, i, nn, on) in by_adt[strip_crate(o['adt'])]:
                    if o.get('i') == i and o.get('name') == nn and (o.get('variant') in (None, vn)):
                        o['name'] = on
            if o.get('k') == 'agg' and o.get('agg') == 'adt' and o.get('adt') and strip_crate(o['adt']) in by_adt and isinstance(o.get('fields'), list):
                for (vn, i, nn, on) in by_adt[strip_crate(o['adt'])]:
                    if o.get('variant') in (None, vn) or o.get('variant') == vn:
                        o['fields'] = [on if x == nn else x for x in o['fields']]
            for v in o.values():
                visit(v)
        elif isinstance(o, list):
            for x in o:
                visit(x)
    for b in j.get('instances', []) + j.get('poly', []):
        visit(b['blocks'])
    return {'%s.%s' % (p, on): nn for (p, vn, i), (nn, on) in ren.items()}


def effective_known(j, known):
    """Known paths plus the functions that took the place of a known function that no longer exists
    (same parent module / impl, same signature): a rename keeps the function a unit of analysis."""
    eff = set(known)
    renamed = {}
    cur = {}
    for f in j.get('fns', []):
        cur.setdefault(strip_crate(f['path']), {'sig': f.get('sig'), 'parent': strip_crate(f.get('parent') or '')})
    missing = [k for k in known if k not in cur and known[k].get('sig')]
    used = set()
    for path, info in sorted(cur.items()):
        if path in known or not info.get('sig'):
            continue
        for m in missing:
            if m in used:
                continue
            if known[m]['parent'] == info['parent'] and known[m]['sig'] == info['sig']:
                used.add(m)
                eff.add(path)
                renamed[m] = path
                break
    return eff, renamed


def _shift_place(pl, off_l):
    pl['l'] += off_l
    for e in pl['p']:
        if e['k'] == 'index' and 'local' in e:
            e['local'] += off_l


def _shift_op(o, off_l):
    if o.get('k') in ('copy', 'move') and 'place' in o:
        _shift_place(o['place'], off_l)


def _shift_rv(rv, off_l):
    k = rv['k']
    if k in ('ref', 'rawptr', 'discr'):
        _shift_place(rv['place'], off_l)
    elif k in ('use', 'cast', 'repeat'):
        _shift_op(rv['op'], off_l)
    elif k == 'binop':
        _shift_op(rv['a'], off_l)
        _shift_op(rv['b'], off_l)
    elif k == 'unop':
        _shift_op(rv['a'], off_l)
    elif k == 'agg':
        for o in rv.get('ops', []):
            _shift_op(o, off_l)
    else:
        # unknown rvalue kinds: shift every operand-looking member
        for v in rv.values():
            if isinstance(v, dict) and 'k' in v:
                _shift_op(v, off_l)
            elif isinstance(v, dict) and 'l' in v and 'p' in v:
                _shift_place(v, off_l)


def _shift_block(blk, off_l, off_b):
    for s in blk['stmts']:
        if 'place' in s:
            _shift_place(s['place'], off_l)
        if 'rv' in s:
            _shift_rv(s['rv'], off_l)
    t = blk['term']
    k = t['k']
    for key in ('target', 'unwind', 'otherwise'):
        if isinstance(t.get(key), int):
            t[key] += off_b
    if k == 'switch':
        _shift_op(t['discr'], off_l)
        t['targets'] = [[v, tb + off_b] for (v, tb) in t['targets']]
    elif k == 'call':
        for a in t['args']:
            _shift_op(a, off_l)
        if t.get('dest') is not None:
            _shift_place(t['dest'], off_l)
        cal = t['callee']
        if cal.get('kind') == 'local_value' or 'place' in cal:
            if isinstance(cal.get('place'), dict):
                _shift_place(cal['place'], off_l)
    elif k == 'drop':
        _shift_place(t['place'], off_l)
    elif k == 'assert':
        _shift_op(t['cond'], off_l)


def inline_call(caller, bi, callee):
    """Replace the call terminating block `bi` of `caller` (json) by the body of `callee` (json)."""
    term = caller['blocks'][bi]['term']
    off_l = len(caller['locals'])
    off_b = len(caller['blocks'])
    caller['locals'].extend(copy.deepcopy(callee['locals']))
    for n in callee.get('names', []):
        n2 = copy.deepcopy(n)
        _shift_place(n2['place'], off_l)
        caller['names'].append(n2)
    span = term['span']
    blk = caller['blocks'][bi]
    for i, a in enumerate(term['args']):
        blk['stmts'].append({'k': 'assign', 'place': {'l': off_l + 1 + i, 'p': []}, 'rv': {'k': 'use', 'op': a}, 'span': span, 'exp': term.get('exp'), 'inl': 'arg'})
    dest = term.get('dest')
    target = term.get('target')
    blk['term'] = {'k': 'goto', 'target': off_b, 'span': span, 'exp': term.get('exp'), 'inl': strip_crate(callee['path'])}
    ret_blocks = []
    for ci, cb in enumerate(callee['blocks']):
        nb = copy.deepcopy(cb)
        _shift_block(nb, off_l, off_b)
        if nb['term']['k'] == 'return':
            nb['n_own_stmts'] = len(nb['stmts'])
            if dest is not None:
                nb['stmts'].append({'k': 'assign', 'place': copy.deepcopy(dest), 'rv': {'k': 'use', 'op': {'k': 'move', 'place': {'l': off_l, 'p': []}}}, 'span': span, 'exp': term.get('exp'), 'inl': 'ret'})
            if target is not None:
                nb['term'] = {'k': 'goto', 'target': target, 'span': nb['term']['span'], 'exp': nb['term'].get('exp')}
            else:
                nb['term'] = {'k': 'unreachable', 'span': nb['term']['span'], 'exp': nb['term'].get('exp')}
            if not nb.get('cleanup'):
                ret_blocks.append(off_b + ci)
        caller['blocks'].append(nb)
    if dest is not None and not dest['p'] and target is not None:
        _specialise_returns(caller, off_b, off_b + len(callee['blocks']), ret_blocks, off_l, dest['l'], target, strip_crate(callee.get('ret_ty') or ''))
    for nb in caller['blocks']:
        nb.pop('n_own_stmts', None)


# ---------------------------------------------------------------------------------------------
# Return-value specialisation: the inlined callee's return sites that assign a KNOWN variant
# (Ok(..) / Err via from_residual / Some / None / a bool constant) jump straight to the arm the
# caller's first test of the returned value selects (`?` = Try::branch + switch, `match`, `if`).
# Without this the merge at the single inlined return block would create paths that do not exist
# (callee returned Err -> caller continues on its Ok arm).

def _succs(blk):
    t = blk['term']
    k = t['k']
    if k == 'goto':
        return [t['target']]
    if k == 'switch':
        return [tb for (_v, tb) in t['targets']] + [t['otherwise']]
    if k in ('drop', 'assert'):
        return [t['target']]
    if k == 'call':
        return [t['target']] if t.get('target') is not None else []
    return []


def _assigned_value(blk, ret_local, upto=None):
    """Known value assigned to ret_local by the statements of blk (last assignment wins), or None / 'none-assigned'."""
    stmts = blk['stmts'] if upto is None else blk['stmts'][:upto]
    for s in reversed(stmts):
        if s.get('k') == 'assign' and s['place']['l'] == ret_local:
            if s['place']['p']:
                return None
            rv = s['rv']
            if rv['k'] == 'agg' and rv.get('agg') == 'adt' and rv.get('adt') in ('std::result::Result', 'std::option::Option') and rv.get('variant') is not None:
                return ('adt', rv['adt'], rv['variant'], rv.get('variant_idx'))
            if rv['k'] == 'use' and rv['op'].get('k') == 'const' and rv['op'].get('ty') == 'bool' and 'bits' in rv['op']:
                return ('bool', int(rv['op']['bits']))
            return None
    return 'none-assigned'


def _value_at_end(blocks, preds, xi, ret_local, ret_ty, depth=0):
    X = blocks[xi]
    t = X['term']
    if t['k'] == 'call' and t.get('dest') is not None and t['dest']['l'] == ret_local:
        if t['dest']['p']:
            return None
        nm = t['callee'].get('name', '')
        if nm.endswith('::from_residual') and 'FromResidual' in nm:
            if ret_ty.startswith('std::result::Result<'):
                return ('adt', 'std::result::Result', 'Err', 1)
            if ret_ty.startswith('std::option::Option<'):
                return ('adt', 'std::option::Option', 'None', 0)
        return None
    v = _assigned_value(X, ret_local, X.get('n_own_stmts'))
    if v != 'none-assigned':
        return v
    # not assigned here: the value is whatever all predecessors agree on
    ps = preds.get(xi, [])
    if not ps or depth > 12:
        return None
    vals = set()
    for pi in ps:
        if pi == xi:
            return None
        v = _value_at_end(blocks, preds, pi, ret_local, ret_ty, depth + 1)
        if v is None:
            return None
        vals.add(v)
    return vals.pop() if len(vals) == 1 else None


def _parse_cont(caller, ti, D):
    blocks = caller['blocks']
    T = blocks[ti]
    if T.get('cleanup'):
        return None
    aliases = {D}
    neg = {}
    discr_of = {}
    for s in T['stmts']:
        if s.get('k') != 'assign' or s['place']['p']:
            return None
        rv = s['rv']
        dl = s['place']['l']
        if rv['k'] == 'use' and rv['op'].get('k') in ('copy', 'move') and not rv['op']['place']['p'] and rv['op']['place']['l'] in aliases:
            aliases.add(dl)
        elif rv['k'] == 'use' and rv['op'].get('k') in ('copy', 'move') and not rv['op']['place']['p'] and rv['op']['place']['l'] in neg:
            neg[dl] = neg[rv['op']['place']['l']]
        elif rv['k'] == 'unop' and rv.get('op') == 'Not' and rv['a'].get('k') in ('copy', 'move') and not rv['a']['place']['p'] and (rv['a']['place']['l'] in aliases or rv['a']['place']['l'] in neg):
            neg[dl] = not neg.get(rv['a']['place']['l'], False)
        elif rv['k'] == 'discr' and not rv['place']['p'] and rv['place']['l'] in aliases:
            discr_of[dl] = True
        elif rv['k'] in ('use', 'ref', 'discr', 'cast', 'unop', 'binop', 'agg', 'repeat', 'rawptr'):
            pass
        else:
            return None
    t = T['term']
    if t['k'] == 'call' and 'as std::ops::Try>::branch' in t['callee'].get('name', '') and t.get('dest') is not None and not t['dest']['p'] and t.get('target') is not None:
        a = t['args'][0]
        if a.get('k') in ('copy', 'move') and not a['place']['p'] and a['place']['l'] in aliases:
            B = t['dest']['l']
            T2 = blocks[t['target']]
            if T2.get('cleanup') or T2['term']['k'] != 'switch':
                return None
            dl = None
            for s in T2['stmts']:
                if s.get('k') == 'assign' and not s['place']['p'] and s['rv']['k'] == 'discr' and not s['rv']['place']['p'] and s['rv']['place']['l'] == B:
                    dl = s['place']['l']
                elif s.get('k') != 'assign':
                    return None
            sd = T2['term']['discr']
            if dl is None or sd.get('k') not in ('copy', 'move') or sd['place']['p'] or sd['place']['l'] != dl:
                return None
            return {'shape': 'try', 'B': B, 'T': ti, 'T2': t['target'], 'targets': {int(v): tb for (v, tb) in T2['term']['targets']}, 'otherwise': T2['term']['otherwise'], 'span': t['span'], 'exp': t.get('exp')}
        return None
    if t['k'] == 'switch':
        sd = t['discr']
        if sd.get('k') not in ('copy', 'move') or sd['place']['p']:
            return None
        dl = sd['place']['l']
        tg = {int(v): tb for (v, tb) in t['targets']}
        if dl in discr_of:
            return {'shape': 'match', 'T': ti, 'targets': tg, 'otherwise': t['otherwise']}
        if dl in aliases:
            return {'shape': 'bool', 'T': ti, 'targets': tg, 'otherwise': t['otherwise'], 'neg': False}
        if dl in neg:
            return {'shape': 'bool', 'T': ti, 'targets': tg, 'otherwise': t['otherwise'], 'neg': neg[dl]}
    return None


def _specialise_block(caller, nb, val, cont, D):
    """Append the caller's continuation prefix to block json nb (which ends with `D = move ret; goto T`) with the
    first test resolved for the known value. Returns True if rewritten."""
    blocks = caller['blocks']
    T = blocks[cont['T']]
    if cont['shape'] == 'try':
        if val[0] != 'adt':
            return False
        cf = ('Continue', 0) if val[2] in ('Ok', 'Some') else ('Break', 1)
        tgt = cont['targets'].get(cf[1], cont['otherwise'])
        nb['stmts'].extend(copy.deepcopy(T['stmts']))
        nb['stmts'].append({'k': 'assign', 'place': {'l': cont['B'], 'p': []}, 'rv': {'k': 'agg', 'agg': 'adt', 'adt': 'std::ops::ControlFlow', 'variant': cf[0], 'variant_idx': cf[1], 'is_enum': True, 'fields': ['0'],
                            'ops': [{'k': 'move', 'place': {'l': D, 'p': []}}], 'inl_try': val[2]}, 'span': cont['span'], 'exp': cont.get('exp'), 'inl': 'try'})
        nb['stmts'].extend(copy.deepcopy(blocks[cont['T2']]['stmts']))
        nb['term'] = {'k': 'goto', 'target': tgt, 'span': nb['term']['span'], 'exp': nb['term'].get('exp'), 'inl': 'resolved'}
        return True
    if cont['shape'] == 'match':
        if val[0] != 'adt' or val[3] is None:
            return False
        tgt = cont['targets'].get(int(val[3]), cont['otherwise'])
        nb['stmts'].extend(copy.deepcopy(T['stmts']))
        nb['term'] = {'k': 'goto', 'target': tgt, 'span': nb['term']['span'], 'exp': nb['term'].get('exp'), 'inl': 'resolved'}
        return True
    if cont['shape'] == 'bool':
        if val[0] != 'bool':
            return False
        v = val[1]
        if cont['neg']:
            v = 1 - v
        tgt = cont['targets'].get(v, cont['otherwise'])
        nb['stmts'].extend(copy.deepcopy(T['stmts']))
        nb['term'] = {'k': 'goto', 'target': tgt, 'span': nb['term']['span'], 'exp': nb['term'].get('exp'), 'inl': 'resolved'}
        return True
    return False


def _retarget(blk, old, new):
    t = blk['term']
    k = t['k']
    if k in ('goto', 'drop', 'assert', 'call') and t.get('target') == old:
        t['target'] = new
    if k == 'switch':
        t['targets'] = [[v, (new if tb == old else tb)] for (v, tb) in t['targets']]
        if t['otherwise'] == old:
            t['otherwise'] = new


def _specialise_returns(caller, lo, hi, ret_blocks, off_l, D, target, ret_ty):
    cont = _parse_cont(caller, target, D)
    if cont is None:
        return
    blocks = caller['blocks']
    preds = {}
    for xi in range(lo, hi):
        if blocks[xi].get('cleanup'):
            continue
        for sidx in _succs(blocks[xi]):
            preds.setdefault(sidx, []).append(xi)
    for ri in ret_blocks:
        R = blocks[ri]
        own = _assigned_value(R, off_l, R.get('n_own_stmts'))
        if own != 'none-assigned':
            if own is not None:
                _specialise_block(caller, R, own, cont, D)
            continue
        for xi in list(preds.get(ri, [])):
            val = _value_at_end(blocks, preds, xi, off_l, ret_ty)
            if val is None:
                continue
            nb = copy.deepcopy(R)
            if _specialise_block(caller, nb, val, cont, D):
                blocks.append(nb)
                _retarget(blocks[xi], ri, len(blocks) - 1)


def prune_unreachable(b):
    """Blocks no longer reachable from the entry are marked as cleanup (= not live) so that their definitions do not pollute def-use."""
    blocks = b['blocks']
    seen = {0}
    stack = [0]
    while stack:
        x = stack.pop()
        if blocks[x].get('cleanup'):
            continue
        for y in _succs(blocks[x]):
            if y not in seen:
                seen.add(y)
                stack.append(y)
    for i, blk in enumerate(blocks):
        if i not in seen and not blk.get('cleanup'):
            blk['cleanup'] = True
            blk['inl_dead'] = True


def _eligible(b, known):
    p = strip_crate(b['path'])
    if p in known or b.get('is_closure') or b.get('is_test_item') or b.get('automatically_derived'):
        return False
    if p.startswith('<') or '{closure' in p or '{impl' in p:
        return False
    return True


def _inline_family(bodies, lookup, known, roots):
    """bodies: list of body json; lookup(callee_json) -> body json or None. Returns names of inlined helpers."""
    inlined = set()
    state = {}

    def process(b, stack):
        key = id(b)
        if state.get(key) == 'done':
            return
        if key in stack:
            return
        stack = stack | {key}
        changed = True
        did = False
        rounds = 0
        while changed and rounds < MAX_DEPTH:
            changed = False
            rounds += 1
            for bi in range(len(b['blocks'])):
                blk = b['blocks'][bi]
                t = blk['term']
                if t['k'] != 'call' or blk.get('cleanup'):
                    continue
                cal = t['callee']
                if not cal.get('local') or cal.get('as_value'):
                    continue
                c = lookup(cal)
                if c is None or c is b or id(c) in stack or not _eligible(c, known):
                    continue
                # only helpers living in the caller's own source file: a new method on ANOTHER type is a unit of
                # its own (its type's rules apply to it as such), not a piece cut out of the caller
                if (c.get('span') or '').split(':')[0] != (b.get('span') or '').split(':')[0]:
                    continue
                if c['arg_count'] != len(t['args']):
                    continue
                process(c, stack)
                if len(b['blocks']) + len(c['blocks']) > MAX_BLOCKS:
                    continue
                inline_call(b, bi, c)
                inlined.add(strip_crate(c['path']))
                changed = True
                did = True
        if did:
            prune_unreachable(b)
        state[key] = 'done'

    for b in list(bodies):
        process(b, frozenset())
    return inlined


def _referenced(bodies, lookup):
    refs = set()
    def visit(v):
        if isinstance(v, dict):
            if v.get('local') and ('path' in v) and ('kind' in v or 'node' in v):
                c = lookup(v)
                if c is not None:
                    refs.add(id(c))
            for x in v.values():
                visit(x)
        elif isinstance(v, list):
            for x in v:
                visit(x)
    for b in bodies:
        for blk in b['blocks']:
            visit(blk)
    return refs


def _strip_generics(name):
    out = []
    depth = 0
    i = 0
    while i < len(name):
        ch = name[i]
        if ch == '<':
            depth += 1
        elif ch == '>':
            depth -= 1
        elif depth == 0:
            out.append(ch)
        i += 1
    return ''.join(out).replace('::::', '::')


def rename_back(j, renamed):
    """A function recognised as a rename of a known one is given its known name back, everywhere in the facts
    (bodies, callees, fn table, closures nested in it): the rules name the functions of the tree they were
    confirmed on, and a rename is not a change of behaviour."""
    if not renamed:
        return
    import re as _re
    pairs = []
    for old, new in renamed.items():
        ol, nl = old.split('::')[-1], new.split('::')[-1]
        if ol == nl or new.startswith('<'):
            continue
        pairs.append((new, old, nl, ol))
    if not pairs:
        return
    def fix(v):
        if not isinstance(v, str) or '::' not in v:
            return v
        sv = _strip_generics(strip_crate(v))
        for (new, old, nl, ol) in pairs:
            if sv == new or sv.startswith(new + '::') or sv.endswith('::' + new) or ('::' + new + '::') in sv:
                return _re.sub(r'(?<=::)' + _re.escape(nl) + r'(?=$|::)', ol, v, count=1)
        return v
    KEYS = ('path', 'name', 'orig', 'orig_name', 'parent', 'named', 'anon_of')
    def visit(o):
        if isinstance(o, dict):
            for k, v in list(o.items()):
                if k in KEYS and isinstance(v, str):
                    o[k] = fix(v)
                else:
                    visit(v)
        elif isinstance(o, list):
            for x in o:
                visit(x)
    for b in j.get('instances', []) + j.get('poly', []):
        for k in KEYS:
            if isinstance(b.get(k), str):
                b[k] = fix(b[k])
        visit(b['blocks'])
    for f in j.get('fns', []) + j.get('roots', []) + j.get('consts', []):
        for k in KEYS:
            if isinstance(f.get(k), str):
                f[k] = fix(f[k])


def rename_types_back(j, known_adts):
    """A struct / enum that only changed its NAME (same module, same variants, same fields, same field types) is
    given its known name back in every string of the facts; an enum variant that only changed its name (same index,
    same fields) likewise.  Done before functions are matched, so that methods of a renamed type keep their paths."""
    import re as _re
    if j.get('crate') != 'mrecordlog' or not known_adts:
        return {}
    cur = {strip_crate(a['path']): a for a in j.get('adts', [])}
    def vname(n, path):
        return '<self>' if n == path.split('::')[-1] else n
    def sig_of_cur(a, self_path, as_path):
        return tuple((vname(v['name'], self_path), tuple((f['name'], strip_crate(f['ty']).replace(self_path, as_path)) for f in v['fields'])) for v in a['variants'])
    def sig_of_known(k, path):
        return tuple((vname(v['name'], path), tuple((n, strip_crate(t)) for (n, t) in v['fields'])) for v in k)
    missing = [m for m in known_adts if m not in cur]
    extra = [x for x in cur if x not in known_adts and not cur[x].get('is_test_item')]
    ren = {}
    for m in missing:
        parent = m.rsplit('::', 1)[0] if '::' in m else ''
        cands = [x for x in extra if (x.rsplit('::', 1)[0] if '::' in x else '') == parent and x not in ren.values() and sig_of_cur(cur[x], x, m) == sig_of_known(known_adts[m], m)]
        if len(cands) == 1:
            ren[m] = cands[0]
    if ren:
        pats = [(_re.compile(r'(?<![A-Za-z0-9_])' + _re.escape(new) + r'(?![A-Za-z0-9_])'), old) for old, new in ren.items()]
        # also the `mrecordlog::`-prefixed spelling
        def fix(v):
            for (pat, old) in pats:
                v = pat.sub(old, v)
            return v
        def visit(o):
            if isinstance(o, dict):
                for k, v in list(o.items()):
                    if isinstance(v, str):
                        if '::' in v:
                            o[k] = fix(v)
                    else:
                        visit(v)
            elif isinstance(o, list):
                for i, x in enumerate(o):
                    if isinstance(x, str):
                        if '::' in x:
                            o[i] = fix(x)
                    else:
                        visit(x)
        for key in ('adts', 'consts', 'fns', 'impls', 'roots', 'instances', 'poly'):
            visit(j.get(key, []))
        # bare struct names (variant name of a struct = its own name)
        bare = {new.split('::')[-1]: old.split('::')[-1] for old, new in ren.items()}
        def visit_bare(o):
            if isinstance(o, dict):
                if isinstance(o.get('variant'), str) and o['variant'] in bare and strip_crate(o.get('adt') or '') in ren:
                    o['variant'] = bare[o['variant']]
                for v in o.values():
                    visit_bare(v)
            elif isinstance(o, list):
                for x in o:
                    visit_bare(x)
        for a in j.get('adts', []):
            if strip_crate(a['path']) in ren:
                for v in a['variants']:
                    if v['name'] in bare:
                        v['name'] = bare[v['name']]
        for b in j.get('instances', []) + j.get('poly', []):
            visit_bare(b['blocks'])
    # enum variants renamed in place
    vren = {}
    for a in j.get('adts', []):
        path = strip_crate(a['path'])
        k = known_adts.get(path)
        if not k or len(k) != len(a['variants']) or a.get('kind') != 'enum':
            continue
        cur_names = [v['name'] for v in a['variants']]
        for kv, v in zip(k, a['variants']):
            if kv['name'] != v['name'] and kv['name'] not in cur_names and [(n, t) for (n, t) in kv['fields']] == [(f['name'], strip_crate(f['ty'])) for f in v['fields']]:
                vren[(path, v['name'])] = kv['name']
                v['name'] = kv['name']
    if vren:
        def visit2(o):
            if isinstance(o, dict):
                adt = strip_crate(o.get('adt') or '')
                if 'variant' in o and isinstance(o['variant'], str) and (adt, o['variant']) in vren:
                    o['variant'] = vren[(adt, o['variant'])]
                for v in o.values():
                    visit2(v)
            elif isinstance(o, list):
                for x in o:
                    visit2(x)
        for b in j.get('instances', []) + j.get('poly', []):
            visit2(b['blocks'])
    out = dict(ren)
    out.update({'%s::%s' % (p, old): new for (p, new), old in vren.items()})
    return out


def inline_unknown(j, known):
    """Mutates facts json j. Returns dict(inlined=[paths], dropped=[paths])."""
    if known is None or j.get('crate') != 'mrecordlog':
        return {'inlined': [], 'dropped': []}
    types_renamed = rename_types_back(j, load_known_adts())
    known, renamed = effective_known(j, known)
    rename_back(j, renamed)
    fields_renamed = rename_fields_back(j, load_known_adts())
    report = {'inlined': set(), 'dropped': set()}
    # instances: callee.node = id
    inst = j['instances']
    by_id = {b['id']: b for b in inst}
    def look_i(cal):
        n = cal.get('node')
        return by_id.get(n) if n is not None else None
    report['inlined'] |= _inline_family(inst, look_i, known, j.get('roots', []))
    root_ids = {r['node'] for r in j.get('roots', []) if r.get('node') is not None}
    # drop helpers nothing refers to any more (iterate: helpers of helpers)
    while True:
        refs = _referenced(inst, look_i)
        drop = [b for b in inst if _eligible(b, known) and strip_crate(b['path']) in report['inlined'] and id(b) not in refs and b['id'] not in root_ids]
        if not drop:
            break
        for b in drop:
            report['dropped'].add(strip_crate(b['path']))
            inst.remove(b)
    # poly bodies: resolve by path
    poly = j['poly']
    by_path = {}
    for b in poly:
        by_path.setdefault(b['path'], []).append(b)
    def look_p(cal):
        c = by_path.get(cal.get('path')) or by_path.get(strip_crate(cal.get('path') or ''))
        return c[0] if c and len(c) == 1 else None
    inl_p = _inline_family(poly, look_p, known, [])
    report['inlined'] |= inl_p
    while True:
        refs = _referenced(poly, look_p)
        drop = [b for b in poly if _eligible(b, known) and strip_crate(b['path']) in inl_p and id(b) not in refs]
        if not drop:
            break
        for b in drop:
            report['dropped'].add(strip_crate(b['path']))
            poly.remove(b)
    return {'inlined': sorted(report['inlined']), 'dropped': sorted(report['dropped']), 'renamed': renamed, 'fields_renamed': fields_renamed, 'types_renamed': types_renamed}
