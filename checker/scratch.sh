#!/bin/bash
# usage: scratch.sh <patch-file|-> <out-dir> [mode]   -> copies /repo sources to <out-dir>/repo, applies patch, extracts facts to <out-dir>/facts
set -e
PATCH="$1"; OUT="$2"; MODE="${3:-lib}"
SRC="${MRL_REPO:-/repo}"
rm -rf "$OUT"; mkdir -p "$OUT/repo"
( cd "$SRC" && tar cf - --exclude=./target --exclude=./.git . ) | ( cd "$OUT/repo" && tar xf - )
if [ "$PATCH" != "-" ]; then
  if ! ( cd "$OUT/repo" && patch -p1 -s --no-backup-if-mismatch --dry-run < "$PATCH" >/dev/null 2>&1 ); then
    # corpus patches written before the fourth repair (b18ff6e, RollingWriter::write / FileTracker::untrack) that
    # rewrite the very lines it touched are applied to the tree they were written for (its parent, 8a84cd9); the
    # marker makes the harness leave GC13 -- the finding that repair answers -- out of the verdict (DESIGN 6.5)
    PRE="${MRL_PRE_FIX4_COMMIT:-8a84cd9}"
    if [ -z "$MRL_REPO" ] && git -C "$SRC" cat-file -e "$PRE^{commit}" 2>/dev/null; then
      rm -rf "$OUT/repo"; mkdir -p "$OUT/repo"
      git -C "$SRC" archive "$PRE" | ( cd "$OUT/repo" && tar xf - )
      touch "$OUT/PRE_FIX4"
    fi
  fi
  ( cd "$OUT/repo" && patch -p1 -s --no-backup-if-mismatch < "$PATCH" ) || { echo "PATCH-FAILED $PATCH"; exit 3; }
fi
/verif/driver/run.sh "$OUT/repo" "$OUT/facts" scratch "$MODE"
