#!/usr/bin/env python3
"""Regenerates selftest/{mutants,refactors}/*.patch from the definitions in corpus_defs.py
against the CURRENT /repo tree (so the corpus follows the repaired tree)."""
import difflib, json, os, sys
HERE = os.path.dirname(os.path.abspath(__file__))
sys.path.insert(0, HERE)
from corpus_defs import MUTANTS, REFACTORS
REPO = os.environ.get('MRL_REPO', '/repo')

def make(defs, outdir):
    os.makedirs(outdir, exist_ok=True)
    index = {}
    for d in defs:
        name = d['name']
        files = {}
        ok = True
        for (f, old, new) in d['edits']:
            path = os.path.join(REPO, f)
            cur = files.get(f)
            if cur is None:
                cur = open(path).read()
            if cur.count(old) != 1:
                print('!! %s: anchor text occurs %d times in %s' % (name, cur.count(old), f))
                ok = False
                break
            files[f] = cur.replace(old, new)
        if not ok:
            continue
        out = []
        for f, new in files.items():
            old = open(os.path.join(REPO, f)).read()
            out.extend(difflib.unified_diff(old.splitlines(True), new.splitlines(True), 'a/' + f, 'b/' + f))
        open(os.path.join(outdir, name + '.patch'), 'w').write(''.join(out))
        index[name] = {k: d[k] for k in d if k != 'edits'}
    return index

if __name__ == '__main__':
    idx = {'mutants': make(MUTANTS, os.path.join(HERE, 'mutants')), 'refactors': make(REFACTORS, os.path.join(HERE, 'refactors'))}
    # hand-made patches (reverts of the fix commits) keep their entries
    extra = json.load(open(os.path.join(HERE, 'corpus_extra.json'))) if os.path.exists(os.path.join(HERE, 'corpus_extra.json')) else {}
    idx['mutants'].update(extra.get('mutants', {}))
    json.dump(idx, open(os.path.join(HERE, 'corpus.json'), 'w'), indent=1, sort_keys=True)
    print('mutants: %d, refactors: %d' % (len(idx['mutants']), len(idx['refactors'])))
