//! Positive/negative controls for the analyses of /verif/checker (DESIGN §3.4).
//! Every function here has a known verdict; the checker asserts it on every run, so that an
//! analysis that silently stopped recognising a primitive or an idiom fails closed.
#![allow(dead_code, unused_variables, clippy::all)]
use std::fs::{File, OpenOptions};
use std::io::{self, BufWriter, Read, Seek, SeekFrom, Write};
use std::path::Path;
use std::sync::Arc;

pub enum Action {
    Soft,
    Hard,
}

pub struct Log {
    file: BufWriter<File>,
    dirty: bool,
    cursor: usize,
    skip: bool,
}

impl Log {
    // ---- effect table: every primitive family appears once
    pub fn prim_write(&mut self, b: &[u8]) -> io::Result<()> {
        self.file.write_all(b)
    }
    pub fn prim_flush(&mut self) -> io::Result<()> {
        self.file.flush()
    }
    pub fn prim_fsync(&mut self) -> io::Result<()> {
        self.file.get_ref().sync_data()
    }
    pub fn prim_seek(&mut self) -> io::Result<u64> {
        self.file.seek(SeekFrom::Start(0))
    }
    pub fn prim_setlen(&mut self) -> io::Result<()> {
        self.file.get_ref().set_len(10)
    }
    pub fn prim_escape(self) -> Option<File> {
        self.file.into_inner().ok()
    }

    // ---- must / may with constant specialisation (A-CONST)
    pub fn persist(&mut self, a: Action) -> io::Result<()> {
        match a {
            Action::Hard => {
                self.file.flush()?;
                self.file.get_ref().sync_data()
            }
            Action::Soft => self.file.flush(),
        }
    }
    /// conforming: unlink dominated by flush+fsync
    pub fn gc_good(&mut self, p: &Path) -> io::Result<()> {
        self.persist(Action::Hard)?;
        std::fs::remove_file(p)
    }
    /// violating: only flushed, not fsynced
    pub fn gc_soft(&mut self, p: &Path) -> io::Result<()> {
        self.persist(Action::Soft)?;
        std::fs::remove_file(p)
    }
    /// violating: sync only on one branch
    pub fn gc_cond(&mut self, p: &Path, n: u64) -> io::Result<()> {
        if n > 0 {
            self.persist(Action::Hard)?;
        }
        std::fs::remove_file(p)
    }

    // ---- A-THREAD: `a || b` bound to a let
    pub fn threaded(&mut self, remaining: usize) -> io::Result<bool> {
        let need = self.skip || remaining < 7;
        if !need {
            return Ok(false);
        }
        self.cursor = 0;
        Ok(true)
    }

    // ---- dropped error / retried error
    pub fn drops_error(&mut self) -> u32 {
        let _ = self.file.flush();
        1
    }
    pub fn retries_forever(&mut self) -> io::Result<()> {
        loop {
            let Ok(()) = self.file.flush() else {
                continue;
            };
            return Ok(());
        }
    }
    pub fn propagates(&mut self) -> io::Result<()> {
        loop {
            match self.file.flush() {
                Ok(()) => return Ok(()),
                Err(e) => return Err(e),
            }
        }
    }
}

pub fn prim_create(p: &Path) -> io::Result<File> {
    File::create(p)
}
pub fn prim_create_opts(p: &Path) -> io::Result<File> {
    OpenOptions::new().create(true).write(true).open(p)
}
pub fn prim_open_rw(p: &Path) -> io::Result<File> {
    OpenOptions::new().read(true).write(true).open(p)
}
pub fn prim_open_ro(p: &Path) -> io::Result<File> {
    OpenOptions::new().read(true).open(p)
}
pub fn prim_unlink(p: &Path) -> io::Result<()> {
    std::fs::rename(p, p)?;
    std::fs::remove_dir_all(p)
}
pub fn prim_scan(p: &Path) -> io::Result<usize> {
    Ok(std::fs::read_dir(p)?.count())
}
pub fn prim_read(f: &mut File, b: &mut [u8]) -> io::Result<()> {
    f.read_exact(b)
}
pub fn prim_fs_write(p: &Path) -> io::Result<()> {
    std::fs::write(p, b"x")
}
pub fn prim_leak(a: Arc<u64>, v: Vec<u8>) {
    std::mem::forget(a);
    let _ = std::mem::ManuallyDrop::new(v);
}
pub fn prim_now() -> std::time::Instant {
    std::time::Instant::now()
}
pub fn prim_unsafe(p: *const u8) -> u8 {
    unsafe { *p }
}

// ---- decoded length used unguarded / guarded
pub fn unguarded(buf: &[u8]) -> &[u8] {
    let n = u32::from_le_bytes(buf[0..4].try_into().unwrap()) as usize;
    &buf[4..][..n]
}
pub fn guarded(buf: &[u8]) -> Option<&[u8]> {
    let n = u32::from_le_bytes(buf[0..4].try_into().unwrap()) as usize;
    let rest = &buf[4..];
    if rest.len() < n {
        return None;
    }
    Some(&rest[..n])
}
