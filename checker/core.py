"""Core of the mrl-static rule engine: fact loading, per-body point graphs, dominance,
reachability with cut sets, exit classification, edge pins, def-use tracing.

Everything here is computed from the JSON fact file written by /verif/driver (MIR of the
type-checked crate). No source text is read, nothing from /repo is executed.
"""
import json
import os
import re
from collections import defaultdict, deque

STD_VARIANTS = {
    'std::option::Option': {0: 'None', 1: 'Some'},
    'std::result::Result': {0: 'Ok', 1: 'Err'},
    'std::ops::ControlFlow': {0: 'Continue', 1: 'Break'},
    'std::ops::Bound': {0: 'Included', 1: 'Excluded', 2: 'Unbounded'},
    'std::borrow::Cow': {0: 'Borrowed', 1: 'Owned'},
    'std::collections::hash_map::Entry': {0: 'Occupied', 1: 'Vacant'},
    'std::collections::btree_map::Entry': {0: 'Vacant', 1: 'Occupied'},
}


def strip_crate(s):
    return s.replace('mrecordlog::', '') if s else s


def _normalise_consts(j):
    """(a) operands that name a `&str` const carry its text; (b) format templates whose placeholders are
    fed by consts (`{}` of a &str const, `width$` of an integer const) are rewritten to the literal form,
    so that `format!("{}{:0w$}", PREFIX, n, w = DIGITS)` and `format!("wal-{:020}", n)` are the same template."""
    by_last = {}
    for c in j.get('consts', []):
        by_last.setdefault(c['path'].split('::')[-1], []).append(c)
    texts = {strip_crate(c['path']): c['text'] for c in j.get('consts', []) if c.get('text')}
    if texts:
        def visit(v):
            if isinstance(v, dict):
                if v.get('k') == 'const' and v.get('named') and strip_crate(v['named']) in texts and not re.match(r'^(const )?"', v.get('text') or ''):
                    v['text'] = texts[strip_crate(v['named'])]
                for x in v.values():
                    visit(x)
            elif isinstance(v, list):
                for x in v:
                    visit(x)
        for b in j.get('instances', []) + j.get('poly', []):
            visit(b['blocks'])
    def const_of(arg):
        if not isinstance(arg, str) or not arg.startswith('path:'):
            return None
        cs = by_last.get(arg[5:].split('::')[-1], [])
        vals = {(c.get('value'), c.get('text')) for c in cs}
        return cs[0] if len(vals) == 1 and cs else None
    for fa in j.get('format_args', []):
        args = fa.get('args')
        if not args:
            continue
        pieces = []
        for pc in fa['pieces']:
            if 'trait' in pc:
                if pc.get('width') == 'dynamic' and pc.get('width_arg') is not None and pc['width_arg'] < len(args):
                    c = const_of(args[pc['width_arg']])
                    if c is not None and c.get('value') is not None:
                        pc = dict(pc, width=int(c['value']))
                if pc.get('arg') is not None and pc['arg'] < len(args) and pc['trait'] == 'Display' and pc.get('width') is None and pc.get('precision') is None:
                    c = const_of(args[pc['arg']])
                    m = re.match(r'^(?:const )?"(.*)"$', c.get('text') or '') if c is not None else None
                    if m:
                        pc = {'lit': m.group(1)}
            if 'lit' in pc and pieces and 'lit' in pieces[-1]:
                pieces[-1] = {'lit': pieces[-1]['lit'] + pc['lit']}
            else:
                pieces.append(pc)
        fa['pieces'] = pieces


class Facts:
    def __init__(self, path, crate_prefix=None):
        with open(path) as fh:
            self.j = json.load(fh)
        self.path = path
        import inline
        self.inline_report = inline.inline_unknown(self.j, inline.load_known()) if not os.environ.get('MRL_NO_INLINE') else {'inlined': [], 'dropped': []}
        _normalise_consts(self.j)
        self.crate = self.j['crate']
        self.cfg_test = self.j['cfg_test']
        self.nonce = self.j['nonce']
        self.adts = {a['path']: a for a in self.j['adts']}
        self.consts = {}
        for c in self.j['consts']:
            self.consts.setdefault(c['path'], c)
        self.fns = {}
        for f in self.j['fns']:
            self.fns.setdefault(f['path'], f)
        self.bodies = {}      # id -> Body (instances)
        self.by_path = defaultdict(list)
        for bj in self.j['instances']:
            b = Body(bj, self)
            self.bodies[b.id] = b
            self.by_path[b.path].append(b)
        # unknown helpers that were put in place in all their callers (A-INLINE): not part of the call graph any
        # more, but still available to rules that judge a type's own methods locally
        self.dropped_helpers = []
        for bj in self.j.get('_dropped_helpers', []):
            try:
                self.dropped_helpers.append(Body(bj, self))
            except Exception:   # noqa: BLE001
                pass
        self.poly = []
        self.poly_by_path = defaultdict(list)
        for bj in self.j['poly']:
            b = Body(bj, self, poly=True)
            self.poly.append(b)
            self.poly_by_path[b.path].append(b)
        self.roots = self.j['roots']
        self._callers = None

    # ---- lookups
    def body(self, id_):
        return self.bodies[id_]

    def inlined(self, b, pred, tag, depth=3):
        """A-INLINE on demand: a copy of instance body b in which every call to a crate-local callee
        satisfying pred(callee Body) is replaced by the callee's MIR (same machinery as the load-time
        normalisation of unknown helpers). Used by rules that reason about ONE computation that the crate
        may or may not have factored into a helper (e.g. the frame checksum)."""
        import copy
        import inline as _inl
        key = (b.id, tag)
        cache = self.__dict__.setdefault('_inl_cache', {})
        if key in cache:
            return cache[key]
        j = copy.deepcopy(b.j)
        by_id = {x.id: x for x in self.bodies.values()}
        for _round in range(depth):
            changed = False
            for bi in range(len(j['blocks'])):
                blk = j['blocks'][bi]
                t = blk['term']
                if t['k'] != 'call' or blk.get('cleanup'):
                    continue
                cal = t['callee']
                n = cal.get('node')
                if not cal.get('local') or cal.get('as_value') or n is None or n not in by_id or n == b.id:
                    continue
                cb = by_id[n]
                if cb.is_closure or cb.arg_count != len(t['args']) or not pred(cb):
                    continue
                _inl.inline_call(j, bi, copy.deepcopy(cb.j))
                changed = True
            if not changed:
                break
        _inl.prune_unreachable(j)
        nb = Body(j, self, poly=b.poly)
        cache[key] = nb
        return nb

    def instances(self, path_suffix=None, pred=None):
        out = []
        for b in self.bodies.values():
            if path_suffix is not None and not (b.path == path_suffix or b.path.endswith('::' + path_suffix)):
                continue
            if pred is not None and not pred(b):
                continue
            out.append(b)
        return out

    def one(self, path_suffix):
        """All instances of the fn with this path (suffix match); [] if none."""
        return self.instances(path_suffix)

    def variant_name(self, adt, idx):
        if adt in self.adts:
            for v in self.adts[adt]['variants']:
                if v['idx'] == idx:
                    return v['name']
        base = adt.split('<')[0]
        if base in STD_VARIANTS:
            return STD_VARIANTS[base].get(idx)
        return None

    def variant_by_discr(self, adt, discr_val):
        """discriminant value (string/int) -> variant name, for local enums and known std enums."""
        dv = int(discr_val)
        if adt in self.adts:
            for v in self.adts[adt]['variants']:
                if v['discr'] is not None and int(v['discr']) == dv:
                    return v['name']
            return None
        base = adt.split('<')[0]
        if base in STD_VARIANTS:
            return STD_VARIANTS[base].get(dv)
        return None

    def all_variants(self, adt):
        if adt in self.adts:
            return [v['name'] for v in self.adts[adt]['variants']]
        base = adt.split('<')[0]
        if base in STD_VARIANTS:
            return list(STD_VARIANTS[base].values())
        return []

    def callers(self):
        """node id -> list of (Body, CallSite) over instances (direct calls + fn values)."""
        if self._callers is None:
            c = defaultdict(list)
            for b in self.bodies.values():
                for cs in b.calls:
                    if cs.node is not None:
                        c[cs.node].append((b, cs))
                for (pt, fnj) in b.fn_values:
                    if fnj.get('node') is not None:
                        c[fnj['node']].append((b, None))
            self._callers = c
        return self._callers

    def const_value(self, path_suffix):
        for p, c in self.consts.items():
            if p == path_suffix or p.endswith('::' + path_suffix):
                if c['value'] is not None:
                    return int(c['value'])
        return None


class CallSite:
    __slots__ = ('body', 'block', 'point', 'callee', 'args', 'dest', 'target', 'span', 'exp', 'node', 'name', 'path', 'orig')

    def __init__(self, body, block, point, term):
        self.body = body
        self.block = block
        self.point = point
        self.callee = term['callee']
        self.args = term['args']
        self.dest = term.get('dest')
        self.target = term.get('target')
        self.span = term['span']
        self.exp = term.get('exp')
        self.node = self.callee.get('node')
        self.name = strip_crate(self.callee.get('name', ''))
        self.path = strip_crate(self.callee.get('path', ''))
        self.orig = strip_crate(self.callee.get('orig', ''))

    def __repr__(self):
        return 'Call(%s @%s in %s)' % (self.name, self.span, self.body.path)

    def arg_local(self, i):
        if i < len(self.args):
            return op_local(self.args[i])
        return None

    def dest_local(self):
        if self.dest is not None and not self.dest['p']:
            return self.dest['l']
        return None

    def is_macro(self):
        return bool(self.exp) and self.exp.startswith('Macro')


def op_local(op):
    """Local read by an operand when it is a plain local (no projection)."""
    if op['k'] in ('copy', 'move') and not op['place']['p']:
        return op['place']['l']
    return None


def op_place(op):
    if op['k'] in ('copy', 'move'):
        return op['place']
    return None


def op_const_bits(op):
    if op['k'] == 'const' and 'bits' in op:
        return int(op['bits'])
    return None


def op_const_named(op):
    if op['k'] == 'const':
        return strip_crate(op.get('named'))
    return None


def place_fields(place):
    """List of (adt, fieldname, via_deref) along the projection."""
    out = []
    deref = False
    for e in place['p']:
        if e['k'] == 'deref':
            deref = True
        elif e['k'] == 'field':
            out.append((strip_crate(e.get('adt')), e.get('name') if e.get('name') is not None else str(e['i']), deref))
    return out


def place_str(p):
    s = '_%d' % p['l']
    for e in p['p']:
        k = e['k']
        if k == 'deref':
            s = '(*%s)' % s
        elif k == 'field':
            s = '%s.%s' % (s, e['name'] if e.get('name') else e['i'])
        elif k == 'downcast':
            s = '(%s as %s)' % (s, e['variant'])
        elif k == 'index':
            s = '%s[_%d]' % (s, e['local'])
        else:
            s = '%s.<%s>' % (s, k)
    return s


def place_has_deref(p):
    return any(e['k'] == 'deref' for e in p['p'])


def mem_loc(place):
    """Abstract heap location 'Adt.field' of the LAST adt field reached through a deref, else None."""
    loc = None
    for (adt, name, deref) in place_fields(place):
        if deref and adt:
            loc = '%s.%s' % (adt.split('::')[-1], name)
    return loc


def mem_locs(place):
    return ['%s.%s' % (adt.split('::')[-1], name) for (adt, name, deref) in place_fields(place) if deref and adt]


class Body:
    def __init__(self, j, facts, poly=False):
        self.j = j
        self.facts = facts
        self.poly = poly
        self.id = j['id']
        self.path = strip_crate(j['path'])
        self.name = strip_crate(j['name'])
        self.ret_ty = strip_crate(j['ret_ty'])
        self.arg_count = j['arg_count']
        self.locals = j['locals']
        self.blocks = j['blocks']
        self.is_closure = j['is_closure']
        self.is_test = j['is_test_item']
        self.span = j['span']
        self.parent = strip_crate(j.get('parent') or '')
        self.debug_names = {}
        for n in j['names']:
            if not n['place']['p']:
                self.debug_names.setdefault(n['place']['l'], n['name'])
        self._build()

    def __repr__(self):
        return 'Body(%s)' % self.name

    def local_ty(self, l):
        return strip_crate(self.locals[l]['ty'])

    def generic_dup(self):
        """True for a second instance of the same fn with an identical CFG shape (e.g. the copy of
        append_records instantiated from append_record): rules evaluate the first one only."""
        if self.poly:
            return False
        for o in self.facts.by_path.get(self.path, []):
            if o is self:
                return False
            if len(o.blocks) == len(self.blocks):
                return True
        return False

    # ---------------------------------------------------------------------------------------
    def _build(self):
        nb = len(self.blocks)
        self.live = [not b['cleanup'] for b in self.blocks]
        # block successors with labels
        bsucc = [[] for _ in range(nb)]
        for bi, b in enumerate(self.blocks):
            if not self.live[bi]:
                continue
            t = b['term']
            k = t['k']
            if k == 'goto':
                bsucc[bi].append((t['target'], None))
            elif k == 'switch':
                for (v, tb) in t['targets']:
                    bsucc[bi].append((tb, ('sw', int(v))))
                bsucc[bi].append((t['otherwise'], ('sw', 'otherwise')))
            elif k in ('drop', 'assert'):
                bsucc[bi].append((t['target'], None))
            elif k == 'call':
                if t.get('target') is not None:
                    bsucc[bi].append((t['target'], ('ret',)))
        self.bsucc_raw = bsucc
        self.bsucc = self._thread(bsucc)
        # drop edges to unreachable-only blocks? keep simple.
        # points
        self.pstart = []
        self.pterm = []
        self.points = []
        for bi, b in enumerate(self.blocks):
            self.pstart.append(len(self.points))
            for si in range(len(b['stmts'])):
                self.points.append((bi, si))
            self.pterm.append(len(self.points))
            self.points.append((bi, len(b['stmts'])))
        np_ = len(self.points)
        self.succ = [[] for _ in range(np_)]
        self.pred = [[] for _ in range(np_)]
        for bi, b in enumerate(self.blocks):
            if not self.live[bi]:
                continue
            for p in range(self.pstart[bi], self.pterm[bi]):
                self.succ[p].append((p + 1, None))
                self.pred[p + 1].append(p)
            for (tb, lab) in self.bsucc[bi]:
                q = self.pstart[tb]
                self.succ[self.pterm[bi]].append((q, lab))
                self.pred[q].append(self.pterm[bi])
        self.entry = 0
        self._reach_from_entry = self.reach([self.entry])
        # calls, defs
        self.calls = []
        self.fn_values = []   # (point, fn-json) closures / fn items used as values
        self.defs = defaultdict(list)   # local -> [(point, kind, data)]
        self.stores = []      # (point, place, rvalue) for assigns through deref
        self.mut_borrows = []  # (point, place)
        for bi, b in enumerate(self.blocks):
            if not self.live[bi]:
                continue
            for si, s in enumerate(b['stmts']):
                p = self.pstart[bi] + si
                if s['k'] == 'assign':
                    pl = s['place']
                    rv = s['rv']
                    if place_has_deref(pl):
                        self.stores.append((p, pl, rv))
                    else:
                        self.defs[pl['l']].append((p, 'assign', s))
                    if rv['k'] == 'ref' and rv['mut'] == 'mut':
                        self.mut_borrows.append((p, rv['place']))
                    if rv['k'] == 'rawptr' and 'Mut' in rv['mut']:
                        self.mut_borrows.append((p, rv['place']))
                    for o in rvalue_operands(rv):
                        if o['k'] == 'const' and 'fn' in o:
                            self.fn_values.append((p, o['fn']))
                    if rv['k'] == 'agg' and rv.get('agg') == 'closure':
                        self.fn_values.append((p, rv['fn']))
                elif s['k'] == 'setdiscr':
                    pl = s['place']
                    if place_has_deref(pl):
                        self.stores.append((p, pl, {'k': 'setdiscr'}))
                    else:
                        self.defs[pl['l']].append((p, 'setdiscr', s))
            t = b['term']
            if t['k'] == 'call':
                cs = CallSite(self, bi, self.pterm[bi], t)
                self.calls.append(cs)
                if cs.dest is not None:
                    if place_has_deref(cs.dest):
                        self.stores.append((cs.point, cs.dest, {'k': 'callret', 'call': cs}))
                    else:
                        self.defs[cs.dest['l']].append((cs.point, 'call', cs))
                for a in t['args']:
                    if a['k'] == 'const' and 'fn' in a:
                        self.fn_values.append((cs.point, a['fn']))
                for x in t['callee'].get('extra_nodes', []):
                    # std calls a local From::from on our behalf (Into::into / `?`): may-edge
                    self.fn_values.append((cs.point, {'node': x, 'path': 'From::from', 'name': 'From::from (implicit conversion)'}))
        self.call_at = {cs.point: cs for cs in self.calls}
        self._idom = None

    def _thread(self, bsucc):
        """A-THREAD: redirect predecessor edges that assign a bool constant to the switched temp."""
        out = [list(x) for x in bsucc]
        for mi, mb in enumerate(self.blocks):
            if not self.live[mi]:
                continue
            t = mb['term']
            if t['k'] != 'switch':
                continue
            dl = op_local(t['discr'])
            if dl is None:
                continue
            # trace within M through pure copies / Not
            neg = False
            cur = dl
            ok = True
            for s in reversed(mb['stmts']):
                if s['k'] != 'assign' or s['place']['p']:
                    ok = False
                    break
                rv = s['rv']
                if s['place']['l'] == cur:
                    if rv['k'] == 'use' and op_local(rv['op']) is not None:
                        cur = op_local(rv['op'])
                    elif rv['k'] == 'unop' and rv['op'] == 'Not' and op_local(rv['a']) is not None:
                        cur = op_local(rv['a'])
                        neg = not neg
                    else:
                        ok = False
                        break
                else:
                    # unrelated pure statement: only allow const/use assignments to temps
                    if rv['k'] not in ('use', 'unop', 'discr'):
                        ok = False
                        break
            if not ok:
                continue
            if self.locals[cur]['ty'] != 'bool':
                continue
            for pi, pb in enumerate(self.blocks):
                if not self.live[pi] or pb['term']['k'] != 'goto' or pb['term']['target'] != mi:
                    continue
                # last write to cur in P
                val = None
                for s in reversed(pb['stmts']):
                    if s['k'] == 'assign' and not s['place']['p'] and s['place']['l'] == cur:
                        rv = s['rv']
                        if rv['k'] == 'use':
                            val = op_const_bits(rv['op'])
                        break
                if val is None:
                    continue
                v = (1 - val) if neg else val
                tgt = None
                for (sv, tb) in t['targets']:
                    if int(sv) == v:
                        tgt = tb
                if tgt is None:
                    tgt = t['otherwise']
                out[pi] = [(tgt, ('thread', mi))]
        return out

    # ---------------------------------------------------------------------------------------
    # points
    def pt(self, block, idx=None):
        if idx is None:
            return self.pterm[block]
        return self.pstart[block] + idx

    def point_block(self, p):
        return self.points[p][0]

    def stmt_at(self, p):
        b, i = self.points[p]
        st = self.blocks[b]['stmts']
        if i < len(st):
            return st[i]
        return None

    def term_at(self, p):
        b, i = self.points[p]
        if i == len(self.blocks[b]['stmts']):
            return self.blocks[b]['term']
        return None

    def span_at(self, p):
        s = self.stmt_at(p)
        if s is not None:
            return s.get('span', self.span)
        return self.term_at(p)['span']

    def exp_at(self, p):
        s = self.stmt_at(p)
        if s is not None:
            return s.get('exp')
        return self.term_at(p).get('exp')

    def loc(self, p):
        """file:line (for diagnostics only)."""
        sp = self.span_at(p)
        parts = sp.split(':')
        return ':'.join(parts[:2]) if len(parts) >= 2 else sp

    # ---------------------------------------------------------------------------------------
    # reachability
    def reach(self, srcs, avoid=(), avoid_edges=(), include_src=True, backwards=False):
        """Points reachable from srcs, never entering a point in `avoid` and never taking an
        edge in avoid_edges (pairs of points). Sources themselves are included (even if in avoid)."""
        avoid = set(avoid)
        avoid_edges = set(avoid_edges)
        seen = set()
        dq = deque()
        for s in srcs:
            if s not in seen:
                seen.add(s)
                dq.append(s)
        while dq:
            p = dq.popleft()
            nxt = self.pred[p] if backwards else [q for (q, _) in self.succ[p]]
            for q in nxt:
                e = (q, p) if backwards else (p, q)
                if e in avoid_edges or q in avoid or q in seen:
                    continue
                seen.add(q)
                dq.append(q)
        if not include_src:
            # a source is "reached" only if some path leads back to it
            real = set()
            for s in srcs:
                for (q, _) in self.succ[s]:
                    pass
            return seen
        return seen

    def witness(self, src, dst, avoid=(), avoid_edges=(), after=True):
        """A shortest CFG path src -> dst (not entering `avoid`), rendered as the distinct source
        locations it crosses; [] if none. Used to make path-rule reports diagnosable."""
        avoid = set(avoid)
        avoid_edges = set(avoid_edges)
        parent = {}
        starts = [q for (q, _l) in self.succ[src] if q not in avoid and (src, q) not in avoid_edges] if after else [src]
        dq = deque()
        for q in starts:
            if q not in parent:
                parent[q] = src
                dq.append(q)
        found = dst in parent
        while dq and not found:
            p = dq.popleft()
            for (q, _l) in self.succ[p]:
                if q in parent or q in avoid or (p, q) in avoid_edges:
                    continue
                parent[q] = p
                if q == dst:
                    found = True
                    break
                dq.append(q)
        if not found:
            return []
        path = [dst]
        while path[-1] != src and path[-1] in parent:
            path.append(parent[path[-1]])
            if len(path) > 5000:
                break
        path.reverse()
        locs = []
        for p in path:
            if (self.exp_at(p) or '').startswith('Macro'):
                continue
            l = self.loc(p)
            if not locs or locs[-1] != l:
                locs.append(l)
        return locs

    def reach_after(self, src, avoid=(), avoid_edges=()):
        """Points reachable strictly after src (src itself only if on a cycle)."""
        avoid = set(avoid)
        starts = [q for (q, _) in self.succ[src] if q not in avoid and (src, q) not in set(avoid_edges)]
        if not starts:
            return set()
        return self.reach(starts, avoid, avoid_edges)

    def can_reach(self, src, dst, avoid=(), avoid_edges=()):
        if src == dst:
            return True
        return dst in self.reach([src], avoid, avoid_edges)

    def is_live_point(self, p):
        return p in self._reach_from_entry

    def dominates(self, a, b):
        """Every path entry -> b passes a (a == b counts)."""
        if a == b:
            return True
        if not self.is_live_point(b):
            return True
        return b not in self.reach([self.entry], avoid=[a]) if a != self.entry else True

    def edge_dominates(self, edge, b):
        """Every path entry -> b takes the edge (p, q)."""
        if not self.is_live_point(b):
            return True
        return b not in self.reach([self.entry], avoid_edges=[edge])

    def postdominates_exit(self, a, exits):
        """Every path from entry to any of `exits` passes a."""
        r = self.reach([self.entry], avoid=[a])
        return not any(e in r for e in exits if e != a)

    # ---------------------------------------------------------------------------------------
    # switch / condition helpers
    def switch_edges(self, block):
        """[(label_value, (p_from, p_to))] of the switch terminating `block` (threading ignored)."""
        t = self.blocks[block]['term']
        if t['k'] != 'switch':
            return []
        out = []
        for (v, tb) in t['targets']:
            out.append((int(v), (self.pterm[block], self.pstart[tb])))
        out.append(('otherwise', (self.pterm[block], self.pstart[t['otherwise']])))
        return out

    def local_defs(self, l):
        return self.defs.get(l, [])

    def single_def(self, l):
        d = self.defs.get(l, [])
        if len(d) == 1:
            return d[0]
        return None

    def const_eval(self, op, depth=0):
        """Integer value of operand op when it is a constant or a local computed from constants only
        (`K + 1`, `2 * K`, `K - 1`: unoptimised MIR evaluates these at run time); else None."""
        k = op_const_bits(op)
        if k is not None or depth > 6 or op['k'] not in ('copy', 'move'):
            return k
        pl = op['place']
        d = self.single_def(pl['l'])
        if d is None or d[1] != 'assign' or d[2]['place']['p']:
            return None
        rv = d[2]['rv']
        if pl['p']:
            # `(t).0` of a checked operation
            if len(pl['p']) == 1 and pl['p'][0]['k'] == 'field' and pl['p'][0]['i'] == 0 and rv['k'] == 'binop' and rv['op'].endswith('WithOverflow'):
                pass
            else:
                return None
        if rv['k'] in ('use', 'cast') and not pl['p']:
            return self.const_eval(rv['op'], depth + 1)
        if rv['k'] == 'binop':
            a, b_ = self.const_eval(rv['a'], depth + 1), self.const_eval(rv['b'], depth + 1)
            if a is None or b_ is None:
                return None
            o = rv['op'].replace('WithOverflow', '').replace('Unchecked', '')
            if o == 'Add':
                return a + b_
            if o == 'Sub':
                return a - b_
            if o == 'Mul':
                return a * b_
        return None

    def affine(self, op, depth=0, phi=False):
        """(phi=True: a local assigned on several paths, or by something unreadable, is a leaf ('local', l) instead of
        making the whole form unreadable; call leaves carry the places their arguments borrow.)
        Affine form of operand op: ({leaf: coefficient}, constant), following copies, casts, `+` / `-` (checked or
        not), multiplication by a constant and the integer add/sub methods of std. Leaves are ('param', l),
        ('proj', l, projection) for a field of a local, ('mem', 'Adt.field') for a field behind a reference, and
        ('call', name) for any other call result (opaque: `max`, `min`, a getter ...). None when the value has several
        definitions that disagree or is built by something else (so: not decidable here)."""
        k = op_const_bits(op)
        if k is not None:
            return ({}, k)
        if depth > 12 or op['k'] not in ('copy', 'move'):
            return None
        pl = op['place']
        proj = pl['p']
        checked0 = len(proj) == 1 and proj[0]['k'] == 'field' and proj[0]['i'] == 0
        if proj and any(e['k'] == 'deref' for e in proj):
            m = mem_loc(pl)
            return ({('mem', m): 1}, 0) if m else None
        ds = self.defs.get(pl['l'], [])
        if not ds:
            return ({(('proj', pl['l'], place_str(pl)) if proj else ('param', pl['l'])): 1}, 0)
        if phi and not proj and len(ds) > 1:
            return ({('local', pl['l']): 1}, 0)
        forms = []
        for (p_, kind, data) in ds:
            f = None
            if kind == 'call' and phi and not proj and not re.search(r'::(wrapping_add|saturating_add|checked_add|wrapping_sub|saturating_sub|checked_sub)$', data.name):
                def argplace(a, d_=0):
                    if a['k'] not in ('copy', 'move'):
                        return str(op_const_bits(a))
                    if a['place']['p'] or d_ > 6:
                        return place_str(a['place'])
                    sd = self.single_def(a['place']['l'])
                    if sd and sd[1] == 'assign' and not sd[2]['place']['p']:
                        rv_ = sd[2]['rv']
                        if rv_['k'] == 'ref':
                            inner = rv_['place']
                            if all(e['k'] == 'deref' for e in inner['p']):
                                return argplace({'k': 'copy', 'place': {'l': inner['l'], 'p': []}}, d_ + 1)
                            return place_str(inner)
                        if rv_['k'] in ('use', 'cast') and rv_['op']['k'] in ('copy', 'move'):
                            return argplace(rv_['op'], d_ + 1)
                    return place_str(a['place'])
                f = ({('call', strip_generics(data.name), tuple(argplace(a) for a in data.args)): 1}, 0)
            elif kind == 'call':
                cs = data
                m = re.search(r'::(wrapping_add|saturating_add|checked_add|wrapping_sub|saturating_sub|checked_sub)$', cs.name)
                if m and len(cs.args) == 2 and not proj:
                    a, b_ = self.affine(cs.args[0], depth + 1, phi), self.affine(cs.args[1], depth + 1, phi)
                    if a is not None and b_ is not None:
                        sg = -1 if 'sub' in m.group(1) else 1
                        t = dict(a[0])
                        for (k_, c_) in b_[0].items():
                            t[k_] = t.get(k_, 0) + sg * c_
                        f = ({k_: c_ for (k_, c_) in t.items() if c_}, a[1] + sg * b_[1])
                else:
                    f = ({('call', strip_generics(cs.name) + (place_str(pl)[place_str(pl).find('.'):] if proj and '.' in place_str(pl) else '')): 1}, 0)
            elif kind == 'assign' and not data['place']['p']:
                rv = data['rv']
                if rv['k'] in ('use', 'cast') and not proj:
                    f = self.affine(rv['op'], depth + 1, phi)
                elif rv['k'] == 'binop' and (not proj or (checked0 and rv['op'].endswith('WithOverflow'))):
                    o = rv['op'].replace('WithOverflow', '').replace('Unchecked', '')
                    a, b_ = self.affine(rv['a'], depth + 1, phi), self.affine(rv['b'], depth + 1, phi)
                    if a is not None and b_ is not None:
                        if o in ('Add', 'Sub'):
                            sg = -1 if o == 'Sub' else 1
                            t = dict(a[0])
                            for (k_, c_) in b_[0].items():
                                t[k_] = t.get(k_, 0) + sg * c_
                            f = ({k_: c_ for (k_, c_) in t.items() if c_}, a[1] + sg * b_[1])
                        elif o == 'Mul' and (not a[0] or not b_[0]):
                            (v, c) = (b_, a[1]) if not a[0] else (a, b_[1])
                            f = ({k_: c_ * c for (k_, c_) in v[0].items() if c_ * c}, v[1] * c)
                elif rv['k'] in ('use',) and proj:
                    # a field of a local that is itself a copy of something: follow the copy
                    o_ = rv['op']
                    if o_['k'] in ('copy', 'move'):
                        f = self.affine({'k': 'copy', 'place': {'l': o_['place']['l'], 'p': o_['place']['p'] + proj}}, depth + 1, phi)
            if f is None:
                return ({('local', pl['l']): 1}, 0) if (phi and not proj) else None
            forms.append(f)
        if not forms or any(f != forms[0] for f in forms[1:]):
            return ({('local', pl['l']): 1}, 0) if (phi and not proj) else None
        return forms[0]

    def affine_alts(self, op, depth=0):
        """The alternative affine forms of op when the value is chosen between several (a local assigned on different
        paths: `x.unwrap_or(y)` written out, an if/else): list of forms, or None when one alternative is unreadable."""
        if op['k'] in ('copy', 'move') and not op['place']['p'] and depth < 6:
            ds = self.defs.get(op['place']['l'], [])
            if len(ds) > 1 and all((kind == 'assign' and not data['place']['p'] and data['rv']['k'] in ('use', 'cast')) or kind == 'call' for (_p, kind, data) in ds):
                out = []
                for (_p, kind, data) in ds:
                    if kind == 'call':
                        # `identity(x)` is x; any other call is an opaque leaf
                        if re.search(r'convert::identity(::<.*>)?$', data.name) and len(data.args) == 1:
                            a = self.affine_alts(data.args[0], depth + 1)
                        else:
                            a = [({('call', strip_generics(data.name)): 1}, 0)]
                    else:
                        a = self.affine_alts(data['rv']['op'], depth + 1)
                    if a is None:
                        return None
                    out.extend(x for x in a if x not in out)
                return out
            if len(ds) == 1 and ds[0][1] == 'assign' and not ds[0][2]['place']['p'] and ds[0][2]['rv']['k'] in ('use', 'cast'):
                return self.affine_alts(ds[0][2]['rv']['op'], depth + 1)
        a = self.affine(op)
        return None if a is None else [a]

    def trace_local(self, l, seen=None, through_cast=True):
        """Follow copies/moves (and casts) backwards from local l.
        Returns list of origins: ('param', idx) | ('call', CallSite) | ('rv', point, rvalue) |
        ('place', point, place) for reads of projected places | ('multi', l)."""
        if seen is None:
            seen = set()
        if l in seen:
            return []
        seen.add(l)
        ds = self.defs.get(l, [])
        if not ds:
            if 1 <= l <= self.arg_count:
                return [('param', l)]
            return [('undef', l)]
        out = []
        for (p, kind, data) in ds:
            if kind == 'call':
                out.append(('call', data))
            elif kind == 'assign':
                if data['place']['p']:
                    out.append(('partial', p, data))
                    continue
                rv = data['rv']
                if rv['k'] == 'use' or (through_cast and rv['k'] == 'cast'):
                    o = rv['op']
                    ol = op_local(o)
                    if ol is not None:
                        out.extend(self.trace_local(ol, seen, through_cast))
                    elif o['k'] in ('copy', 'move'):
                        # `(x as V).i` where x was built as `V(.., y_i, ..)` in this body is y_i (aggregate folding;
                        # common after A-DESUGAR / A-INLINE)
                        out.extend(self._trace_projected(o['place'], p, seen, through_cast))
                    else:
                        out.append(('const', p, o))
                else:
                    out.append(('rv', p, rv))
            else:
                out.append(('other', p, data))
        if 1 <= l <= self.arg_count:
            out.append(('param', l))
        return out

    def _trace_projected(self, place, p, seen, through_cast, depth=0):
        """origins of a read of the projected place `place` at point p: folded over the aggregates that built it
        (repeatedly: `((x as Continue).0 as Some).0`), else the place itself"""
        folded = self._fold_projection(place) if depth < 6 else None
        if not folded:
            return [('place', p, place)]
        out = []
        for fo in folded:
            fl_ = op_local(fo)
            if fl_ is not None:
                out.extend(self.trace_local(fl_, seen, through_cast))
            elif fo['k'] == 'const':
                out.append(('const', p, fo))
            else:
                out.extend(self._trace_projected(fo['place'], p, seen, through_cast, depth + 1))
        return out

    def _agg_defs(self, l, depth=0):
        """The aggregates that can be the value of local l, following whole-value moves; a `from_residual` call counts
        as an (opaque) Err/Break value. None when some definition is anything else."""
        ds = self.defs.get(l, [])
        if not ds or depth > 6:
            return None
        out = []
        for d in ds:
            if d[1] == 'call':
                if d[2].name.endswith('::from_residual'):
                    out.append({'k': 'agg', 'variant': 'Err', 'opaque': True, 'ops': []})
                    continue
                return None
            if d[1] != 'assign' or d[2]['place']['p']:
                return None
            rv = d[2]['rv']
            if rv['k'] == 'agg':
                out.append(rv)
            elif rv['k'] == 'use' and op_local(rv['op']) is not None and depth < 6:
                sub = self._agg_defs(op_local(rv['op']), depth + 1)
                if sub is None:
                    return None
                out.extend(sub)
            else:
                return None
        return out

    def _fold_projection(self, pl):
        """operand stored at field i of variant V when place pl = (x as V).i (or x.i for a struct/tuple) and x has a
        single definition that is the matching aggregate; else None"""
        proj = [e for e in pl['p']]
        if not proj or any(e['k'] == 'deref' for e in proj):
            return None
        var = None
        idx = None
        rest = []
        k = 0
        if proj[0]['k'] == 'downcast':
            var = proj[0].get('variant')
            k = 1
        if len(proj) <= k or proj[k]['k'] != 'field':
            return None
        idx = proj[k]['i']
        rest = proj[k + 1:]
        if rest:
            return None
        aggs = self._agg_defs(pl['l'])
        if not aggs:
            return None
        uniq = []
        for a in aggs:
            if not any(a is u for u in uniq):
                uniq.append(a)
        aggs = uniq
        out = []
        for rv in aggs:
            # every definition must be an aggregate; reading `(x as V).i` implies x is a V, so only the
            # V-aggregates can be the source (the others belong to paths on which this read does not happen)
            if var is not None and rv.get('variant') != var:
                continue
            if rv.get('opaque'):
                return None
            if var is None and len(aggs) != 1:
                return None
            ops = rv.get('ops') or []
            if idx >= len(ops):
                return None
            out.append(ops[idx])
        return out or None

    def switch_cond(self, block):
        """Describe what the switch in `block` tests.
        Returns dict(kind=..., ...) with kind in:
          'discr'  place=<place json>, adt=<type str>           (values are discriminants)
          'bool'   origin=<origin list>, neg=bool               (value 0 = false unless neg)
          'int'    origin
        """
        t = self.blocks[block]['term']
        if t['k'] != 'switch':
            return None
        d = t['discr']
        l = op_local(d)
        if l is None:
            pl = op_place(d)
            if pl is not None:
                return {'kind': 'bool' if True else 'int', 'origin': [('place', self.pterm[block], pl)], 'neg': False, 'local': None}
            return {'kind': 'const', 'op': d}
        neg = False
        seen = set()
        cur = l
        while True:
            if cur in seen:
                break
            seen.add(cur)
            ds = self.defs.get(cur, [])
            if len(ds) > 1:
                # a temporary re-assigned in several blocks (duplicated tails after specialisation, loops): the
                # definition that counts is the last one in the block of the switch itself
                here = [d for d in ds if d[1] == 'assign' and self.pstart[block] <= d[0] < self.pterm[block]]
                if here:
                    ds = [max(here, key=lambda d: d[0])]
            if len(ds) != 1:
                break
            (p, kind, data) = ds[0]
            if kind == 'call':
                return {'kind': 'bool', 'origin': [('call', data)], 'neg': neg, 'local': cur, 'ty': self.local_ty(cur)}
            if kind != 'assign' or data['place']['p']:
                break
            rv = data['rv']
            if rv['k'] == 'discr':
                pl = rv['place']
                return {'kind': 'discr', 'place': pl, 'adt': strip_crate(rv.get('adt')), 'ty': strip_crate(rv.get('ty')), 'point': p}
            if rv['k'] == 'use':
                ol = op_local(rv['op'])
                if ol is not None:
                    cur = ol
                    continue
                if rv['op']['k'] in ('copy', 'move'):
                    return {'kind': 'bool', 'origin': [('place', p, rv['op']['place'])], 'neg': neg, 'local': cur, 'ty': self.local_ty(cur)}
                break
            if rv['k'] == 'unop' and rv['op'] == 'Not':
                ol = op_local(rv['a'])
                if ol is not None:
                    neg = not neg
                    cur = ol
                    continue
                break
            if rv['k'] == 'binop':
                return {'kind': 'bool', 'origin': [('rv', p, rv)], 'neg': neg, 'local': cur, 'ty': self.local_ty(cur)}
            break
        return {'kind': 'bool', 'origin': self.trace_local(cur), 'neg': neg, 'local': cur, 'ty': self.local_ty(cur)}

    def place_ty_hint(self, pl):
        """Type string of the *base* ADT the discriminant is read from (best effort)."""
        if not pl['p']:
            return self.local_ty(pl['l'])
        # last field elem carries parent adt, not its own type; fall back to downcast info in succ
        return None

    def bool_edges(self, block):
        """For a switch on a bool-like value: returns (true_edge, false_edge) as point pairs,
        already corrected for negation; None if not a 2-way bool switch."""
        t = self.blocks[block]['term']
        if t['k'] != 'switch':
            return None
        c = self.switch_cond(block)
        if c is None or c['kind'] != 'bool':
            return None
        false_t = None
        for (v, tb) in t['targets']:
            if int(v) == 0:
                false_t = tb
        if false_t is None:
            return None
        true_t = t['otherwise']
        te = (self.pterm[block], self.pstart[true_t])
        fe = (self.pterm[block], self.pstart[false_t])
        if c['neg']:
            te, fe = fe, te
        return te, fe

    def switches_on_call(self, pred):
        """Yield (block, cond, true_edge, false_edge) for bool switches whose origin is a call
        satisfying pred(CallSite)."""
        for bi, b in enumerate(self.blocks):
            if not self.live[bi] or b['term']['k'] != 'switch':
                continue
            c = self.switch_cond(bi)
            if c and c['kind'] == 'bool':
                for o in c['origin']:
                    if o[0] == 'call' and pred(o[1]):
                        e = self.bool_edges(bi)
                        if e:
                            yield (bi, c, e[0], e[1], o[1])

    def discr_switches(self):
        """Yield (block, place, {variant_name_or_int: edge}) for switches on discriminant(place)."""
        for bi, b in enumerate(self.blocks):
            if not self.live[bi] or b['term']['k'] != 'switch':
                continue
            c = self.switch_cond(bi)
            if c and c['kind'] == 'discr':
                pl = c['place']
                adt = c.get('adt') or self.place_adt(pl)
                edges = {}
                named = set()
                for (v, e) in self.switch_edges(bi):
                    name = None
                    if v != 'otherwise' and adt:
                        name = self.facts.variant_by_discr(adt, v)
                    if v == 'otherwise':
                        tb = self.points[e[1]][0]
                        if self.blocks[tb]['term']['k'] == 'unreachable' and not self.blocks[tb]['stmts']:
                            continue
                    if name is not None:
                        named.add(name)
                    edges[name if name is not None else v] = e
                if 'otherwise' in edges and adt:
                    allv = self.facts.all_variants(adt)
                    rest = [v for v in allv if v not in named]
                    if len(rest) == 1:
                        edges[rest[0]] = edges.pop('otherwise')
                yield (bi, pl, adt, edges)

    def place_adt(self, pl):
        """ADT path (with generic args stripped for std) of the value stored at place (best effort)."""
        if not pl['p']:
            ty = self.local_ty(pl['l'])
            ty = re.sub(r'^&(mut )?', '', ty)
            return ty.split('<')[0] if ty.split('<')[0] in STD_VARIANTS else (ty if ty in self.facts.adts else ty.split('<')[0])
        # walk: use the type of the field from ADT tables when possible
        last = None
        for e in pl['p']:
            if e['k'] == 'field':
                last = e
        if last is not None and last.get('adt'):
            adt = strip_crate(last['adt'])
            if adt in self.facts.adts:
                for v in self.facts.adts[adt]['variants']:
                    if last.get('variant') and v['name'] != last['variant']:
                        continue
                    for f in v['fields']:
                        if f['name'] == last['name']:
                            t = strip_crate(f['ty'])
                            return t if t in self.facts.adts else t.split('<')[0]
        # deref only
        if all(e['k'] == 'deref' for e in pl['p']):
            ty = self.local_ty(pl['l'])
            ty = re.sub(r'^&(mut )?', '', ty)
            return ty if ty in self.facts.adts else ty.split('<')[0]
        return None

    # ---------------------------------------------------------------------------------------
    # exits
    def exits(self):
        """Classify assignments to _0. Returns list of dicts:
           {point, kind: ok|err|err_prop|forward|some|none|value, variant?, adt?, call?, ops?}"""
        if hasattr(self, '_exits'):
            return self._exits
        out = []
        seen_locals = set()

        def from_rv(p, rv, depth=0):
            if rv['k'] == 'agg' and rv.get('agg') == 'adt':
                adt = strip_crate(rv['adt'])
                v = rv['variant']
                if adt == 'std::result::Result':
                    if v == 'Ok':
                        out.append({'point': p, 'kind': 'ok', 'ops': rv['ops']})
                    else:
                        info = {'point': p, 'kind': 'err', 'ops': rv['ops'], 'variant': None, 'adt': None}
                        ol = op_local(rv['ops'][0]) if rv['ops'] else None
                        if ol is not None:
                            for o in self.trace_local(ol):
                                if o[0] == 'rv' and o[2]['k'] == 'agg' and o[2].get('agg') == 'adt':
                                    info['variant'] = o[2]['variant']
                                    info['adt'] = strip_crate(o[2]['adt'])
                                    info['inner_ops'] = o[2]['ops']
                                elif o[0] == 'call':
                                    info['via_call'] = o[1]
                        out.append(info)
                elif adt == 'std::option::Option':
                    out.append({'point': p, 'kind': 'some' if v == 'Some' else 'none', 'ops': rv['ops']})
                else:
                    out.append({'point': p, 'kind': 'value', 'rv': rv, 'adt': adt, 'variant': v, 'ops': rv['ops']})
            elif rv['k'] == 'use':
                ol = op_local(rv['op'])
                if ol is not None and ol not in seen_locals and depth < 6:
                    seen_locals.add(ol)
                    for (dp, kind, data) in self.defs.get(ol, []):
                        if kind == 'assign' and not data['place']['p']:
                            from_rv(dp, data['rv'], depth + 1)
                        elif kind == 'call':
                            from_call(dp, data)
                        else:
                            out.append({'point': dp, 'kind': 'value', 'rv': None})
                    if 1 <= ol <= self.arg_count:
                        out.append({'point': p, 'kind': 'value', 'rv': rv})
                else:
                    out.append({'point': p, 'kind': 'value', 'rv': rv})
            else:
                out.append({'point': p, 'kind': 'value', 'rv': rv})

        def residual_origins(cs, depth=0):
            """Calls whose error this from_residual call propagates (through chained `?` of inlined helpers, A-INLINE)."""
            origins = []
            al = cs.arg_local(0)
            if al is None or depth > 6:
                return origins
            def payload_origins(l, depth):
                # error payload `e` of an explicit Err(conv(e)): follow conversions back to `(r as Err).0`
                if l is None or depth > 8:
                    return
                for o4 in self.trace_local(l):
                    if o4[0] == 'call' and len(o4[1].args) >= 1:
                        payload_origins(o4[1].arg_local(len(o4[1].args) - 1), depth + 1)
                    elif o4[0] == 'place':
                        result_origins(o4[2]['l'], depth + 1)
                    elif o4[0] == 'rv' and o4[2]['k'] == 'agg' and o4[2].get('ops'):
                        for oo in o4[2]['ops']:
                            payload_origins(op_local(oo), depth + 1)

            def result_origins(l, depth):
                if depth > 10:
                    return
                for o3 in self.trace_local(l):
                    if o3[0] == 'rv' and o3[2]['k'] == 'agg' and o3[2].get('adt') == 'std::result::Result' and o3[2].get('variant') == 'Err' and o3[2].get('ops'):
                        payload_origins(op_local(o3[2]['ops'][0]), depth + 1)
                        continue
                    if o3[0] == 'call':
                        if 'FromResidual' in o3[1].name and o3[1].name.endswith('::from_residual'):
                            origins.extend(residual_origins(o3[1], depth + 1))
                        else:
                            origins.append(o3[1])
                    elif o3[0] == 'multi':
                        for (dp, kind, data) in self.defs.get(o3[1], []):
                            if kind == 'call':
                                if 'FromResidual' in data.name and data.name.endswith('::from_residual'):
                                    origins.extend(residual_origins(data, depth + 1))
                                else:
                                    origins.append(data)
                    elif not origins:
                        origins.append(o3)
            for o in self.trace_local(al):
                if o[0] == 'call':
                    # the residual was built in place (inlined helper / desugared adaptor, folded by trace_local)
                    if 'FromResidual' in o[1].name and o[1].name.endswith('::from_residual'):
                        origins.extend(residual_origins(o[1], depth + 1))
                    elif not o[1].name.endswith('::branch'):
                        origins.append(o[1])
                    continue
                if o[0] == 'rv' and o[2]['k'] == 'agg' and o[2].get('adt') == 'std::result::Result' and o[2].get('variant') == 'Err' and o[2].get('ops'):
                    payload_origins(op_local(o[2]['ops'][0]), depth + 1)
                    continue
                if o[0] == 'place':
                    base = o[2]['l']
                    for (dp, kind, data) in self.defs.get(base, []):
                        if kind == 'call' and data.name.endswith('::branch'):
                            bl = data.arg_local(0)
                            if bl is not None:
                                result_origins(bl, depth)
                        elif kind == 'assign' and data['rv']['k'] == 'agg' and data['rv'].get('inl_try') and data['rv']['variant'] == 'Break':
                            ol = op_local(data['rv']['ops'][0])
                            if ol is not None:
                                result_origins(ol, depth)
            return origins

        def from_call(p, cs):
            if 'FromResidual' in cs.name and cs.name.endswith('::from_residual'):
                origins = residual_origins(cs)
                calls = [o for o in origins if isinstance(o, CallSite)]
                origin = calls[-1] if calls else (origins[0] if origins else None)
                if not calls:
                    # `helper(..)?` with the helper inlined and its `return Err(E::V)` specialised: the residual is an
                    # error value BUILT here, of the function's own error type (identity conversion): same thing as a
                    # literal `return Err(E::V)`
                    built = []
                    al = cs.arg_local(0)
                    for o in (self.trace_local(al) if al is not None else []):
                        if o[0] == 'rv' and o[2]['k'] == 'agg' and strip_crate(o[2].get('adt') or '') == 'std::result::Result' and o[2].get('variant') == 'Err' and o[2].get('ops'):
                            pl_ = op_local(o[2]['ops'][0])
                            for o2 in (self.trace_local(pl_) if pl_ is not None else []):
                                if o2[0] == 'rv' and o2[2]['k'] == 'agg' and o2[2].get('agg') == 'adt':
                                    built.append((o[2], o2[2]))
                                else:
                                    built.append(None)
                        elif o[0] == 'rv' and o[2]['k'] == 'agg' and o[2].get('variant') in ('Ok', 'Some'):
                            continue        # other definitions of a shared result local: not on the Break path
                        else:
                            built.append(None)
                    m = re.match(r'^std::result::Result<.*, (.*)>$', self.ret_ty or '')
                    ety = m.group(1) if m else None
                    kinds = {(strip_crate(x[1]['adt']), x[1]['variant']) for x in built if x is not None}
                    if built and None not in built and len(kinds) == 1 and ety is not None and strip_crate(built[0][1]['adt']) == strip_crate(ety):
                        out.append({'point': p, 'kind': 'err', 'ops': built[0][0]['ops'], 'variant': built[0][1]['variant'], 'adt': strip_crate(built[0][1]['adt']),
                                    'inner_ops': built[0][1]['ops'], 'residual_call': cs})
                        return
                out.append({'point': p, 'kind': 'err_prop', 'call': origin, 'calls': calls, 'residual_call': cs})
            else:
                out.append({'point': p, 'kind': 'forward', 'call': cs})

        for (p, kind, data) in self.defs.get(0, []):
            n0 = len(out)
            if kind == 'assign':
                if data['place']['p']:
                    out.append({'point': p, 'kind': 'value', 'rv': None})
                else:
                    from_rv(p, data['rv'])
            elif kind == 'call':
                from_call(p, data)
            # `point` is where the returned value was built (the decision); `ret_point` is where it is stored into the
            # return slot (what must have happened "before returning" is asked of this one)
            for e in out[n0:]:
                e['ret_point'] = p
        out = [e for e in out if self.is_live_point(e['point'])]
        self._exits = out
        return out

    def err_exit_origin(self, e):
        """For an explicit `Err(..)` exit: the call whose failure it reports, i.e. the latest call whose
        Err/None edge (through `?` or a match on its result) dominates the exit. None for a free-standing reject."""
        cache = self.__dict__.setdefault('_err_origin', {})
        if e['point'] in cache:
            return cache[e['point']]
        best = None
        for cs in self.calls:
            dl = cs.dest_local()
            if dl is None or cs.name.endswith('::branch') or 'FromResidual' in cs.name:
                continue
            ty = self.local_ty(dl)
            if not (ty.startswith('std::result::Result<') or ty.startswith('std::option::Option<')):
                continue
            re_ = result_edges(self, dl)
            if any(self.edge_dominates(ed, e['point']) for ed in re_['err']):
                if best is None or self.dominates(best.point, cs.point):
                    best = cs
        cache[e['point']] = best
        return best

    def ok_exits(self):
        """Points after which the function returns successfully (Ok / forward / non-Result value)."""
        return [e for e in self.exits() if e['kind'] in ('ok', 'forward', 'value', 'some', 'none')]

    def return_points(self):
        return [self.pterm[bi] for bi, b in enumerate(self.blocks) if self.live[bi] and b['term']['k'] == 'return' and self.is_live_point(self.pterm[bi])]

    # ---------------------------------------------------------------------------------------
    # loops (natural loops on the point graph via back edges wrt dominance)
    def loops(self):
        if hasattr(self, '_loops'):
            return self._loops
        # block level
        nb = len(self.blocks)
        live_blocks = [bi for bi in range(nb) if self.live[bi] and self.is_live_point(self.pstart[bi])]
        dom = self.block_dominators()
        loops = {}
        for bi in live_blocks:
            for (tb, _lab) in self.bsucc[bi]:
                if tb in dom.get(bi, set()):
                    # back edge bi -> tb (header tb)
                    body = {tb}
                    stack = [bi]
                    while stack:
                        x = stack.pop()
                        if x in body:
                            continue
                        body.add(x)
                        for pb in live_blocks:
                            if any(t == x for (t, _l) in self.bsucc[pb]):
                                stack.append(pb)
                    L = loops.setdefault(tb, {'header': tb, 'blocks': set(), 'back_edges': []})
                    L['blocks'] |= body
                    L['back_edges'].append((bi, tb))
        self._loops = list(loops.values())
        for L in self._loops:
            L['exits'] = [(b, t) for b in L['blocks'] for (t, _l) in self.bsucc[b] if t not in L['blocks']]
        return self._loops

    def block_dominators(self):
        if hasattr(self, '_bdom'):
            return self._bdom
        nb = len(self.blocks)
        live = [bi for bi in range(nb) if self.live[bi] and self.is_live_point(self.pstart[bi])]
        preds = defaultdict(list)
        for bi in live:
            for (tb, _l) in self.bsucc[bi]:
                preds[tb].append(bi)
        dom = {bi: set(live) for bi in live}
        dom[0] = {0}
        changed = True
        while changed:
            changed = False
            for bi in live:
                if bi == 0:
                    continue
                ps = [p for p in preds[bi] if p in dom]
                if not ps:
                    continue
                new = set.intersection(*[dom[p] for p in ps]) | {bi}
                if new != dom[bi]:
                    dom[bi] = new
                    changed = True
        self._bdom = dom
        return dom


def rvalue_operands(rv):
    k = rv['k']
    if k in ('use', 'repeat', 'cast'):
        return [rv['op']]
    if k == 'binop':
        return [rv['a'], rv['b']]
    if k == 'unop':
        return [rv['a']]
    if k == 'agg':
        return rv['ops']
    return []


def rvalue_places(rv):
    """Places read by an rvalue (operands + ref/discr places)."""
    out = []
    for o in rvalue_operands(rv):
        if o['k'] in ('copy', 'move'):
            out.append(o['place'])
    if rv['k'] in ('ref', 'rawptr', 'discr'):
        out.append(rv['place'])
    return out


def norm_proj(proj):
    out = []
    for e in proj:
        if e['k'] == 'downcast':
            out.append(('v', e.get('variant')))
        elif e['k'] == 'field':
            out.append(('f', e['name'] if e.get('name') is not None else str(e['i'])))
        elif e['k'] == 'deref':
            out.append(('d',))
        else:
            out.append((e['k'],))
    return tuple(out)


def alias_paths(b, root):
    """local -> set of projection paths (relative to local `root`) the local is a copy/move of."""
    known = {root: {()}}
    changed = True
    while changed:
        changed = False
        for l, ds in b.defs.items():
            for (p, kind, data) in ds:
                if kind != 'assign' or data['place']['p']:
                    continue
                rv = data['rv']
                if rv['k'] not in ('use', 'ref'):
                    continue
                pl = rv['op']['place'] if rv['k'] == 'use' and rv['op']['k'] in ('copy', 'move') else (rv['place'] if rv['k'] == 'ref' else None)
                if pl is None or pl['l'] not in known:
                    continue
                suffix = tuple(x for x in norm_proj(pl['p']) if x != ('d',))
                for base in list(known[pl['l']]):
                    path = base + suffix
                    if path not in known.setdefault(l, set()):
                        known[l].add(path)
                        changed = True
    return known


def result_edges(b, r):
    """Edges on which the Result / Option held by local r (and its whole-value copies) is known to be
    Ok/Some ('ok') or Err/None ('err'): through `?` (Try::branch + switch) or a direct match / if let.
    Also returns the alias maps needed to recognise reads of the success payload."""
    known = alias_paths(b, r)
    out = {'ok': [], 'err': [], 'payload': []}
    for (bj, pl, adt, edges) in b.discr_switches():
        if place_path(known, pl) == [()]:
            for v in ('Ok', 'Some'):
                if v in edges:
                    out['ok'].append(edges[v])
            for v in ('Err', 'None'):
                if v in edges:
                    out['err'].append(edges[v])
    out['payload'].append((known, [(('v', 'Ok'), ('f', '0')), (('v', 'Some'), ('f', '0'))]))
    # `if r.is_err() { .. }` / is_ok / is_some / is_none on a borrow of r
    for (bi, c, te, fe, cs) in b.switches_on_call(lambda c: re.search(r'(Result|Option)::<.*>::(is_err|is_ok|is_some|is_none)$', c.name) is not None):
        al = cs.arg_local(0)
        hit = al in known and () in known.get(al, ())
        if not hit and al is not None:
            for o in b.trace_local(al):
                if o[0] == 'rv' and o[2]['k'] == 'ref' and place_path(known, o[2]['place']) == [()]:
                    hit = True
        if hit:
            if cs.name.endswith('is_err') or cs.name.endswith('is_none'):
                out['err'].append(te)
                out['ok'].append(fe)
            else:
                out['ok'].append(te)
                out['err'].append(fe)
    for c2 in b.calls:
        if c2.name.endswith('::branch') and c2.arg_local(0) in known and () in known.get(c2.arg_local(0), ()) and c2.dest_local() is not None:
            k2 = alias_paths(b, c2.dest_local())
            for (bj, pl, adt, edges) in b.discr_switches():
                if place_path(k2, pl) == [()]:
                    if 'Continue' in edges:
                        out['ok'].append(edges['Continue'])
                    if 'Break' in edges:
                        out['err'].append(edges['Break'])
            out['payload'].append((k2, [(('v', 'Continue'), ('f', '0'))]))
    return out


def ok_bool_edges(b, r):
    """[(true_edge, false_edge)] of the switches that test the bool success payload of the Result held by
    local r -- `if call()? {..}`, `let f = call()?; if f`, `match call() { Ok(f) => f, .. }; if f` alike."""
    re_ = result_edges(b, r)
    out = []
    for bj, blk in enumerate(b.blocks):
        if not b.live[bj] or blk['term']['k'] != 'switch':
            continue
        c = b.switch_cond(bj)
        if c and c['kind'] == 'bool' and any(o[0] == 'place' and reads_ok_payload(re_, o[2]) for o in c['origin']):
            ed = b.bool_edges(bj)
            if ed:
                out.append(ed)
    return out


def reads_ok_payload(res_edges, pl):
    """place pl reads the success payload described by result_edges()"""
    for (known, paths) in res_edges['payload']:
        pp = place_path(known, pl)
        if any(x in paths for x in pp):
            return True
    return False


def place_path(known, pl):
    """Paths (relative to the alias root) denoted by place pl, or []."""
    if pl['l'] not in known:
        return []
    suffix = tuple(x for x in norm_proj(pl['p']) if x != ('d',))
    return [base + suffix for base in known[pl['l']]]


def strip_generics(name):
    out = []
    depth = 0
    for ch in name:
        if ch == '<':
            depth += 1
        elif ch == '>':
            depth -= 1
        elif depth == 0:
            out.append(ch)
    return ''.join(out)


def method_name(name):
    """last path segment of a callee name, generic arguments removed"""
    segs = [x for x in strip_generics(name).split('::') if x and x != ' as ']
    return segs[-1].strip() if segs else name
