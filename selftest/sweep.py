#!/usr/bin/env python3
"""Automatic mutation sweep (checker sensitivity measurement, not a verdict on /repo).

Generates line-level mutants of the library sources of the CURRENT /repo tree:
  DEL   delete a statement line (a call / assignment ending in ';')
  NEG   negate the condition of a single-line `if`
  CMP   weaken/flip one comparison operator on an `if` / `assert` line
Each mutant that still type-checks is analysed by every rule; the result is the kill matrix
(which rules / properties notice it). Undetected mutants are listed for triage.
usage: sweep.py [--jobs N] [--files a.rs,b.rs] [--limit N] [--json out.json]"""
import argparse, json, os, re, shutil, subprocess, sys, tempfile
from concurrent.futures import ThreadPoolExecutor

HERE = os.path.dirname(os.path.abspath(__file__))
VERIF = os.path.dirname(HERE)
REPO = os.environ.get('MRL_REPO', '/repo')
SKIP = ('tests.rs', 'proptests.rs')


def lib_files():
    out = []
    for root, _d, files in os.walk(os.path.join(REPO, 'src')):
        for f in files:
            if f.endswith('.rs') and f not in SKIP:
                out.append(os.path.relpath(os.path.join(root, f), REPO))
    return sorted(out)


def strip_test_mod(lines):
    """indices of lines inside `#[cfg(test)] mod tests { ... }` blocks"""
    skip = set()
    i = 0
    while i < len(lines):
        if lines[i].strip().startswith('#[cfg(test)]'):
            j = i + 1
            if j < len(lines) and re.match(r'\s*(pub\s+)?mod\s+\w+\s*\{', lines[j]):
                depth = 0
                k = j
                while k < len(lines):
                    depth += lines[k].count('{') - lines[k].count('}')
                    skip.add(k)
                    if depth == 0 and k > j:
                        break
                    k += 1
                skip.add(i)
                i = k
            elif j < len(lines):
                # single item under cfg(test): skip until its closing brace / semicolon
                depth = 0
                k = j
                started = False
                while k < len(lines):
                    depth += lines[k].count('{') - lines[k].count('}')
                    if '{' in lines[k]:
                        started = True
                    skip.add(k)
                    if (started and depth == 0) or (not started and lines[k].rstrip().endswith(';')):
                        break
                    k += 1
                skip.add(i)
                i = k
        i += 1
    return skip


def gen_mutants(files):
    muts = []
    for f in files:
        lines = open(os.path.join(REPO, f)).read().split('\n')
        skip = strip_test_mod(lines)
        for i, ln in enumerate(lines):
            if i in skip:
                continue
            st = ln.strip()
            if not st or st.startswith('//') or st.startswith('#[') or st.startswith('use ') or st.startswith('debug!') or st.startswith('info!') or st.startswith('warn!') or st.startswith('error!'):
                continue
            # DEL: full statement on one line
            if st.endswith(';') and '(' in st and not st.startswith(('let ', 'return', 'pub ', 'const ', 'type ', 'fn ', 'break', 'continue', 'assert')) and st.count('(') == st.count(')'):
                muts.append((f, i, 'DEL', ln, None))
            if re.match(r'^(self\.)?[\w\.]+\s*(\+=|-=|=)\s*[^=].*;$', st) and not st.startswith('let '):
                muts.append((f, i, 'DEL', ln, None))
            # NEG
            m = re.match(r'^(\s*)(\}?\s*else\s+)?if (.+) \{$', ln)
            if m and ' let ' not in ' ' + m.group(3) and not m.group(3).startswith('let '):
                cond = m.group(3)
                muts.append((f, i, 'NEG', ln, '%s%sif !(%s) {' % (m.group(1), m.group(2) or '', cond)))
                # CMP
                for (a, b) in ((' < ', ' <= '), (' <= ', ' < '), (' > ', ' >= '), (' >= ', ' > '), (' == ', ' != '), (' != ', ' == ')):
                    if a in cond:
                        muts.append((f, i, 'CMP' + a.strip() + '→' + b.strip(), ln, ln.replace(a, b, 1)))
                        break
            if st.startswith('assert!(') or st.startswith('assert_eq!('):
                muts.append((f, i, 'DEL', ln, None))
    # dedupe
    seen = set()
    out = []
    for m in muts:
        k = (m[0], m[1], m[2])
        if k not in seen:
            seen.add(k)
            out.append(m)
    return out


def run_one(m, workroot):
    (f, i, kind, old, new) = m
    w = tempfile.mkdtemp(prefix='sw.', dir=workroot)
    try:
        src = os.path.join(REPO, f)
        lines = open(src).read().split('\n')
        if new is None:
            lines[i] = ''
        else:
            lines[i] = new
        # scratch copy via scratch.sh with no patch, then overwrite the file
        p = subprocess.run(['bash', '-c', 'set -e; mkdir -p "$1/repo"; (cd "$2" && tar cf - --exclude=./target --exclude=./.git .) | (cd "$1/repo" && tar xf -)', '_', w, REPO], capture_output=True, text=True)
        open(os.path.join(w, 'repo', f), 'w').write('\n'.join(lines))
        q = subprocess.run([os.path.join(VERIF, 'driver', 'run.sh'), os.path.join(w, 'repo'), os.path.join(w, 'facts'), 'sweep', 'lib'], capture_output=True, text=True)
        facts = os.path.join(w, 'facts', 'mrecordlog.facts.json')
        if q.returncode != 0 or not os.path.exists(facts):
            return {'status': 'no-compile'}
        r = subprocess.run([sys.executable, os.path.join(VERIF, 'checker', 'runall.py'), facts], capture_output=True, text=True)
        if r.returncode != 0:
            return {'status': 'engine-failed', 'log': r.stderr[-500:]}
        j = json.loads(r.stdout)
        return {'status': 'analysed', 'rules': sorted(j['violated']), 'missing': [x.split(' ')[0] for x in j['missing']], 'props': j['props_failed']}
    finally:
        shutil.rmtree(w, ignore_errors=True)


def main():
    ap = argparse.ArgumentParser()
    ap.add_argument('--jobs', type=int, default=12)
    ap.add_argument('--files', default='')
    ap.add_argument('--limit', type=int, default=0)
    ap.add_argument('--json', default='')
    ap.add_argument('--workroot', default=os.path.join(VERIF, '.work'))
    a = ap.parse_args()
    os.makedirs(a.workroot, exist_ok=True)
    files = [x for x in a.files.split(',') if x] or lib_files()
    muts = gen_mutants(files)
    if a.limit:
        muts = muts[:a.limit]
    print('%d mutants over %d files' % (len(muts), len(files)), flush=True)
    res = []
    with ThreadPoolExecutor(max_workers=a.jobs) as ex:
        futs = [(m, ex.submit(run_one, m, a.workroot)) for m in muts]
        for m, fu in futs:
            r = fu.result()
            (f, i, kind, old, new) = m
            src_lines = open(os.path.join(REPO, f)).read().split('\n')
            occ = sum(1 for ln in src_lines[:i] if ln.strip() == old.strip())
            rec = {'file': f, 'line': i + 1, 'op': kind, 'old': old.strip(), 'occ': occ, 'new': (new or '').strip(), **r}
            res.append(rec)
            tag = {'no-compile': 'nocompile', 'engine-failed': 'ENGINE'}.get(r['status'], 'KILLED' if (r.get('rules') or r.get('missing')) else 'alive')
            print('%-9s %s:%d %-8s %s   %s' % (tag, f, i + 1, kind, old.strip()[:70], ','.join(r.get('rules', []) + ['?' + x for x in r.get('missing', [])])), flush=True)
    ana = [r for r in res if r['status'] == 'analysed']
    killed = [r for r in ana if r['rules'] or r['missing']]
    print('summary: %d generated, %d compile, %d killed (%.0f%%), %d alive' % (len(res), len(ana), len(killed), 100.0 * len(killed) / max(1, len(ana)), len(ana) - len(killed)))
    if a.json:
        json.dump(res, open(a.json, 'w'), indent=1)


if __name__ == '__main__':
    main()
