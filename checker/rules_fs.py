"""Group FS (§5.6): the directory belongs to wal-<20 digits> files."""
import re

from core import method_name, op_local, op_const_bits, op_const_named, place_fields, strip_crate, alias_paths, place_path, mem_loc
from engine import rule
from flow import flow_of
from effects import PATH_TAKING
from vocab import where
from rules_gc import name_builders, cmp_bounds, built_paths

PATH_ARG = {'std::fs::OpenOptions::open': 1}


def path_prim_sites(ctx, facts=None, include_poly=True):
    f = facts or ctx.f
    out = []
    seen = set()
    bodies = list(f.bodies.values()) + (f.poly if include_poly else [])
    for b in bodies:
        if b.is_test:
            continue
        for (p, e, cs) in ctx.E.direct_sites(b) if f is ctx.f and not b.poly else direct_sites_poly(ctx, b):
            if e in ('UNLINK', 'CREATE', 'OPENRW', 'OPENRO', 'SCAN', 'PERM'):
                k = (b.path, cs.span, e)
                if k in seen:
                    continue
                seen.add(k)
                out.append((b, cs, e))
    return out


def direct_sites_poly(ctx, b):
    from effects import Effects
    if not hasattr(ctx, '_poly_eff'):
        ctx._poly_eff = Effects(b.facts)
    return ctx._poly_eff.direct_sites(b)


def path_arg(cs):
    base = cs.name.split('::<')[0]
    i = PATH_ARG.get(base, 0)
    return cs.args[i] if i < len(cs.args) else None


@rule('FS1', ['C17'], floor=5, template='inventory+provenance')
def fs1(ctx):
    """Every path handed to a creating / opening / removing / scanning primitive is built by the
    name builder from a tracked number (or is the WAL directory itself for read-only open / scan)."""
    nb_paths = {b.path for b in name_builders(ctx)}
    if not nb_paths:
        ctx.missing('name-builder', 'no name builder (Path::join(dir, FileNumber::filename())) found')
    n = 0
    seen = {}
    for (b, cs, e) in path_prim_sites(ctx):
        if b.poly and ctx.f.by_path.get(b.path):
            continue   # analysed as an instance
        n += 1
        fl = flow_of(b)
        a = path_arg(cs)
        back = fl.backward(set(fl.op_nodes(a))) if a is not None else set()
        from_builder = any(vals & back for (vals, _b2, _c) in built_paths(ctx, b))
        dir_itself = ('m', 'Directory.dir') in back or any(('l', i) in back and b.local_ty(i) in ('&std::path::Path', '&std::path::PathBuf') for i in range(1, b.arg_count + 1))
        joined = any(c.name.startswith('std::path::Path::join') and any(x in back for x in fl.call_result_nodes(c)) for c in b.calls)
        if e in ('OPENRO', 'SCAN'):
            ok = from_builder or (dir_itself and not joined)
        else:
            ok = from_builder
        k = '%s:%s:%s' % (b.path, e, method_name(cs.name))
        seen[k] = seen.get(k, 0) + 1
        ctx.check(ok, '%s#%d' % (k, seen[k]), where(b, cs.point), '%s path = %s' % (e, 'name builder(tracked file number)' if from_builder else 'the WAL directory itself'),
                  'a %s primitive (%s) receives a path that is not built by the WAL name builder from a tracked file number: the library could create, open or delete a foreign file' % (e, method_name(cs.name)))
    if n == 0:
        ctx.missing('sites', 'no path-taking fs primitive found')


def filename_template(ctx):
    for fa in ctx.f.j['format_args']:
        if fa['path'][-1:] == ['filename'] and any('FileNumber' in x for x in fa['path']):
            return fa
    return None


def name_readers(ctx):
    """fn(&str) -> Option<u64> called by the SCAN body."""
    out = []
    for b in ctx.f.bodies.values():
        if b.ret_ty == 'std::option::Option<u64>' and b.arg_count == 1 and b.local_ty(1) == '&str' and b.path.startswith('rolling::'):
            out.append(b)
    return out


def const_text(op):
    if op['k'] == 'const':
        for t in [op.get('text', '')] + list(op.get('promoted_texts', [])):
            m = re.match(r'^(?:const )?"(.*)"$', t)
            if m:
                return m.group(1)
    return None



def _digit_pred_fn(ctx, b, point):
    """the fn value used at `point` is u8/char::is_ascii_digit, or a closure that just forwards to it"""
    blk = b.points[point][0]
    for (p, fj) in b.fn_values:
        if not (b.pstart[blk] <= p <= point):
            continue
        if 'is_ascii_digit' in strip_crate(fj.get('name', '')):
            return True
        node = fj.get('node')
        cb = ctx.f.bodies.get(node) if node is not None and not b.poly else None
        if cb is not None and cb.is_closure:
            ex = cb.exits()
            if ex and all(e['kind'] == 'forward' and e.get('call') is not None and 'is_ascii_digit' in e['call'].name for e in ex):
                return True
    return False


def _not_digit_pred_fn(ctx, b, point):
    """the closure used at `point` answers `!x.is_ascii_digit()` and nothing else"""
    blk = b.points[point][0]
    for (p, fj) in b.fn_values:
        if not (b.pstart[blk] <= p <= point):
            continue
        node = fj.get('node')
        cb = ctx.f.bodies.get(node) if node is not None and not b.poly else None
        if cb is None or not cb.is_closure:
            continue
        digs = [cs for cs in cb.calls if 'is_ascii_digit' in cs.name]
        if len(digs) != 1 or len([cs for cs in cb.calls]) != 1:
            continue
        defs0 = cb.defs.get(0, [])
        if len(defs0) == 1 and defs0[0][1] == 'assign' and defs0[0][2]['rv']['k'] == 'unop' and defs0[0][2]['rv']['op'] == 'Not':
            ol = op_local(defs0[0][2]['rv']['a'])
            if ol is not None and any(o[0] == 'call' and o[1] is digs[0] for o in cb.trace_local(ol)):
                return True
    return False


def digit_gate_edges(ctx, b):
    """Edges of the parser body on which every byte of the candidate number is known to be an ASCII digit:
    the true edge of `iter.all(is_ascii_digit)` (fn item or forwarding closure), or the exhausted edge of an
    explicit loop that leaves for good at the first non-digit."""
    out = []
    for (bi, c, te, fe, cs) in b.switches_on_call(lambda c: 'Iterator>::all' in c.name):
        if _digit_pred_fn(ctx, b, cs.point):
            out.append(te)
    # `iter.any(|b| !b.is_ascii_digit())`: all digits on its FALSE edge
    for (bi, c, te, fe, cs) in b.switches_on_call(lambda c: 'Iterator>::any' in c.name):
        if _not_digit_pred_fn(ctx, b, cs.point):
            out.append(fe)
    for L in b.loops():
        nxt = [cs for cs in b.calls if cs.block in L['blocks'] and re.search(r'Iterator>::next$', cs.name) and re.search(r'str::Bytes|str::Chars|slice::Iter<\'_, u8>|iter::Copied<std::slice::Iter<\'_, u8>>', cs.name)]
        dig = [(bi, c, te, fe, cs) for (bi, c, te, fe, cs) in b.switches_on_call(lambda c: 'is_ascii_digit' in c.name) if cs.block in L['blocks']]
        if not nxt or not dig:
            continue
        for n_ in nxt:
            dl = n_.dest_local()
            if dl is None:
                continue
            known = alias_paths(b, dl)
            for (bj, pl, adt, edges) in b.discr_switches():
                if place_path(known, pl) == [()] and 'Some' in edges and 'None' in edges:
                    # every way round the loop passes the true edge of the digit test; the false edge never comes back
                    round_without = n_.point in b.reach([edges['Some'][1]], avoid_edges=[d[2] for d in dig])
                    false_back = any(n_.point in b.reach([d[3][1]]) for d in dig)
                    if not round_without and not false_back:
                        out.append(('loop', edges['None'], [d[3] for d in dig]))
    return out


def digit_gate_holds(ctx, b, tgt):
    for g in digit_gate_edges(ctx, b):
        if isinstance(g, tuple) and g and g[0] == 'loop':
            _k, none_edge, false_edges = g
            if b.edge_dominates(none_edge, tgt) and not any(tgt in b.reach([fe[1]]) for fe in false_edges):
                return True
        elif b.edge_dominates(g, tgt):
            return True
    return False


def parser_facts(ctx, b):
    """What the file-name parser checks, recognising the equivalent idioms:
       prefix: starts_with(P) | strip_prefix(P) | <prefix slice> == P ; digits start: [I..] | split_at(I) | strip_prefix."""
    fl = flow_of(b)
    out = {'P': None, 'I': set(), 'L': None, 'prefix_edges': [], 'slices': []}
    for bi, blk in enumerate(b.blocks):
        if b.live[bi] and blk['term']['k'] == 'switch':
            cb = cmp_bounds(b, bi)
            if cb:
                x, bounds, o = cb
                back = fl.backward(set(fl.op_nodes(x)))
                lens = [c for c in b.calls if ('str>::len' in c.name) and any(nn in back for nn in fl.call_result_nodes(c))]
                if lens and o[2]['op'] in ('Ne', 'Eq'):
                    out['L'] = op_const_bits(o[2]['b']) if op_const_bits(o[2]['b']) is not None else op_const_bits(o[2]['a'])
                    out['_len_call'] = lens[0]

    def arg_text(cs, i):
        if i >= len(cs.args):
            return None
        t = const_text(cs.args[i])
        if t is None:
            al = cs.arg_local(i)
            if al is not None:
                for o in b.trace_local(al):
                    if o[0] == 'const':
                        t = const_text(o[2])
                    if o[0] == 'rv' and o[2]['k'] == 'ref':
                        pass
        return t
    def stripped_by(l, depth=0, seen=None):
        """number of leading bytes already removed from the &str held in local l (strip_prefix(P) / [k..] / split_at(k).1),
        0 for the name itself, None if unknown"""
        seen = seen if seen is not None else set()
        if l is None or l in seen or depth > 8:
            return None
        seen.add(l)
        tot = None
        for o in b.trace_local(l):
            if o[0] == 'param':
                tot = 0 if tot is None else tot
            elif o[0] == 'call' and 'strip_prefix' in o[1].name:
                t_ = arg_text(o[1], 1)
                inner = stripped_by(o[1].arg_local(0), depth + 1, seen)
                if t_ is not None and inner is not None:
                    tot = inner + len(t_)
            elif o[0] == 'place':
                inner = stripped_by(o[2]['l'], depth + 1, seen)
                if inner is not None:
                    tot = inner
            elif o[0] == 'rv' and o[2]['k'] == 'ref' and all(e['k'] == 'deref' for e in o[2]['place']['p']):
                inner = stripped_by(o[2]['place']['l'], depth + 1, seen)
                if inner is not None:
                    tot = inner
            elif o[0] == 'call' and o[1].name.endswith('::branch'):
                inner = stripped_by(o[1].arg_local(0), depth + 1, seen)
                if inner is not None:
                    tot = inner
        return tot
    for (bi, c, te, fe, cs) in b.switches_on_call(lambda c: 'starts_with' in c.name):
        out['P'] = arg_text(cs, 1)
        out['prefix_edges'].append(te)
    for cs in b.calls:
        if 'strip_prefix' in cs.name and cs.dest_local() is not None:
            out['P'] = arg_text(cs, 1)
            if out['P'] is not None:
                out['I'].add(len(out['P']))
            known = alias_paths(b, cs.dest_local())
            for (bj, pl, adt, edges) in b.discr_switches():
                if place_path(known, pl) == [()] and 'Some' in edges:
                    out['prefix_edges'].append(edges['Some'])
            for c2 in b.calls:   # `strip_prefix(..)?`
                if c2.name.endswith('::branch') and c2.arg_local(0) in known:
                    k2 = alias_paths(b, c2.dest_local())
                    for (bj, pl, adt, edges) in b.discr_switches():
                        if place_path(k2, pl) == [()] and 'Continue' in edges:
                            out['prefix_edges'].append(edges['Continue'])
    for (bi, c, te, fe, cs) in b.switches_on_call(lambda c: re.search(r'PartialEq.*>::(eq|ne)$', c.name) is not None and 'str' in c.name):
        for i in (0, 1):
            t = arg_text(cs, i)
            if t is None:
                # &&str promoted constant: look through one more reference
                al = cs.arg_local(i)
                if al is not None:
                    for o in b.trace_local(al):
                        if o[0] == 'rv' and o[2]['k'] == 'ref' and all(e['k'] == 'deref' for e in o[2]['place']['p']):
                            for o2 in b.trace_local(o[2]['place']['l']):
                                if o2[0] == 'const':
                                    t = const_text(o2[2])
            if t is not None:
                out['P'] = t
                out['prefix_edges'].append(fe if cs.name.endswith('::ne') else te)
    # a length required of the REST of the name (after strip_prefix) is a length of the name minus what was stripped
    if out.get('_len_call') is not None and out['L'] is not None:
        off = stripped_by(out['_len_call'].arg_local(0))
        if off:
            out['L'] += off
    for bi, blk in enumerate(b.blocks):
        if not b.live[bi]:
            continue
        for st in blk['stmts']:
            if st['k'] == 'assign' and st['rv']['k'] == 'agg' and st['rv'].get('agg') == 'adt' and re.search(r'ops::Range(From|To)?$', st['rv']['adt']):
                for nm, o in zip(st['rv'].get('fields', []), st['rv']['ops']):
                    v = op_const_bits(o)
                    if v is not None and nm == 'start':
                        out['I'].add(v)
    for cs in b.calls:
        if re.search(r'str>::split_at(_mut)?$', cs.name) and len(cs.args) > 1:
            if op_const_bits(cs.args[1]) is not None:
                out['I'].add(op_const_bits(cs.args[1]))
            else:
                # `split_at(PREFIX.len())`: the length of a &str constant
                al = cs.arg_local(1)
                for o in (b.trace_local(al) if al is not None else []):
                    if o[0] == 'call' and o[1].name.endswith('str>::len') and o[1].args:
                        t_ = const_text(o[1].args[0])
                        if t_ is None and o[1].arg_local(0) is not None:
                            for o2 in b.trace_local(o[1].arg_local(0)):
                                if o2[0] == 'const':
                                    t_ = const_text(o2[2])
                        if t_ is not None:
                            out['I'].add(len(t_))
            out['slices'].append(cs)     # panics off a char boundary whatever the index is
        if re.search(r'ops::Index(Mut)?<.*> for str>::index(_mut)?$', cs.name) or re.search(r'str::traits::<impl std::ops::Index', cs.name):
            out['slices'].append(cs)
    return out


@rule('FS2', ['C17', 'C01'], floor=6, template='sibling-agreement')
def fs2(ctx):
    """The file-name writer (format template) and the file-name reader (parser) agree."""
    fa = filename_template(ctx)
    rd = name_readers(ctx)
    if fa is None or not rd:
        ctx.missing('writer/reader', 'FileNumber::filename template or the name parser not found')
        return
    pieces = fa['pieces']
    lits = [p['lit'] for p in pieces if 'lit' in p]
    phs = [p for p in pieces if 'trait' in p]
    shape = len(pieces) == 2 and 'lit' in pieces[0] and 'trait' in pieces[1]
    ctx.check(shape, 'template-shape', fa['span'], 'template = literal prefix + one placeholder', 'the file-name template is no longer <prefix><number> (%s)' % pieces, nontrivial=False)
    if not shape:
        return
    P = lits[0]
    ph = phs[0]
    W = ph['width']
    b = rd[0]
    fl = flow_of(b)
    pf = parser_facts(ctx, b)
    L, Pp, I = pf['L'], pf['P'], pf['I']
    digits = bool(digit_gate_edges(ctx, b))
    parse_ty = None
    for cs in b.calls:
        m = re.match(r'^core::str::<impl str>::parse::<(\w+)>$', cs.name)
        if m:
            parse_ty = m.group(1)
    fn_adt = ctx.f.adts.get('rolling::file_number::FileNumber')
    fmt_ty = None
    if fn_adt:
        m = re.search(r'Arc<(\w+)>', fn_adt['variants'][0]['fields'][0]['ty'])
        fmt_ty = m.group(1) if m else None
    ctx.check(Pp == P, 'prefix', b.span, 'prefix written "%s" = prefix required by the parser' % P, 'file-name prefix differs: written "%s", parsed "%s"' % (P, Pp))
    ctx.check(I == {len(P)}, 'digits-start', b.span, 'the parser reads digits from offset %d = |prefix|' % len(P), 'the parser slices digits at %s but the prefix is %d bytes long' % (sorted(I), len(P)))
    ctx.check(isinstance(W, int) and L == len(P) + W, 'length', b.span, 'required length %s = |prefix| + width %s' % (L, W), 'name length required by the parser (%s) != |prefix| + formatted width (%s + %s): the library would not recognise the files it creates' % (L, len(P), W))
    ctx.check(ph['zero_pad'] and ph['trait'] == 'Display' and ph['fill'] in (None, '0') and ph['precision'] is None, 'zero-pad', fa['span'], 'number formatted with zero padding ({:0W})', 'the file number is not zero-padded Display: names would contain spaces or another radix and be rejected by the digit test')
    ctx.check(isinstance(W, int) and W >= 20, 'width-fits-u64', fa['span'], 'width %s >= 20 digits of u64::MAX' % W, 'format width %s < 20: large file numbers produce longer names than the parser accepts' % W)
    ctx.check(parse_ty is not None and parse_ty == fmt_ty and digits, 'parse-type', b.span, 'parser requires ASCII digits and parses %s, the formatted type' % parse_ty, 'parser/formatter type mismatch or missing digit test (parse %s, formatted %s, digit test %s)' % (parse_ty, fmt_ty, digits))


def scan_bodies(ctx):
    return [b for b in ctx.f.bodies.values() if any(e == 'SCAN' for (p, e, cs) in ctx.E.direct_sites(b))]


def number_pushes(b):
    """Where the scan adds a file number to its list: Vec::<u64>::push(n), or extend(opt) with an Option<u64>
    (which adds exactly the Some values). [(CallSite, is_option_extend)]"""
    out = []
    for cs in b.calls:
        if re.search(r'Vec::<u64>::push$', cs.name):
            out.append((cs, False))
        elif re.search(r'Extend<u64>>::extend::<std::option::Option<u64>>$', cs.name):
            out.append((cs, True))
    return out


@rule('FS3', ['C17'], floor=2, template='guard-dominates-use')
def fs3(ctx):
    """The directory scan admits only regular files whose name the parser accepts."""
    rds = {b.id for b in name_readers(ctx)}
    n = 0
    for b in scan_bodies(ctx):
        fl = flow_of(b)
        opt_ext = {cs.point for (cs, is_opt) in number_pushes(b) if is_opt}
        pushes = [cs for (cs, _o) in number_pushes(b)]
        for ps in pushes:
            n += 1
            # regular file
            g1 = False
            # regular-file test on the entry itself (lstat semantics): DirEntry::file_type().is_file() or
            # DirEntry::metadata().is_file(); Path::is_file / fs::metadata(path) follow symlinks and do not count
            for (bi, c, te, fe, cs) in b.switches_on_call(lambda c: c.name in ('std::fs::FileType::is_file', 'std::fs::Metadata::is_file')):
                back = fl.backward(set(fl.op_nodes(cs.args[0])))
                from_ft = any(c2.name in ('std::fs::DirEntry::file_type', 'std::fs::DirEntry::metadata') and any(x in back for x in fl.call_result_nodes(c2)) for c2 in b.calls)
                if from_ft and b.edge_dominates(te, ps.point):
                    g1 = True
            g2 = False
            val_ok = False
            for c2 in b.calls:
                if c2.node in rds:
                    known = alias_paths(b, c2.dest_local())
                    back = fl.backward(set(fl.op_nodes(c2.args[0])))
                    from_name = any(c3.name == 'std::fs::DirEntry::file_name' and any(x in back for x in fl.call_result_nodes(c3)) for c3 in b.calls)
                    for (bj, pl, adt, edges) in b.discr_switches():
                        if place_path(known, pl) == [()] and 'Some' in edges and b.edge_dominates(edges['Some'], ps.point) and from_name:
                            g2 = True
                    # extend(parser(name)): only a Some is added, by construction
                    if ps.point in opt_ext and from_name and len(ps.args) > 1 and op_local(ps.args[1]) in known and () in known.get(op_local(ps.args[1]), ()):
                        g2 = True
                    t = fl.forward(set(fl.call_result_nodes(c2)))
                    if len(ps.args) > 1 and fl.op_tainted(ps.args[1], t):
                        val_ok = True
            ctx.check(g1, '%s:regular-file' % b.path, where(b, ps.point), 'push dominated by file_type()?.is_file()', 'the scan can admit a directory entry that is not a regular file (a sub-directory or symlink named like a WAL file)')
            ctx.check(g2 and val_ok, '%s:parsed-name' % b.path, where(b, ps.point), 'push dominated by the Some edge of the name parser on this entry\'s file_name, and pushes the parsed number', 'the scan can admit an entry whose name the parser did not accept')
    if n == 0:
        ctx.missing('scan-push', 'no push of a file number in the scan body')


@rule('FS4', ['C17'], floor=4, template='guard-dominates-exit')
def fs4(ctx):
    """The name parser gates length, prefix and ASCII digits before parsing."""
    rd = name_readers(ctx)
    if not rd:
        ctx.missing('parser', 'name parser not found')
        return
    b = rd[0]
    fl = flow_of(b)
    exits = [e for e in b.exits() if e['kind'] not in ('none',)]
    # exits that are not a literal None: forward of Result::ok(parse)
    fw = [e for e in exits if e['kind'] == 'forward']
    # `?` on an Option propagates None: not a number
    other = [e for e in exits if e['kind'] not in ('forward',) and not (e['kind'] == 'err_prop' and 'std::option::Option<' in e['residual_call'].name.split(' as ')[0])]
    ok_forward = len(fw) == 1 and not other and re.search(r'Result::<u64, .*>::ok$', fw[0]['call'].name) is not None
    if ok_forward:
        back = fl.backward(set(fl.op_nodes(fw[0]['call'].args[0])))
        ok_forward = any(re.match(r'^core::str::<impl str>::parse::<u64>$', c.name) and any(x in back for x in fl.call_result_nodes(c)) for c in b.calls)
    tgt = fw[0]['point'] if fw else None
    if not ok_forward:
        # `.ok()` written out (A-DESUGAR) or a `match parse() { Ok(n) => Some(n), Err(_) => None }`: every Some(..)
        # exit carries the Ok payload of parse::<u64>()
        somes = [e for e in exits if e['kind'] == 'some']
        rest = [e for e in exits if e['kind'] not in ('some',) and not (e['kind'] == 'err_prop' and 'std::option::Option<' in e['residual_call'].name.split(' as ')[0])]
        parses = [c for c in b.calls if re.match(r'^core::str::<impl str>::parse::<u64>$', c.name)]
        if somes and not rest and parses:
            t_p = set()
            for c in parses:
                t_p |= fl.forward(set(fl.call_result_nodes(c)))
            if all(e['ops'] and fl.op_tainted(e['ops'][0], t_p) for e in somes):
                ok_forward = True
                tgt = parses[0].point
    ctx.check(ok_forward, 'only-parse-result', b.span, 'the only non-None result is parse::<u64>().ok()', 'the name parser can return a number that is not the parse result (exits: %s)' % [e['kind'] for e in exits])
    if tgt is None:
        return
    g_len = False
    for bi, blk in enumerate(b.blocks):
        if b.live[bi] and blk['term']['k'] == 'switch':
            cb = cmp_bounds(b, bi)
            if cb:
                x, bounds, o = cb
                for e, (lo, hi) in bounds.items():
                    if lo == hi and b.edge_dominates(e, tgt):
                        back = fl.backward(set(fl.op_nodes(x)))
                        if any('str>::len' in c.name and any(nn in back for nn in fl.call_result_nodes(c)) for c in b.calls):
                            g_len = True
    pf = parser_facts(ctx, b)
    g_pre = any(b.edge_dominates(e, tgt) for e in pf['prefix_edges'])
    g_dig = digit_gate_holds(ctx, b, tgt)
    # the digit test covers the same slice that is parsed
    ctx.check(g_len, 'gate:length', b.span, 'parse dominated by `len == L`', 'the parser accepts names of any length')
    ctx.check(g_pre, 'gate:prefix', b.span, 'parse dominated by starts_with(prefix)', 'the parser no longer requires the WAL prefix')
    ctx.check(g_dig, 'gate:digits', b.span, 'parse dominated by all(is_ascii_digit)', 'the parser no longer requires ASCII digits (e.g. "+123" parses as u64): foreign files could be taken for WAL files')


@rule('FS5', ['C10', 'C17'], floor=1, template='guard-dominates-use')
def fs5(ctx):
    """Byte-offset slicing of a candidate file name is guarded by the prefix test (which proves the
    offset is a char boundary): arbitrary directory entries must not make open panic."""
    rd = name_readers(ctx)
    if not rd:
        ctx.missing('parser', 'name parser not found')
        return
    b = rd[0]
    pf = parser_facts(ctx, b)
    n = 0
    for cs in pf['slices']:
        n += 1
        ok = any(b.edge_dominates(e, cs.point) for e in pf['prefix_edges'])
        ctx.check(ok, 'slice#%d' % n, where(b, cs.point), 'str slicing dominated by the prefix test',
                  'a directory entry name is sliced at a fixed byte offset before the ASCII prefix was verified: a name with a multi-byte character across that offset makes open panic')
    if n == 0:
        ctx.ok('no-slicing', b.span, 'the parser uses no panicking str slicing', nontrivial=False)


@rule('FS6', ['C02', 'C17', 'C01', 'C06'], floor=1, template='no-extra-filter')
def fs6(ctx):
    """The scan tracks EVERY regular file whose name parses: the only ways to skip an entry are "not a
    regular file", "name not UTF-8" and "name rejected by the parser" (an untracked wal-N would collide
    with the exclusive create at the next roll-over, or hide data)."""
    rds = {b.id for b in name_readers(ctx)}
    n = 0
    for b in scan_bodies(ctx):
        pushes = [cs for (cs, _o) in number_pushes(b)]
        loops = [L for L in b.loops() if any(ps.block in L['blocks'] for ps in pushes)]
        if not pushes or not loops:
            continue
        L = loops[0]
        hdr = b.pstart[L['header']]
        inside = set()
        for x in L['blocks']:
            for p in range(b.pstart[x], b.pterm[x] + 1):
                inside.add(p)
        outside = [p for p in range(len(b.points)) if p not in inside]
        allowed = []
        for (bi, c, te, fe, cs) in b.switches_on_call(lambda c: c.name in ('std::fs::FileType::is_file', 'std::fs::Metadata::is_file')):
            allowed.append(fe)
        for c2 in b.calls:
            if c2.dest_local() is None:
                continue
            is_parser = c2.node in rds
            is_to_str = c2.name.endswith('OsStr::to_str') or c2.name.endswith('OsString::to_str') or 'to_str' in c2.name
            if is_parser or is_to_str:
                known = alias_paths(b, c2.dest_local())
                for (bj, pl, adt, edges) in b.discr_switches():
                    if place_path(known, pl) == [()] and 'None' in edges:
                        allowed.append(edges['None'])
        # relays: an Option that is None only where one of the three reasons was found (`fn regular_file_name(..) ->
        # io::Result<Option<String>>` returning Ok(None) for "not a file" and for "not UTF-8", then `None => continue`
        # at the call site): the None edge of a test on it is the same skip, one hop later
        for _round in range(3):
            for (bj, pl, adt, edges) in b.discr_switches():
                if 'None' not in edges or pl['p'] or edges['None'] in allowed:
                    continue
                # (through variant-preserving views: `opt.as_deref()`, `as_ref()`, `cloned()` are None exactly when opt is)
                org = []
                seen_, work_ = set(), [pl['l']]
                while work_:
                    l_ = work_.pop()
                    if l_ is None or l_ in seen_:
                        continue
                    seen_.add(l_)
                    for o in b.trace_local(l_):
                        if o[0] == 'call' and re.search(r'Option::<.*>::(as_deref|as_deref_mut|as_ref|as_mut|cloned|copied)$', o[1].name) and o[1].args:
                            al_ = o[1].arg_local(0)
                            # the argument is a borrow of the Option
                            for o2 in (b.trace_local(al_) if al_ is not None else []):
                                if o2[0] == 'rv' and o2[2]['k'] == 'ref' and not [e for e in o2[2]['place']['p'] if e['k'] != 'deref']:
                                    work_.append(o2[2]['place']['l'])
                                else:
                                    org.append(o2)
                        else:
                            org.append(o)
                if not org or not all(o[0] == 'rv' and o[2]['k'] == 'agg' and o[2].get('variant') in ('Some', 'None') for o in org):
                    continue
                nones = [o for o in org if o[2].get('variant') == 'None']
                if nones and all(any(b.edge_dominates(e, o[1]) for e in allowed) for o in nones):
                    allowed.append(edges['None'])
        # ... and what was collected reaches the tracker as it is: nothing removes numbers from the list afterwards
        lst = set()
        for ps in pushes:
            al = ps.arg_local(0)
            if al is not None:
                from rules_codec import buf_id
                lst.add(buf_id(b, al))
        shrink = [c for c in b.calls if re.search(r'Vec::<u64>::(retain|retain_mut|truncate|drain|split_off|clear|pop|remove|swap_remove|dedup|dedup_by|dedup_by_key)$', c.name)
                  and c.arg_local(0) is not None and buf_id(b, c.arg_local(0)) in lst and c.block not in L['blocks']]
        ctx.check(not shrink, '%s:no-post-filter' % b.path, where(b, (shrink or pushes)[0].point), 'the list of file numbers is handed to the tracker as collected',
                  'file numbers collected by the scan are removed again before the tracker is built (%s): those WAL files would be neither replayed nor ever reclaimed' % (method_name(shrink[0].name) if shrink else '-'))
        n += 1
        r = b.reach_after(hdr, avoid=set(ps.point for ps in pushes) | set(outside), avoid_edges=allowed)
        ctx.check(hdr not in r, '%s:only-three-skips' % b.path, where(b, pushes[0].point), 'an entry is skipped only if it is not a regular file, not UTF-8, or rejected by the name parser',
                  'the directory scan has an additional way to skip an entry (some regular files with a valid WAL name are left untracked): a leftover wal-N would later collide with the exclusive create of that file, or its data would be ignored')
    if n == 0:
        ctx.missing('scan', 'no scan loop pushing file numbers found')


def _parser_family(ctx, b):
    """The name parser, the crate-local functions it calls and the closures it hands to adaptors (transitively)."""
    seen, work = {b.id: b}, [b]
    while work:
        x = work.pop()
        ids = [cs.node for cs in x.calls if cs.node is not None] + [fj.get('node') for (_p, fj) in x.fn_values]
        for i in ids:
            y = ctx.f.bodies.get(i)
            if y is not None and y.id not in seen and (y.path.startswith('rolling::') or '{closure' in y.path):
                seen[y.id] = y
                work.append(y)
    return list(seen.values())


@rule('FS7', ['C10', 'C17'], floor=1, template='no-overflowing-arithmetic')
def fs7(ctx):
    """Turning a candidate file name into a number is total: the name parser (with the helpers and closures it
    uses) accumulates nothing with `*` / `+` / `<<`, whose overflow panics in checked builds and wraps to a bogus
    file number otherwise; 20 digits do not fit a u64, and str::parse::<u64>() answers Err for them."""
    rd = name_readers(ctx)
    if not rd:
        ctx.missing('parser', 'name parser not found')
        return
    b = rd[0]
    fam = _parser_family(ctx, b)
    bad = []
    for x in fam:
        for bi, blk in enumerate(x.blocks):
            if not x.live[bi]:
                continue
            for s in blk['stmts']:
                if s['k'] == 'assign' and s['rv']['k'] == 'binop' and re.match(r'^(Mul|Add|Shl)', s['rv']['op']):
                    tys = [x.local_ty(l) for l in (op_local(s['rv']['a']), op_local(s['rv']['b'])) if l is not None]
                    if any(t in ('u64', 'u128') for t in tys):  # the number's type; length arithmetic (usize) is not the concern
                        bad.append('%s (%s: %s)' % (x.loc(x.pstart[bi]), x.path, s['rv']['op']))
            t = blk['term']
            if t['k'] == 'call':
                cs = x.call_at.get(x.pterm[bi])
                if cs is not None and re.search(r'::(wrapping_mul|wrapping_add|unchecked_mul|unchecked_add|pow|wrapping_pow)$', cs.name):
                    bad.append('%s (%s: %s)' % (x.loc(cs.point), x.path, cs.name[-30:]))
    ctx.check(not bad, 'no-accumulation', b.span, 'no multiplying / adding accumulation over the name in the %d bodies of the name parser' % len(fam),
              'the name parser computes the file number with arithmetic that overflows on a 20-digit name (%s): open panics (checked builds) or takes a bogus number (release) for a stray `wal-99999999999999999999`' % sorted(set(bad)))


@rule('FS8', ['C17', 'C02'], floor=1, template='must-pass-through')
def fs8(ctx):
    """A file number the scan did not find is backed by a file the library itself creates: wherever the tracker is
    started from scratch (`FileTracker::new()`: file 0, which no directory entry vouched for) every successful path
    goes through the exclusive creation of that file. Deciding it by a filesystem predicate instead (`exists()`,
    `metadata()`) lets whatever the name resolves to -- a symbolic link, a directory, a fifo: entries the scan rightly
    refused to track -- stand in for the WAL file: it is then opened, replayed and written through."""
    n = 0
    for b in ctx.f.bodies.values():
        if b.generic_dup() or b.is_test or b.path.startswith('rolling::file_number::'):
            continue
        sites = [cs.point for cs in b.calls if cs.path.endswith('rolling::file_number::FileTracker::new')]
        for (p_, fj) in b.fn_values:
            if strip_crate(fj.get('name') or fj.get('path') or '').endswith('rolling::file_number::FileTracker::new'):
                sites.append(p_)
        if not sites:
            continue
        creates = [cs.point for cs in b.calls if cs.node is not None and ctx.E.call_may(cs, 'CREATE')] + [p for (p, e, _cs) in ctx.E.direct_sites(b) if e == 'CREATE']
        oks = [e['point'] for e in b.ok_exits()] or b.return_points()
        for k, sp in enumerate(sorted(set(sites))):
            n += 1
            r_ = b.reach_after(sp, avoid=creates)
            skipped = any(e in r_ for e in oks)
            ctx.check(not skipped, '%s:fresh-tracker-creates-its-file#%d' % (b.path, k + 1), where(b, sp), 'a tracker started from scratch is followed by the exclusive creation of its file on every successful path',
                      'a tracker started from scratch (file 0, found by no scan) can be returned without the library creating that file: whatever the name resolves to (a symbolic link, a directory) would be opened and written as the WAL file')
    if n == 0:
        ctx.missing('fresh', 'no production body starts a FileTracker from scratch')
