#!/usr/bin/env python3
"""Run every rule on externally written behaviour-preserving refactorings (patch files).
usage: rf_run.py <patch>...      prints per patch: silent | FALSE-ALARM {rule: [keys]} missing [...]"""
import json, os, sys
from concurrent.futures import ThreadPoolExecutor
HERE = os.path.dirname(os.path.abspath(__file__))
sys.path.insert(0, HERE)
from run import analyse, VERIF

def main():
    patches = [os.path.abspath(p) for p in sys.argv[1:]]
    wr = os.path.join(VERIF, '.work')
    os.makedirs(wr, exist_ok=True)
    bad = 0
    with ThreadPoolExecutor(max_workers=8) as ex:
        futs = [(p, ex.submit(analyse, p, wr)) for p in patches]
        for p, fu in futs:
            r = fu.result()
            name = '/'.join(p.split('/')[-2:])
            if r['status'] != 'analysed':
                print('%-28s %s %s' % (name, r['status'], r.get('log', '')[-300:]))
                bad += 1
            elif r['violated'] or r['missing']:
                bad += 1
                print('%-28s FALSE-ALARM' % name)
                for k, v in r['violated'].items():
                    for x in v:
                        print('      %s: %s' % (k, x[:400]))
                for m in r['missing']:
                    print('      missing: %s' % m[:300])
            else:
                print('%-28s silent' % name)
    print('%d patches, %d not silent' % (len(patches), bad))

if __name__ == '__main__':
    main()
