"""Per-property texts (what is decided / not decided), controls and self-validation glue."""
import json
import os
import subprocess
import sys

HERE = os.path.dirname(os.path.abspath(__file__))
VERIF = os.path.dirname(HERE)

COMMON_ASSUME = [
    'std, bytes, crc32fast, tracing, thiserror are opaque leaves with the effect table of DESIGN §4.1 (they do not touch the WAL directory on their own)',
    'no unsafe code and no interior mutability in logical state (checked by rule NI7 where relevant)',
    'panic/unwind edges are ignored (outside the property), feasibility of paths is not decided: every CFG path counts',
    'OS semantics of write/flush/fdatasync/unlink are as documented',
]


def P(decides, not_decided, technique, ref):
    return {
        'explanation': 'Static decision of necessary structural conditions on the MIR of /repo (every path of every function reachable from the public API): '
                       + decides + ' NOT decided (stated, not silently dropped): ' + not_decided,
        'decides': decides,
        'not_decided': not_decided,
        'technique': technique,
        'design_ref': ref,
        'assumptions': COMMON_ASSUME,
    }


PROPS = {
    'C01': P('the rolling reader moves only after a successful block read and reports a position consistent with it, and exists only after the first block was read (NB1, NB2, RO1); no in-memory update after the GC pass (GC10); minted file numbers are tracked (GC12); replay keeps an existing queue only if empty and exactly at the recorded position, re-aligns only unknown queues (RP2, RP3); every encoder input reaches the WAL and size predicates are strict (CD8, CD9); every in-memory update on a success path of a mutating call is logged to the WAL (LOG1); every entry kind has a replay arm reaching the same leaf mutators (LOG2); '
             'reader hands its exact cursor to the writer (LOG5); positions of empty queues are logged, durably, by a pass pinned to the writer\'s file before any unlink (GC1, GC2w, GC3); '
             'only an unreferenced oldest file that is not the last one is ever popped and exactly that file is unlinked (GC4, GC5, GC8); the writer is only built after a clean end of log (OP3); '
             'codec layouts/tables and file-name writer/parser agree (CD3-CD6, FS2).',
             'that replay computes the same VALUES (position arithmetic, ack_position re-alignment, payload bytes); GC timing at exact file-full alignment.',
             'MIR must-pass-through / sibling-agreement / provenance rules over the monomorphic call graph', 'DESIGN §5.1, §5.2, §5.9 C01'),
    'C02': P('reader position only moves under a successful read (NB1, NB2); handle/file-number/offset replaced together and an exceeding write only through the roll-over (ROLL2, ROLL3); a block quarantine is always reported so an open entry is abandoned (FR8); one WAL entry per call, outside loops (LOG3); the record reader delivers an entry only First..Last with no error in between and a fresh buffer (REC1-5); new files are exclusive-created, sized to full length and rewound before use, and a reused next file is sized too (SZ1, SZ2); '
             'old file flushed+fsynced+dirsynced before the next is opened (ROLL1); single sequential writer (W1); GC ordering (GC1, GC2w, GC3, GC4, GC5); cursor hand-over (LOG5).',
             'byte-level torn-write outcomes (CRC strength); that the recovered prefix equals the model state.',
             'MIR dominance / reachability-with-cut rules; who-may-call inventories', 'DESIGN §5.3, §5.5, §5.9 C02'),
    'C03': P('create_queue/delete_queue end with flush+fsync+dirsync on every success path (PS1); append/truncate consult the policy after every WAL write (PS2, PS3); Always(a) yields exactly action a (PS4); FlushAndFsync is flush -> fdatasync -> dirsync in that order (PS5, PS6), actions are forwarded unchanged (PS7); '
             'roll-over syncs the old file first (ROLL1); nothing is unlinked unless everything written so far has been flushed and fsynced (GC2).',
             'OS / disk semantics of fdatasync; OnDelay timing.',
             'MIR must-pass-through with constant specialisation (A-CONST); finite-table extraction', 'DESIGN §5.5, §5.2 GC2, §5.9 C03'),
    'C04': P('removing records always moves start_position past the truncation point (PAST4); replay keeps a queue only at exactly the recorded position (RP2); no in-memory update after the GC pass (GC10); an unlogged in-memory update is impossible (LOG1); GC position pass exists, records next_position of exactly the empty queues, durably, pinned (GC1, GC2w, GC3); an append below the next position cannot reach a push or a log site (PAST1, PAST2); the logged/applied position is the supplied one or the queue\'s next position (PAST3); replay applies the entry\'s own position (RP1). the value stored into start_position by a truncation is the truncation point + 1 on every path (PAST4 affine form); a queue rebuilt for a recorded position has every integer field next_position() reads initialised from that position (MQ3); the Truncate / DeleteQueue replay arms always apply their operation (RP5). the position arithmetic of a queue where readable as affine forms: next = last + 1 | start, last = next - 1, the pushed meta carries the target position and the buffer length before the payload (MQ4). a mutating call answers Ok without its WAL entry only under the two specified no-op gates (QX5).',
             'the arithmetic of next_position / truncate_head.',
             'MIR guard-dominates-use and flow rules', 'DESIGN §5.8 PAST/RP, §5.2'),
    'C06': P('no owner of file handles is live across the GC pass in its caller (GC11); minted file numbers are tracked (GC12); file number replaced together with the handle at roll-over (ROLL2); tracker removal is guarded (GC4), unlink pairs with removal (GC5), trigger and action agree (GC6), truncate/delete_queue/open reach the GC pass on every success path (GC7), handles share one count (GC8), no new long-lived holder or leak primitive (GC9), size() and set_len use the same FILE_NUM_BYTES (DU1). a re-used next file is sized to full length (SZ2). a failed creation does not leave a phantom file in the tracker (GC13). no file handle other than the current-file guard is alive across the unlink loop (GC3b).',
             'which file a record is attributed to at every alignment (DESIGN §6.4); the numeric equality of disk_used_bytes.',
             'MIR must-pass-through, sibling agreement, type/ADT inventories', 'DESIGN §5.2, §5.9 C06'),
    'C07': P('every encoder input / header field / frame payload reaches the output (CD8); strict `>` in the frame-fits and file-full tests (CD9); `remaining - HEADER_LEN` only on the `>=` edge (CD2b); the frame loop progresses and ends exactly when nothing remains (WR1); a returned frame was consumed entirely (FR5b); an exceeding write only through the roll-over (ROLL3); reader position only moves under a successful read (NB1); constants are mutually consistent (CD1); writer and reader use the same `remaining < HEADER_LEN` predicate (CD2); header / entry / batch layouts agree field by field (CD3, CD5, CD6); frame-type and record-type tables compose to the identity (CD4); narrowing casts in encoders are guarded (CD7). the writer resumes exactly at the reader\'s cursor (LOG5 cursor-exact); the end of the log is Ok(false) in every reader state (REC8).',
             'the round-trip itself at all (offset, length) pairs; the split arithmetic in write_record.',
             'const evaluation by rustc + MIR predicate / table / layout extraction and comparison', 'DESIGN §5.8 CODEC'),
    'C08': P('a block quarantine is always reported (FR8); a returned frame was consumed entirely (FR5b); bounds check and slice read the same cursor value (TAINT2); fixed-size header cuts are length-guarded (TAINT3); NotAvailable only for an all-zero header (FR3); no frame returned without a passed CRC over type+payload (FR1, FR2); header validity (FR3); entries only First..Last (REC1-5); batch views only after validation (NU1, NU2), consumers stop at the first error (MI2); no slice/allocation sized by an unchecked decoded length (TAINT1). the ring buffer hands out exactly the window [start, end) in each of its three cases (RB1). a record is cut at its own start offset and at the start offset of the next meta (RB2); a header that does not decode quarantines its block (FR3); the decode table accepts only what the encode table produces (CD4).',
             'CRC-32 collision bound; that surviving records equal appended ones.',
             'MIR guard-dominates-exit, sibling agreement, taint-to-sink with dominating guard', 'DESIGN §5.3, §5.4 TAINT1, §5.8 NU'),
    'C09': P('replay keeps an existing queue only if empty and exactly at the recorded position and re-aligns only unknown queues, which is what makes a lost entry harmless (RP2, RP3); a CRC failure advances past the frame without quarantining the block and surfaces as Corruption (FR6); Corruption makes the replay loop continue (OP2); the record reader forgets the partial entry (REC2).',
             'that replay\'s gap tolerance recovers every record that was not hit.',
             'MIR no-store-on-path, must-loop reachability', 'DESIGN §5.3 FR6, §5.4 OP2'),
    'C10': P('bounds check and slice read the same cursor value (TAINT2); fixed-size header cuts are length-guarded (TAINT3); byte-offset slicing of a directory entry name only after the ASCII prefix test (FS5); termination clause: every open-coded loop of the recovery-read set and read accessors has a progress witness, iterator-driven loops are over std collections, no recursion (LP1); reader progress before every Corruption / frame (FR5), quarantined or exhausted blocks are left (FR7); the crate iterator progresses and its consumers stop at the first error (MI1, MI2); no error path carrying an I/O error re-enters a loop (ERR2); decoded lengths are guarded before use (TAINT1). the end of the log never answers Corruption or an error, in any reader state (REC8: replay would spin); the write offset is never the subtrahend of an unguarded subtraction (ROLL5). no byte-offset cut of text on the recovery / read path (TAINT4); every header peek follows the block-room check (FR7); io::Error conversions stay I/O errors (ERR6).',
             'general panic-freedom (value ranges of indices/arithmetic), allocation bounds beyond TAINT1.',
             'natural-loop inventory with progress witnesses; dominance; taint-to-sink', 'DESIGN §5.4 LP1/MI/TAINT1, §5.3 FR5/FR7'),
    'C11': P('every possibly-I/O-bearing result on the recovery path is propagated by `?`, returned, or matched with every io-carrying variant flowing to an Err exit (ERR1); no such error path reaches a loop back-edge (ERR2); the writer is only built after Ok(None) (OP3).',
             'promptness in wall-clock terms; errors std itself swallows.',
             'error-not-dropped classification of every io-bearing call site; loop reachability', 'DESIGN §5.4 ERR1/ERR2/OP3'),
    'C12': P('the frame loop frames the whole entry and types only the first frame First (WR1); a block quarantine is always reported (FR8); one entry per batch, outside loops (LOG3), containing the whole payload iterator (LOG4); validated as a whole before any record is applied (NU1, NU2); delivered only complete (REC1-5); frame type under the CRC (FR2).',
             'crash/damage outcomes byte by byte.',
             'MIR no-cycle / provenance / who-may-call', 'DESIGN §5.1 LOG3/LOG4, §5.8 NU'),
    'C13': P('no effect site (WAL write, flush, fsync, unlink, create, set_len, in-memory update, tracker update) can reach a rejecting or no-op exit (QX1); post-effect error conversions are dominated by the gate that excludes them (QX2); all gates exist (QX3); a constant 0 byte count is unreachable from any write (BY4).',
             '— (the clause "no effect before rejection" is the property, up to the feasibility argument QX2).',
             'CFG reachability from effect sites to classified exits', 'DESIGN §5.7 QX'),
    'C14': P('the policy state is read only in the policy-consult body and built only in open (NI1, NI2); switches on policy-typed values and clock reads are confined to persist_policy.rs, the consult body and the persist implementation (NI3); persist writes no logical state and has no WAL/memory effect (NI4); the consult body returns io::Result<()> consumed by `?` (NI5); buffered bytes reach the OS at drop (NI6); no unsafe / interior mutability in logical state (NI7).',
             'behaviour under I/O faults (an I/O error is the one thing persist can turn into a different return value).',
             'field / control confinement + effect purity (non-interference argument)', 'DESIGN §5.8 NI'),
    'C15': P('every byte count handed to the one write primitive flows to the frame writer\'s result (BY1), every frame count to the entry count (BY2), every entry and GC count to the wal_bytes_written field of the outcome (BY3); a constant 0 is returned only where no write can have happened (BY4); single choke point using write_all (W1); offset bookkeeping pairs with writes (BY6). no effect site reaches a rejecting exit, so no bytes are written and reported nowhere (QX1, QX3). a byte counter is never advanced by a value that already contains it (BY8).',
             'that the flows add up to EQUALITY (no double counting / scaling).',
             'must-flow (def-use closure) to field-sensitive sinks; no-reach', 'DESIGN §5.7 BYTES'),
    'C16': P('meta and payload bytes are stored together and dropped together (MA5); size() and capacity() are built from corresponding terms (MA1 term sets); used/allocated are built from paired len/capacity terms of the same containers (MA1), the used side contains no capacity term and includes payload and key lengths (MA2), emptying releases the ring buffer (MA3), the pair is mapped to the right fields (MA4). every move of start_position in truncate_head goes with the eviction of the metas in front of it (MA5 every-move-evicts). the payload buffer reports the len / capacity of its container, nothing added (MA6).',
             'the numeric slack ("small constant per record"), allocator behaviour.',
             'flow pairing over the accounting functions', 'DESIGN §5.8 MA'),
    'C17': P('byte-offset slicing of a candidate name only after the prefix test (FS5); every path handed to a creating / opening / removing / scanning primitive is built by the one name builder from a tracked number, or is the directory itself for read-only open/scan (FS1); the name template and the parser agree (FS2); the scan admits regular files with parsed names only (FS3); the parser gates length, prefix and ASCII digits (FS4); only popped tracked files are unlinked (GC5); fresh numbers are minted only by the tracker (GC8). a tracker started from scratch is always followed by the exclusive creation of its file (FS8). a file number minted for a new file is un-tracked again when the creation of the file fails (GC13).',
             'std\'s DirEntry::file_type / symlink semantics (trusted).',
             'who-may-call + provenance over all path-taking std::fs call sites; AST format-template vs parser agreement', 'DESIGN §5.6 FS'),
    'C18': P('the GC triggered by one queue records, durably and pinned, the positions of exactly the idle empty queues and happens after the call\'s own update (GC1, GC2w, GC3, GC10); a torn or damaged entry of one queue is never spliced into another queue\'s entry (REC2, REC4, FR8); every memory operation and every entry in a call is keyed by the call\'s own queue argument (ISO1), in replay by the entry\'s own queue (ISO2); mutators access the map by key only, whole-map primitives are confined (ISO3); GC touches only empty queues (ISO4); file lifetime is a shared count (GC8); every entry kind carries its queue (CD5).',
             'equality of a queue\'s content in the projected history.',
             'provenance / keyed-access confinement', 'DESIGN §5.8 ISO'),
}


def run_controls(work, nonce, rule_ids):
    """Positive fixtures: every rule template used by this property must fire on its fixture.
    Returns {'failed': [R...], 'summary': {...}}"""
    try:
        import controls
    except ImportError:
        return {'failed': [], 'summary': {'fixtures': 'not built yet'}}
    return controls.run(work, nonce, rule_ids)


def run_selftest(pid, work):
    """Thorough tier: mutants tagged with this property must be caught, refactors silent."""
    corpus_p = os.path.join(VERIF, 'selftest', 'corpus.json')
    if not os.path.exists(corpus_p):
        return None
    corpus = json.load(open(corpus_p))
    names = [n for n, d in corpus['mutants'].items() if pid in d.get('props', [])]
    names += list(corpus['refactors'].keys())
    names.append('ext:*')   # plus the independently written refactorings of selftest/refactors_ext
    out_json = os.path.join(work, 'selftest.json')
    p = subprocess.run([sys.executable, os.path.join(VERIF, 'selftest', 'run.py'), '--jobs', '12', '--only', ','.join(names), '--json', out_json, '--workroot', work],
                       capture_output=True, text=True)
    res = json.load(open(out_json)) if os.path.exists(out_json) else []
    summary = {'patches': len(res), 'caught': sum(r['verdict'] in ('caught', 'caught-partial') for r in res), 'silent': sum(r['verdict'] == 'silent' for r in res),
               'skipped_patch_no_longer_applies': sum(r['verdict'] == 'skipped' for r in res),
               'bad': [r['name'] + ':' + r['verdict'] for r in res if r['verdict'] in ('MISSED', 'FALSE-ALARM')],
               'mutants_for_this_property': [r['name'] for r in res if r['kind'] == 'mutant']}
    return summary


def run_sweep(pid, work):
    """Thorough tier: automatic line-level mutation sweep over the files the property is anchored in
    (properties.jsonl anchors.files). Sensitivity measurement of the rule set; never a verdict on /repo."""
    files = []
    for l in open(os.path.join(VERIF, 'properties.jsonl')):
        pj = json.loads(l)
        if pj['id'] == pid:
            files = [f for f in pj['anchors']['files'] if f.startswith('src/') and not f.endswith('tests.rs')]
    if not files:
        return None
    out_json = os.path.join(work, 'sweep.json')
    p = subprocess.run([sys.executable, os.path.join(VERIF, 'selftest', 'sweep.py'), '--jobs', '12', '--files', ','.join(files), '--json', out_json, '--workroot', work],
                       capture_output=True, text=True)
    if not os.path.exists(out_json):
        return {'error': (p.stdout + p.stderr)[-300:]}
    res = json.load(open(out_json))
    ana = [r for r in res if r['status'] == 'analysed']
    killed = [r for r in ana if r['rules'] or r['missing']]
    by_prop = [r for r in ana if pid in r.get('props', [])]
    alive = [r for r in ana if not (r['rules'] or r['missing'])]
    regress = []
    bp = os.path.join(VERIF, 'selftest', 'sweep_baseline.json')
    if os.path.exists(bp):
        base = json.load(open(bp))['mutants']
        for r in ana:
            k = '%s|%s|%s|#%d' % (r['file'], r['op'], r['old'], r.get('occ', 0))
            if k in base and base[k]['killed'] and not (r['rules'] or r['missing']):
                regress.append(k)
    return {'files': files, 'operators': 'DEL (delete statement), NEG (negate if-condition), CMP (flip comparison)', 'generated': len(res), 'type_check': len(ana),
            'checker_regressions_vs_baseline': regress,
            'reported_by_some_rule': len(killed), 'reported_by_this_property': len(by_prop),
            'not_reported_sample': ['%s:%d %s %s' % (r['file'], r['line'], r['op'], r['old'][:60]) for r in alive[:25]],
            'note': 'most unreported mutants change values/arithmetic or code outside this property; they are listed for triage, not as findings'}
