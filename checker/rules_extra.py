"""Rules added after confronting the checker with independently written bug patches (DESIGN §8.3)."""
import re

from core import op_local, op_const_bits, place_fields, strip_crate, alias_paths, place_path, mem_loc, rvalue_operands, ok_bool_edges, result_edges, rvalue_places
from engine import rule
from flow import flow_of
from vocab import api_mut, open_bodies, where

RR = 'rolling::directory::RollingReader'


def success_edges_of_reads(ctx, b):
    """True edges of switches on the bool payload of a checked (`?` / match) call that may READ and returns
    io::Result<bool> (a block read that succeeded)."""
    out = []
    from core import result_edges
    for cs in b.calls:
        dl = cs.dest_local()
        if dl is None:
            continue
        if b.local_ty(dl) == 'std::result::Result<bool, std::io::Error>' and ctx.E.call_may(cs, 'READ'):
            for (te, fe) in ok_bool_edges(b, dl):
                out.append((cs, te, fe))
        elif b.local_ty(dl) == 'std::result::Result<(), std::io::Error>' and cs.node is None and cs.name.endswith('read_exact'):
            # the read primitive itself, matched in place: Ok(()) = a whole block was read
            re_ = result_edges(b, dl)
            for oe in re_['ok']:
                for ee in re_['err'] or [None]:
                    out.append((cs, oe, ee))
    return out


def _with_read_helpers_in_place(ctx, b):
    """next_block analysed with its small block-reading helpers in place (A-INLINE on demand): whether the read is
    factored into a helper, and whether that helper answers with a bool or a private enum, is the same code."""
    def pred(cb):
        return cb.path.startswith('rolling::') and len(cb.blocks) < 60 and any(c.node is None and c.name.endswith('read_exact') for c in cb.calls)
    return ctx.f.inlined(b, pred, 'nb')


@rule('NB1', ['C01', 'C02', 'C07', 'C12'], floor=4, template='guard-dominates-use')
def nb1(ctx):
    """The rolling reader moves (file, file number, block id) only after a block was read successfully."""
    bs = [b for b in ctx.f.bodies.values() if b.path.startswith('<' + RR + ' as block_read_write::BlockRead>::next_block') or b.name.startswith('<' + RR + ' as block_read_write::BlockRead>::next_block')]
    if not bs:
        ctx.missing('next_block', 'BlockRead::next_block impl of RollingReader not found')
        return
    b = _with_read_helpers_in_place(ctx, bs[0])
    succ = success_edges_of_reads(ctx, b)
    if not succ:
        ctx.missing('reads', 'no `?`-checked block read found in next_block')
    seen = {}
    for (p, pl, rv) in b.stores:
        loc = mem_loc(pl)
        if loc not in ('RollingReader.file', 'RollingReader.file_number', 'RollingReader.block_id'):
            continue
        seen[loc] = seen.get(loc, 0) + 1
        ok = any(b.edge_dominates(te, p) for (_cs, te, _fe) in succ)
        ctx.check(ok, '%s#%d' % (loc, seen[loc]), where(b, p), 'reader position updated only under a successful block read',
                  'the reader\'s position (%s) is updated before the block read succeeded: on a short or empty next file the reader (and the writer built from it) ends up inside a file it read nothing from' % loc.split('.')[-1])
    # ... and the reader leaves the file it is on only after a read OF THAT FILE came back short: every path from the
    # entry to a store into `file` passes a read whose handle is the reader's own `file` field (a shortcut on the block
    # count -- "this file has NUM_BLOCKS_PER_FILE blocks, no need to ask" -- assumes the length instead of observing it:
    # blocks beyond the assumed end are never read)
    def reads_own_file(cs):
        if cs.node is not None or not cs.name.endswith('read_exact') or not cs.args:
            return False
        for o in b.trace_local(cs.arg_local(0)) if cs.arg_local(0) is not None else []:
            if o[0] == 'rv' and o[2]['k'] == 'ref' and mem_loc(o[2]['place']) == 'RollingReader.file':
                return True
        al = cs.arg_local(0)
        d = b.single_def(al) if al is not None else None
        return bool(d and d[1] == 'assign' and d[2]['rv']['k'] == 'ref' and mem_loc(d[2]['rv']['place']) == 'RollingReader.file')
    own_reads = [cs.point for cs in b.calls if reads_own_file(cs)]
    if own_reads:
        kk = 0
        for (p, pl, rv) in b.stores:
            if mem_loc(pl) != 'RollingReader.file':
                continue
            kk += 1
            ctx.check(p not in b.reach([b.entry], avoid=own_reads), 'leaves-a-file-only-after-reading-it#%d' % kk, where(b, p), 'the reader switches files only after a read of its current file',
                      'the reader can switch to the next file without having read its current file to the end (a shortcut on the block count): blocks beyond the assumed end of a longer file are never read')
    # a failed read in the file loop must not be reported as success
    k = 0
    for e in b.exits():
        if e['kind'] == 'ok' and e['ops'] and op_const_bits(e['ops'][0]) == 1:
            ok = any(b.edge_dominates(te, e['point']) for (_cs, te, _fe) in succ)
            k += 1
            ctx.check(ok, 'ok-true#%d' % k, where(b, e['point']), 'Ok(true) only after a successful block read', 'next_block can report a new block although no block was read')


def holder_adts(ctx):
    """local ADTs that (transitively) own a FileNumber"""
    hold = {'rolling::file_number::FileNumber'}
    changed = True
    while changed:
        changed = False
        for p, a in ctx.f.adts.items():
            if p in hold:
                continue
            for v in a['variants']:
                for f in v['fields']:
                    if owns_any(f['ty'], hold):
                        hold.add(p)
                        changed = True
    return hold


def owns_any(ty, hold):
    ty = strip_crate(ty)
    for h in hold:
        for m in re.finditer(re.escape(h), ty):
            pre = ty[:m.start()]
            pre = re.sub(r"'\w+ $", '', pre)
            if pre.endswith('&') or pre.endswith('&mut '):
                continue
            # Arc<..>/Rc<..> of a holder is still a handle; references are not
            return True
    return False


@rule('GC11', ['C06'], floor=3, template='liveness')
def gc11(ctx):
    """Nothing that owns file handles (a removed queue, a cloned FileNumber) is kept alive across the
    GC pass by the caller: files only it references must be reclaimable by this very call."""
    hold = holder_adts(ctx)
    n = 0
    for b in list(api_mut(ctx)) + list(open_bodies(ctx)):
        if b.generic_dup():
            continue
        gcs = [cs for cs in b.calls if cs.node is not None and ctx.E.call_may(cs, 'UNLINK')]
        for g in gcs:
            n += 1
            bad = []
            for l in range(1, len(b.locals)):
                ty = b.local_ty(l)
                if ty.startswith('&') or not owns_any(ty, hold):
                    continue
                if l <= b.arg_count:
                    continue
                # MultiRecordLog / MemQueues / the writer itself are the long-lived owners
                if re.search(r'multi_record_log::MultiRecordLog|mem::queues::MemQueues|RecordWriter<|RecordReader<|RollingWriter|RollingReader|FrameWriter<|FrameReader<|Directory|FileTracker', ty):
                    continue
                defs = [p for (p, kind, data) in b.defs.get(l, [])]
                kills = []
                for bi, blk in enumerate(b.blocks):
                    if not b.live[bi]:
                        continue
                    t = blk['term']
                    if t['k'] == 'drop' and t['place']['l'] == l and not t['place']['p']:
                        kills.append(b.pterm[bi])
                    if t['k'] == 'call':
                        for a in t['args']:
                            if a['k'] == 'move' and a['place']['l'] == l and not a['place']['p']:
                                kills.append(b.pterm[bi])
                    for si, st in enumerate(blk['stmts']):
                        if st['k'] == 'assign':
                            for o in rvalue_operands(st['rv']):
                                if o['k'] == 'move' and o['place']['l'] == l and not o['place']['p']:
                                    kills.append(b.pstart[bi] + si)
                for d in defs:
                    if d == g.point:
                        continue
                    if g.point in b.reach_after(d, avoid=kills):
                        bad.append((l, ty, d))
            ctx.check(not bad, '%s:no-handle-live-across-gc' % b.path, where(b, g.point), 'no owner of file handles is live across the GC pass',
                      'a value owning WAL file handles (%s, defined at %s) is still alive when the GC pass runs: the files only it references survive this call' % (
                          (bad[0][1][:80], b.loc(bad[0][2])) if bad else ('-', '-')))
    if n == 0:
        ctx.missing('gc-callers', 'no API body calls the GC pass')


@rule('NB2', ['C01', 'C02'], floor=2, template='must-store')
def nb2(ctx):
    """When next_block reports a new block the reader's position describes it: block id advanced (same
    file) or file / file number / block id = 0 replaced together (next file)."""
    bs = [b for b in ctx.f.bodies.values() if b.name.startswith('<' + RR + ' as block_read_write::BlockRead>::next_block')]
    if not bs:
        ctx.missing('next_block', 'BlockRead::next_block impl of RollingReader not found')
        return
    b = _with_read_helpers_in_place(ctx, bs[0])
    st = {}
    for (p, pl, rv) in b.stores:
        loc = mem_loc(pl)
        if loc and loc.startswith('RollingReader.'):
            st.setdefault(loc, []).append((p, rv))
    k = 0
    for e in b.exits():
        if e['kind'] == 'ok' and e['ops'] and op_const_bits(e['ops'][0]) == 1:
            k += 1
            dom = {loc: [(p, rv) for (p, rv) in v if b.dominates(p, e['point'])] for loc, v in st.items()}
            same_file = any(rv['k'] == 'use' and op_const_bits(rv['op']) is None for (p, rv) in dom.get('RollingReader.block_id', []))
            next_file = bool(dom.get('RollingReader.file')) and bool(dom.get('RollingReader.file_number')) and any(rv['k'] == 'use' and op_const_bits(rv['op']) == 0 for (p, rv) in dom.get('RollingReader.block_id', []))
            ctx.check(same_file or next_file, 'ok-true#%d' % k, where(b, e['point']), 'Ok(true) dominated by %s' % ('block_id += 1' if same_file else 'file, file_number and block_id = 0 replaced together'),
                      'next_block reports a new block without updating the reader position consistently (block id, or file + file number + block id): the writer built from the reader would resume at the wrong place')
    if k == 0:
        ctx.missing('ok-true', 'no Ok(true) exit in next_block')


@rule('GC12', ['C06', 'C01', 'C17', 'C18'], floor=1, template='must-flow')
def gc12(ctx):
    """Every file number minted for a new WAL file is registered in the tracker (otherwise the file is
    never accounted for nor reclaimed)."""
    n = 0
    FN = 'rolling::file_number::FileNumber'
    for b in ctx.f.bodies.values():
        if not b.path.startswith('rolling::file_number::FileTracker::') or b.is_closure:
            continue
        mints = [cs for cs in b.calls if cs.path.endswith('FileNumber::new')]
        if not mints:
            continue
        fl = flow_of(b)
        for m in mints:
            n += 1
            t = fl.forward(set(fl.call_result_nodes(m)), skip_mem=True)
            ins = [cs for cs in b.calls if re.search(r'BTreeSet::<%s>::insert$' % re.escape(FN), cs.name) and len(cs.args) > 1 and fl.op_tainted(cs.args[1], t)]
            exits = b.return_points()
            must = bool(ins) and not any(e in b.reach_after(m.point, avoid=[c.point for c in ins]) for e in exits)
            ctx.check(must, '%s:minted-is-tracked' % b.path, where(b, m.point), 'a freshly minted FileNumber is inserted into the tracked set on every path',
                      'a FileNumber is minted for a new WAL file without being inserted into the tracked set: the file is invisible to disk accounting and to GC')
    if n == 0:
        ctx.missing('mint', 'no FileNumber::new call in FileTracker methods')
    # ... and the number minted after `curr` IS curr + 1: numbering may have gaps (files restored, a middle file
    # removed), so "first + count" or "last seen + 1 of something else" can mint a number that sorts BEFORE a live file --
    # replay order breaks and the next roll-over re-opens and overwrites that file
    for b in ctx.f.bodies.values():
        if not b.path.startswith('rolling::file_number::FileTracker::') or b.is_closure or b.arg_count < 2 or 'FileNumber' not in b.local_ty(2):
            continue
        fl = flow_of(b)
        for m in [cs for cs in b.calls if cs.path.endswith('FileNumber::new')]:
            af = b.affine(m.args[0], phi=True) if m.args else None
            if af is None:
                continue
            back = fl.backward(set(fl.op_nodes(m.args[0])), skip_mem=True)
            from_curr = ('l', 2) in back
            from_self = ('l', 1) in back
            good = af[1] == 1 and len(af[0]) == 1 and list(af[0].values()) == [1] and from_curr and not from_self
            # ... and a number is minted only when its successor is NOT tracked yet (the None edge of the look-up in the
            # tracked set dominates the mint): a fresh `FileNumber` for a number that is already tracked is a second,
            # separate reference count -- the set keeps the old one, records written through the new one do not pin the file
            # in the tracker's eyes, and GC unlinks it under them
            set_calls = [c for c in b.calls if 'BTreeSet' in c.name or 'btree_set' in c.name or 'btree::set' in c.name]
            # ... or through a read-only method of the tracker itself (`self.next(curr)`)
            set_calls += [c for c in b.calls if c.node in ctx.f.bodies and ctx.f.bodies[c.node].path.startswith('rolling::file_number::FileTracker::') and ctx.f.bodies[c.node].local_ty(1).startswith('&rolling')
                          and any('BTreeSet' in c2.name for c2 in ctx.f.bodies[c.node].calls)]
            t_set = set()
            for c in set_calls:
                t_set |= fl.forward(set(fl.call_result_nodes(c)))
            absent = []
            for (bi_, pl_, adt_, edges_) in b.discr_switches():
                if 'None' in edges_ and not pl_['p'] and fl.op_tainted({'k': 'copy', 'place': pl_}, t_set):
                    absent.append(edges_['None'])
            for (bi_, c_, te_, fe_, cs_) in b.switches_on_call(lambda c: ('BTreeSet' in c.name) and c.name.endswith('::contains')):
                absent.append(fe_)
            only_absent = any(b.edge_dominates(e_, m.point) for e_ in absent)
            ctx.check(only_absent, '%s:mint-only-when-absent' % b.path, where(b, m.point), 'a number is minted only on the edge where the tracked set has no successor yet',
                      'a FileNumber is minted for a number that may already be tracked (no look-up in the tracked set guards the mint): the set keeps its own element, the caller gets a second reference count, and the file can be unlinked while records written through the new handle are retained')
            ctx.check(good, '%s:mint-is-successor' % b.path, where(b, m.point), 'the number minted after `curr` is curr + 1',
                      'the file number minted by %s is not (the number it was given) + 1%s: with a gapped numbering the new file can sort before a live one -- replay order breaks and a later roll-over re-opens and overwrites that file' %
                      (b.path.split('::')[-1], ' (it is computed from the tracked set)' if from_self else ''))


@rule('GC13', ['C17', 'C06'], floor=1, template='must-pass-through-on-error')
def gc13(ctx):
    """A file number minted for a NEW WAL file stays in the tracker only if the file was created: where a body mints
    a number through the tracker (`FileTracker::inc`, which inserts it) and then creates the file, every path from the
    FAILURE of the creation to a return removes the number from the tracker again. Otherwise a failed roll-over
    (`create_new` answering AlreadyExists because something that is not a regular file bears the name: a symbolic
    link, a directory) leaves a tracked number with no file of the library's making behind it; the caller's retry then
    finds "the next file" in the tracker and OPENS whatever bears the name -- resizing and writing through the link,
    outside the directory -- and the disk-usage figure counts a file that does not exist."""
    FN = 'rolling::file_number::FileNumber'
    # tracker methods that remove an element
    removers = set()
    for b in ctx.f.bodies.values():
        if b.path.startswith('rolling::file_number::FileTracker::'):
            rm = [cs.point for cs in b.calls if re.search(r'BTreeSet::<%s>::(remove|take|pop_last|pop_first|retain|clear|split_off)' % re.escape(FN), cs.name)]
            # ... on EVERY path: an un-tracking method that returns early under a condition of its own (`unless
            # can_be_deleted()`: never true for the handle the caller still holds) removes nothing
            if rm and not any(r_ in b.reach([b.entry], avoid=rm) for r_ in b.return_points()):
                removers.add(b.id)
    n = 0
    for b in ctx.f.bodies.values():
        if b.generic_dup() or b.is_test or b.path.startswith('rolling::file_number::'):
            continue
        mints = [cs for cs in b.calls if cs.node is not None and ctx.f.bodies[cs.node].path.startswith('rolling::file_number::FileTracker::')
                 and any(re.search(r'BTreeSet::<%s>::insert$' % re.escape(FN), c2.name) for c2 in ctx.f.bodies[cs.node].calls)
                 and any(c2.path.endswith('FileNumber::new') for c2 in ctx.f.bodies[cs.node].calls) and ctx.f.bodies[cs.node].arg_count >= 2]
        if not mints:
            continue
        fl = flow_of(b)
        rets = b.return_points()
        undo = [cs.point for cs in b.calls if (cs.node in removers) or re.search(r'BTreeSet::<%s>::(remove|take|pop_last)' % re.escape(FN), cs.name)]
        for m in mints:
            t = fl.forward(set(fl.call_result_nodes(m)))
            creates = [cs for cs in b.calls if cs.node is not None and ctx.E.call_may(cs, 'CREATE') and cs.point in b.reach_after(m.point) and any(fl.op_tainted(a, t) for a in cs.args)]
            creates += [cs for (p, e, cs) in ctx.E.direct_sites(b) if e == 'CREATE' and p in b.reach_after(m.point) and cs not in creates]
            for c in creates:
                if c.dest_local() is None:
                    continue
                n += 1
                re_ = result_edges(b, c.dest_local())
                errs = list(re_['err'])
                leak = False
                if not errs:
                    # handed on with `?`: the error leaves directly
                    leak = any(e['kind'] == 'err_prop' and (e.get('call') is c or c in e.get('calls', ())) for e in b.exits())
                for ed in errs:
                    if ed[1] in undo:
                        continue
                    r_ = b.reach([ed[1]], avoid=undo)
                    if any(x in r_ for x in rets):
                        leak = True
                ctx.check(not leak, '%s:failed-creation-untracks' % b.path, where(b, c.point), 'when the creation of a freshly numbered file fails, the number is removed from the tracker before the error is returned',
                          'a file number minted by the tracker stays tracked when the creation of its file fails: the next attempt finds it as "the next file" and opens whatever bears that name (a symbolic link is followed, resized and written), and disk usage counts a file that does not exist')
    if n == 0:
        ctx.missing('mint-create', 'no body mints a file number through the tracker and then creates the file')


@rule('RP3', ['C01', 'C09', 'C02'], floor=1, template='guard-polarity')
def rp3(ctx):
    """Replay of an append re-aligns the queue only when the queue is unknown."""
    from rules_open import replay_sites
    from rules_log import replay_arms
    rs = replay_sites(ctx)
    if not rs:
        ctx.missing('replay', 'no replay loop')
        return
    b, cs0 = rs[0]
    arms = replay_arms(ctx, b, cs0)
    if 'AppendRecords' not in arms:
        ctx.missing('arm', 'no AppendRecords replay arm')
        return
    (edge, region) = arms['AppendRecords']
    n = 0
    from rules_misc import expand_arm_sites
    for (host, cs, _res) in expand_arm_sites(ctx, b, region):
        if cs.node is None:
            continue
        cb = ctx.f.bodies[cs.node]
        if cb.path.startswith('mem::queues::MemQueues::') and cb.arg_count == 3 and cb.local_ty(3) == 'u64' and cb.ret_ty == '()':
            n += 1
            gates = [(te, fe, g) for (bi, c, te, fe, g) in host.switches_on_call(lambda c: c.node is not None and not ctx.E.call_may(c, 'MEM') and c.path.startswith('mem::queues::MemQueues::') and c.body.local_ty(c.dest_local() or 0) == 'bool') if host is not b or g.point in region]
            stop = [cs0.point] if host is b else []
            ok = any(host.edge_dominates(fe, cs.point) and cs.point not in host.reach([te[1]], avoid=stop) for (te, fe, _g) in gates)
            ctx.check(ok, 'append-arm:realign-only-if-unknown', where(host, cs.point), 're-alignment on the `queue unknown` edge only',
                      'replaying an append re-aligns (resets) the queue even when it is already known: every replayed batch would wipe the records replayed before it')
    if n == 0:
        ctx.missing('realign', 'no re-alignment call in the AppendRecords replay arm')


@rule('RP4', ['C12', 'C08'], floor=1, template='error-not-dropped')
def rp4(ctx):
    """Replay applies a batch all-or-nothing: when one record of an AppendRecords entry cannot be applied to the
    queue (position in the past, queue missing) the open fails; the record is never skipped while the rest of the
    batch goes in (that would expose a batch with a hole)."""
    from rules_open import replay_sites
    from rules_log import replay_arms
    from rules_misc import expand_arm_sites
    from core import result_edges
    rs = replay_sites(ctx)
    if not rs:
        ctx.missing('replay', 'no replay loop')
        return
    b, cs0 = rs[0]
    arms = replay_arms(ctx, b, cs0)
    if 'AppendRecords' not in arms:
        ctx.missing('arm', 'no AppendRecords replay arm')
        return
    (edge, region) = arms['AppendRecords']
    n = 0
    for (host, cs, _res) in expand_arm_sites(ctx, b, region):
        dl = cs.dest_local()
        if cs.node is None or dl is None or not host.local_ty(dl).endswith('error::AppendError>') or not ctx.E.call_may(cs, 'MEM'):
            continue
        n += 1
        re_ = result_edges(host, dl)
        bad = None
        if not re_['err'] and not (dl == 0):
            # result handed on as a whole (`?` of a wrapper): fine when it is the host's own return value
            if not any(e['kind'] in ('err_prop', 'forward') and (e.get('call') is cs or cs in e.get('calls', ())) for e in host.exits()):
                bad = 'its result is not inspected'
        for ed in re_['err']:
            r_ = host.reach([ed[1]])
            if cs.point in r_:
                bad = 'the loop goes on with the next record of the batch'
            for e in host.exits():
                if e['point'] in r_ and e['kind'] in ('ok', 'some', 'none', 'value'):
                    bad = 'the failure arm reaches a successful return (%s)' % host.loc(e['point'])
            if host is b and cs0.point in r_:
                bad = 'the replay loop goes on with the next entry'
        ctx.check(bad is None, 'append-arm:%s' % cs.path.split('::')[-1], where(host, cs.point), 'a record that cannot be applied fails the open',
                  'during replay a record of a batch that cannot be applied is skipped (%s): the batch would be recovered with a hole' % bad)
    if n == 0:
        ctx.missing('apply', 'no fallible in-memory append in the AppendRecords replay arm')
        return
    # ... and EVERY record the batch iterator yields is applied: going from one next() to the following one without
    # passing the in-memory append (an "already known, skip" fast path) also leaves a hole in the batch
    applies = [cs.point for (host, cs, _res) in expand_arm_sites(ctx, b, region) if host is b and cs.node is not None and cs.dest_local() is not None
               and b.local_ty(cs.dest_local()).endswith('error::AppendError>') and ctx.E.call_may(cs, 'MEM')]
    nexts = [c for c in b.calls if c.point in region and c.name.endswith('as std::iter::Iterator>::next') and 'MultiRecord' in c.name]
    for nx in nexts:
        if not applies:
            break
        re_ = result_edges(b, nx.dest_local()) if nx.dest_local() is not None else {'err': []}
        r_ = b.reach_after(nx.point, avoid=set(applies) | {cs0.point}, avoid_edges=list(re_['err']))
        ctx.check(nx.point not in r_, 'append-arm:every-record-applied', where(b, nx.point), 'every record yielded by the batch iterator goes through the in-memory append before the next one is fetched',
                  'during replay the batch loop can go on to the next record without applying the current one (a skip path around the in-memory append): the batch would be recovered with a hole',
                  detail={'path': b.witness(nx.point, nx.point, avoid=set(applies) | {cs0.point}, avoid_edges=list(re_['err']))} if nx.point in r_ else None)


@rule('RO1', ['C01', 'C11'], floor=1, template='must-call')
def ro1(ctx):
    """The rolling reader is positioned on a block that was actually read from the first file."""
    n = 0
    for b in ctx.f.bodies.values():
        if b.generic_dup():
            continue
        aggs = [b.pstart[bi] + si for bi, blk in enumerate(b.blocks) if b.live[bi] for si, st in enumerate(blk['stmts'])
                if st['k'] == 'assign' and st['rv']['k'] == 'agg' and st['rv'].get('agg') == 'adt' and strip_crate(st['rv']['adt']) == RR]
        for a in aggs:
            n += 1
            reads = [p for (p, e, cs) in ctx.E.direct_sites(b) if e == 'READ']
            opens = [cs.point for cs in b.calls if cs.node is not None and ctx.E.call_may(cs, 'OPENRW')]
            ok = any(b.dominates(p, a) for p in reads) and any(b.dominates(p, a) for p in opens)
            ctx.check(ok, '%s:first-block-read' % b.path, where(b, a), 'RollingReader built after opening the first file and reading its first block',
                      'the rolling reader is built without reading the first block of the first file: recovery would start on an all-zero block and see an empty log')
    if n == 0:
        ctx.missing('reader-ctor', 'no construction of RollingReader found')


@rule('FH1', ['C01', 'C06'], floor=1, template='provenance+guard')
def fh1(ctx):
    """Every retained record keeps its own WAL file alive: the handle stored with a new record is a clone of
    the file the record was written to, or the previous record's handle only when that is the same file."""
    FN = 'rolling::file_number::FileNumber'
    n = 0
    for b in ctx.f.bodies.values():
        if b.generic_dup() or not b.path.startswith('mem::queue::MemQueue::'):
            continue
        pushes = [cs for cs in b.calls if re.search(r'Vec::<mem::queue::RecordMeta>::push$', cs.name)]
        fparams = [i for i in range(1, b.arg_count + 1) if b.local_ty(i) == '&' + FN]
        if not pushes or not fparams:
            continue
        fp = fparams[0]
        fl = flow_of(b)
        for ps in pushes:
            # the RecordMeta aggregate pushed and its file_number operand
            al = op_local(ps.args[1]) if len(ps.args) > 1 else None
            handle = None
            for o in (b.trace_local(al) if al is not None else []):
                if o[0] == 'rv' and o[2]['k'] == 'agg' and o[2].get('adt', '').endswith('RecordMeta'):
                    for nm, op in zip(o[2]['fields'], o[2]['ops']):
                        if nm == 'file_number':
                            handle = op
            if handle is None:
                continue
            n += 1
            hl = None
            for o in b.trace_local(op_local(handle)) if op_local(handle) is not None else []:
                if o[0] == 'rv' and o[2]['k'] == 'agg' and o[2].get('variant') == 'Some':
                    hl = op_local(o[2]['ops'][0])
            hops = 0
            while hl is not None and hops < 8:
                d1 = b.single_def(hl)
                if d1 and d1[1] == 'assign' and not d1[2]['place']['p'] and d1[2]['rv']['k'] == 'use' and op_local(d1[2]['rv']['op']) is not None:
                    hl = op_local(d1[2]['rv']['op'])
                    hops += 1
                else:
                    break
            defs = b.defs.get(hl, []) if hl is not None else []
            eqs = []
            for (bi, c, te, fe, cs) in b.switches_on_call(lambda c: 'PartialEq' in c.name and (c.name.endswith('::eq') or c.name.endswith('::ne')) and 'FileNumber' in c.name):
                back = set()
                for a in cs.args:
                    back |= fl.backward(set(fl.op_nodes(a)), skip_mem=True)
                if ('l', fp) in back:
                    eqs.append(fe if cs.name.endswith('::ne') else te)
            bad = []
            okc = 0
            for (p, kind, data) in defs:
                if kind != 'call':
                    bad.append('assigned at %s from something that is not a call' % b.loc(p))
                    continue
                src = data
                if src.name == '<%s as std::clone::Clone>::clone' % FN:
                    back = fl.backward(set(fl.op_nodes(src.args[0])), skip_mem=True)
                    if ('l', fp) in back:
                        okc += 1
                    else:
                        bad.append('clone at %s is not a clone of the file the record was written to' % b.loc(p))
                else:
                    # moved out of the previous meta (take/unwrap/replace ...): only on the equality edge
                    if any(b.edge_dominates(te, p) for te in eqs):
                        okc += 1
                    else:
                        bad.append('handle taken from the previous record at %s without the same-file test' % b.loc(p))
            ctx.check(not bad and okc > 0, '%s:record-handle' % b.path, where(b, ps.point), 'stored handle = clone(file of this record) or the previous handle under `previous file == this file`',
                      'a record can be stored with a handle to a different WAL file than the one it was written to (%s): its file could be deleted while the record is retained' % '; '.join(bad))
    if n == 0:
        ctx.missing('push', 'no RecordMeta push with a FileNumber parameter found')


@rule('FT1', ['C10', 'C01'], floor=1, template='guard-polarity')
def ft1(ctx):
    """A file tracker always tracks at least one file: it is only ever built from a list that the
    emptiness test found NON-empty (first() / first_file_number() unwrap on that, and an empty tracker
    would also make open ignore the existing WAL files)."""
    n = 0
    for b in ctx.f.bodies.values():
        if b.generic_dup() or b.is_test or b.is_closure:
            continue
        aggs = []
        for bi, blk in enumerate(b.blocks):
            if not b.live[bi]:
                continue
            for si, st in enumerate(blk['stmts']):
                if st['k'] == 'assign' and st['rv']['k'] == 'agg' and strip_crate(st['rv'].get('adt') or '').endswith('rolling::file_number::FileTracker'):
                    aggs.append((b.pstart[bi] + si, st['rv']))
        if not aggs:
            continue
        fl = flow_of(b)
        guards = []
        for (bi, c, te, fe, cs) in b.switches_on_call(lambda c: re.search(r'(Vec::<.*>|\[.*\]>|BTreeSet::<.*>)::is_empty$', c.name) is not None):
            guards.append((cs, fe, te))
        # `len() == 0` / `len() < 1` / `len() >= 1` forms
        for bj, blk in enumerate(b.blocks):
            if not b.live[bj] or blk['term']['k'] != 'switch':
                continue
            c = b.switch_cond(bj)
            if c and c['kind'] == 'bool':
                for o in c['origin']:
                    if o[0] == 'rv' and o[2]['k'] == 'binop' and o[2]['op'] in ('Eq', 'Ne', 'Lt', 'Ge', 'Gt', 'Le'):
                        for (x, y, flip) in ((o[2]['a'], o[2]['b'], False), (o[2]['b'], o[2]['a'], True)):
                            lx = op_local(x)
                            if lx is None or op_const_bits(y) is None:
                                continue
                            lens = [t for t in b.trace_local(lx) if t[0] == 'call' and re.search(r'::len$', t[1].name)]
                            if not lens:
                                continue
                            e = b.bool_edges(bj)
                            if not e:
                                continue
                            k = op_const_bits(y)
                            op = o[2]['op']
                            if flip:
                                op = {'Lt': 'Gt', 'Gt': 'Lt', 'Le': 'Ge', 'Ge': 'Le'}.get(op, op)
                            # edge on which len >= 1
                            nonempty = None
                            if (op, k) in (('Eq', 0), ('Lt', 1), ('Le', 0)):
                                nonempty, empty = e[1], e[0]
                            elif (op, k) in (('Ne', 0), ('Ge', 1), ('Gt', 0)):
                                nonempty, empty = e[0], e[1]
                            if nonempty:
                                guards.append((lens[0][1], nonempty, empty))
        # `let first = list.first()?` / `iter().min()?` / `match list.last() { Some(..) => .., None => return None }`:
        # the Some edge of an element accessor proves the list non-empty just as well
        for cs in b.calls:
            if cs.dest_local() is not None and re.search(r'(::first|::last|::split_first|::split_last|Iterator>::min|Iterator>::max|Iterator>::next|::first_key_value|::last_key_value|::pop_first|::pop_last|::pop)(::<.*>)?$', cs.name) \
                    and b.local_ty(cs.dest_local()).startswith('std::option::Option<'):
                re_ = result_edges(b, cs.dest_local())
                for oe in re_['ok']:
                    for ee in re_['err']:
                        guards.append((cs, oe, ee))
        for (p, rv) in aggs:
            n += 1
            ok = False
            for (cs, nonempty, empty) in guards:
                src = cs.arg_local(0)
                if b.edge_dominates(nonempty, p) and p not in b.reach([empty[1]], avoid_edges=[nonempty]):
                    ok = True
            if not ok:
                # built before the test, HANDED OUT only after it: `(!files.is_empty()).then_some(FileTracker { files })`
                al_ = None
                for bi2, blk2 in enumerate(b.blocks):
                    for si2, st2 in enumerate(blk2['stmts']):
                        if b.live[bi2] and b.pstart[bi2] + si2 == p and st2['k'] == 'assign' and not st2['place']['p']:
                            al_ = st2['place']['l']
                if al_ is not None:
                    carriers = [e for e in b.exits() if e['kind'] == 'some' and e.get('ops') and op_local(e['ops'][0]) is not None
                                and any(o[0] == 'rv' and o[1] == p for o in b.trace_local(op_local(e['ops'][0])))]
                    whole = [e for e in b.exits() if e['kind'] in ('value', 'forward', 'ok') and e not in carriers]
                    if carriers and not whole and all(any(b.edge_dominates(nonempty, e['point']) and e['point'] not in b.reach([empty[1]], avoid_edges=[nonempty]) for (_cs, nonempty, empty) in guards) for e in carriers):
                        ok = True
            if not ok:
                # built from constants (e.g. FileTracker::new() = {0}): no input list to test
                back = set()
                for o in rvalue_operands(rv):
                    back |= fl.backward(set(fl.op_nodes(o)))
                from_param = any(('l', i) in back for i in range(1, b.arg_count + 1))
                fills = any(re.search(r'BTreeSet::<.*>::insert$|From<\[.*; \d+\]>>::from$', c.name) and p in b.reach_after(c.point) for c in b.calls)
                if not from_param and fills:
                    ok = True
            ctx.check(ok, '%s:FileTracker' % b.path, where(b, p), 'tracker built on the non-empty edge of the emptiness test',
                      'a FileTracker is built without the list of file numbers having been found non-empty: an empty tracker panics in first() and makes open start a fresh log over existing WAL files')
    if n == 0:
        ctx.missing('tracker-constructions', 'no FileTracker construction found')


@rule('FT3', ['C17', 'C01'], floor=1, template='provenance')
def ft3(ctx):
    """A tracker built from a list of file numbers tracks exactly the numbers of that list: nothing that
    synthesises numbers (a range between bounds, successors, repeat) and nothing that thins the list out
    (filter, skip, take, step_by) feeds its collection. Numbers inside a gap were never validated by the
    directory scan; a tracker that invents them opens, writes and unlinks files the scan rejected or never saw."""
    n = 0
    for b in ctx.f.bodies.values():
        if b.generic_dup() or b.is_test or b.is_closure:
            continue
        aggs = []
        for bi, blk in enumerate(b.blocks):
            if not b.live[bi]:
                continue
            for si, st in enumerate(blk['stmts']):
                if st['k'] == 'assign' and st['rv']['k'] == 'agg' and strip_crate(st['rv'].get('adt') or '').endswith('rolling::file_number::FileTracker'):
                    aggs.append((b.pstart[bi] + si, st['rv']))
        if not aggs:
            continue
        list_params = [i for i in range(1, b.arg_count + 1) if re.search(r'\bu64\b', b.local_ty(i)) and re.search(r'Vec<|\[u64\]|IntoIter|Iterator|BTreeSet<', b.local_ty(i))]
        if not list_params:
            continue
        fl = flow_of(b)
        for (p, rv) in aggs:
            n += 1
            back = set()
            for o in rvalue_operands(rv):
                back |= fl.backward(set(fl.op_nodes(o)))
            from_list = any(('l', i) in back for i in list_params)
            synth = []
            for c in b.calls:
                if not any(x in back for x in fl.call_result_nodes(c)):
                    continue
                if re.search(r'RangeInclusive::<.*>::new$|iter::successors|iter::repeat|iter::from_fn|Iterator>::(filter|filter_map|skip|skip_while|take|take_while|step_by)(::<.*>)?$|::dedup_by_key|::retain|::truncate|::drain|::split_off', c.name):
                    synth.append(c.name[-50:])
            for bi, blk in enumerate(b.blocks):
                if not b.live[bi]:
                    continue
                for st in blk['stmts']:
                    if st['k'] == 'assign' and st['rv']['k'] == 'agg' and re.search(r'ops::Range(Inclusive|From)?$', st['rv'].get('adt') or '') \
                            and any(x in back for x in fl.write_nodes(st['place'])):
                        synth.append(st['rv']['adt'])
            ctx.check(from_list and not synth, '%s:exact-list' % b.path, where(b, p), 'the tracker collection comes from the list parameter, element for element',
                      'the tracker is not built from exactly the scanned file numbers (%s): numbers the directory scan never validated get opened, written or unlinked, or scanned files are left out'
                      % (sorted(set(synth)) or 'the list parameter does not reach the collection'))
    if n == 0:
        ctx.missing('tracker-from-list', 'no FileTracker construction from a list of numbers found')


@rule('FT2', ['C17', 'C01', 'C02'], floor=1, template='no-arithmetic')
def ft2(ctx):
    """The file after `curr` is the smallest TRACKED number above it, whatever the gap: the successor lookup of
    the tracker does no arithmetic on the current number (a `curr + 1` lookup stops the reader at the first
    gap and leaves valid WAL files unread, then collides with them at roll-over)."""
    n = 0
    FN = 'rolling::file_number::FileNumber'
    for b in ctx.f.bodies.values():
        if b.generic_dup() or b.is_test or b.is_closure or not b.path.startswith('rolling::file_number::FileTracker::'):
            continue
        if b.ret_ty != 'std::option::Option<%s>' % FN or b.arg_count != 2 or b.local_ty(1) != '&rolling::file_number::FileTracker' or b.local_ty(2) != '&' + FN:
            continue
        n += 1
        fl = flow_of(b)
        t = fl.forward(set(fl.local_sources(2)))
        ar = []
        for bi, blk in enumerate(b.blocks):
            if not b.live[bi]:
                continue
            for st in blk['stmts']:
                if st['k'] == 'assign' and st['rv']['k'] == 'binop' and st['rv']['op'] not in ('Eq', 'Ne', 'Lt', 'Le', 'Gt', 'Ge') and (fl.op_tainted(st['rv']['a'], t) or fl.op_tainted(st['rv']['b'], t)):
                    ar.append(st['rv']['op'])
        ordered = any(re.search(r'BTreeSet::<.*>::(range|iter|split_off|upper_bound|lower_bound)', c.name) for c in b.calls)
        ctx.check(not ar and ordered, '%s:successor' % b.path, b.span, 'successor = ordered lookup above the current number, no arithmetic on it',
                  'the successor of a WAL file is computed from its number (%s) instead of looked up in the ordered set of tracked files: gaps in the numbering (allowed) would stop recovery early' % (sorted(set(ar)) or 'no ordered lookup'))
    if n == 0:
        ctx.missing('successor', 'no FileTracker fn(&self, &FileNumber) -> Option<FileNumber> found')


@rule('FH2', ['C01', 'C06', 'C18'], floor=1, template='provenance')
def fh2(ctx):
    """The file a new record is attributed to is the writer's current file as read BEFORE the record is written
    (a clone of the `&FileNumber` accessor result): never a later file (the successor in the tracker, or the
    current file read after the write) -- the file holding the first bytes of the record must stay pinned."""
    FN = 'rolling::file_number::FileNumber'
    n = 0
    for b in api_mut(ctx):
        if b.generic_dup():
            continue
        fl = flow_of(b)
        from vocab import log_sites
        logs = [cs.point for cs in log_sites(ctx, b)]
        for cs in b.calls:
            if cs.node is None or not ctx.E.call_may(cs, 'MEM'):
                continue
            fargs = [a for a in cs.args if op_local(a) is not None and b.local_ty(op_local(a)) == '&' + FN]
            if not fargs:
                continue
            n += 1
            back = set()
            for a in fargs:
                back |= fl.backward(set(fl.op_nodes(a)))
            bad = []
            okc = 0
            for c2 in b.calls:
                dl = c2.dest_local()
                if dl is None or FN not in b.local_ty(dl) or not any(x in back for x in fl.call_result_nodes(c2)):
                    continue
                ty = b.local_ty(dl)
                if c2.name == '<%s as std::clone::Clone>::clone' % FN:
                    if logs and not all(b.dominates(c2.point, lp) or lp not in b.reach([b.entry]) for lp in logs if cs.point in b.reach_after(lp)):
                        bad.append('the handle is cloned at %s, after the WAL write' % b.loc(c2.point))
                    okc += 1
                elif ty == '&' + FN:
                    continue        # accessor of the current file
                else:
                    bad.append('%s (returning %s) feeds the handle' % (c2.path.split('::')[-1], ty.split('::')[-1]))
            ctx.check(okc > 0 and not bad, '%s:%s' % (b.path, cs.path.split('::')[-1]), where(b, cs.point), 'records are attributed to a clone of the current file taken before the write',
                      'a new record can be attributed to a file other than the one that was current before it was written (%s): the file holding its first bytes could be reclaimed while the record is retained' % '; '.join(bad or ['no clone of the current file']))
    if n == 0:
        ctx.missing('append', 'no in-memory append taking a &FileNumber found in the mutating API')


@rule('RP5', ['C09', 'C01', 'C04'], floor=1, template='must-pass-through')
def rp5(ctx):
    """Replay of a position record ALWAYS re-aligns the queue (ack_position decides itself whether the queue can be
    kept): the call is not skipped for a queue that is already known -- that is exactly the case in which a lost
    DeleteQueue / Truncate entry is absorbed."""
    from rules_open import replay_sites
    from rules_log import replay_arms
    from rules_misc import expand_arm_sites
    rs = replay_sites(ctx)
    if not rs:
        ctx.missing('replay', 'no replay loop')
        return
    b, cs0 = rs[0]
    arms = replay_arms(ctx, b, cs0)
    if 'RecordPosition' not in arms:
        ctx.missing('arm', 'no RecordPosition replay arm')
        return
    (edge, region) = arms['RecordPosition']
    n = 0
    for (host, cs, _res) in expand_arm_sites(ctx, b, region):
        if cs.node is None:
            continue
        cb = ctx.f.bodies[cs.node]
        if cb.path.startswith('mem::queues::MemQueues::') and cb.arg_count == 3 and cb.local_ty(3) == 'u64' and cb.ret_ty == '()':
            n += 1
            if host is b:
                # from the arm's entry the replay loop cannot come round again (or leave successfully) without the call
                r_ = b.reach([edge[1]], avoid=[cs.point])
                skipped = cs0.point in r_ or any(e['point'] in r_ and e['kind'] in ('ok',) for e in b.exits())
            else:
                exits = [e['point'] for e in host.ok_exits()] or host.return_points()
                skipped = any(e in host.reach([host.entry], avoid=[cs.point]) for e in exits)
            ctx.check(not skipped, 'position-arm:always-realigns', where(host, cs.point), 'every path through the RecordPosition arm calls the re-alignment',
                      'replaying a position record can skip the re-alignment of the queue (e.g. when the queue is already known): a stale queue left by a lost DeleteQueue / Truncate entry would survive and make later entries fail')
    if n == 0:
        ctx.missing('realign', 'no re-alignment call in the RecordPosition replay arm')
    # ... and the same for the two other single-operation entries: a Truncate / DeleteQueue entry is in the log because
    # the live call DID it; replay that applies it only under a condition of its own (a "stale entry" guard comparing
    # positions, say) rebuilds a state the live log never had. The only skip that changes nothing is "the queue is not
    # known" (the operation would have been a no-op): the false edge of a MemQueues predicate is let through.
    for arm in ('Truncate', 'DeleteQueue'):
        if arm not in arms:
            continue
        (edge, region) = arms[arm]
        muts = []
        for (host, cs, _res) in expand_arm_sites(ctx, b, region):
            if cs.node is None:
                continue
            cb = ctx.f.bodies[cs.node]
            if cb.path.startswith('mem::queues::MemQueues::') and cb.arg_count >= 2 and cb.local_ty(1).startswith('&mut '):
                muts.append((host, cs))
        if not muts:
            continue        # LOG2 reports an arm without its operation
        absent = [fe for (_bi, _c, _te, fe, c_) in b.switches_on_call(lambda c: c.path.startswith('mem::queues::MemQueues::') and c.node in ctx.f.bodies
                                                                     and ctx.f.bodies[c.node].ret_ty == 'bool' and ctx.f.bodies[c.node].local_ty(1).startswith('&mem::'))]
        here = [cs.point for (host, cs) in muts if host is b]
        via = [cs for cs in b.calls if cs.point in region and cs.node is not None and any(host is ctx.f.bodies[cs.node] for (host, _c) in muts)]
        r_ = b.reach([edge[1]], avoid=here + [c.point for c in via], avoid_edges=absent)
        skipped = cs0.point in r_ or any(e['point'] in r_ and e['kind'] in ('ok',) for e in b.exits())
        for (host, cs) in muts:
            if host is not b:
                exits = [e['point'] for e in host.ok_exits()] or host.return_points()
                skipped = skipped or any(e in host.reach([host.entry], avoid=[c.point for (h2, c) in muts if h2 is host]) for e in exits)
        ctx.check(not skipped, '%s-arm:always-applies' % arm, where(b, edge[1]), 'every path through the %s arm applies the operation (or skips it only for an unknown queue)' % arm,
                  'replaying a %s entry can skip the operation for a queue that exists (a guard of its own on the replay side): the entry is in the log because the live call did it, the recovered state would differ from the live one' % arm,
                  detail={'path': b.witness(edge[1], cs0.point, avoid=here + [c.point for c in via], avoid_edges=absent)} if skipped and cs0.point in r_ else None)


@rule('MQ1', ['C01', 'C04', 'C18', 'C09'], floor=2, template='provenance')
def mq1(ctx):
    """A queue enters the queue map FRESH: the value inserted is built on the spot by `MemQueue::default()` (a created
    queue starts at position 0, which is what its WAL entry says) or `MemQueue::with_next_position(p)` (replay of a
    recorded position) -- directly, through a local closure / helper that does nothing else, or through the entry
    API. A recycled or otherwise pre-existing MemQueue carries a start position, file handles or records of another
    incarnation: live state and replayed state diverge, and positions are handed out twice."""
    MQ = 'mem::queue::MemQueue'
    def is_ctor_call(cs):
        return cs.path.endswith('MemQueue::with_next_position') or re.search(r'<mem::queue::MemQueue as std::default::Default>::default$', cs.name) is not None
    def fresh_body(cb, depth):
        """every value cb returns is a MemQueue built on the spot"""
        ex = cb.exits()
        if not ex or depth > 2:
            return False
        for e in ex:
            if e['kind'] == 'forward' and e.get('call') is not None and (is_ctor_call(e['call']) or (e['call'].node in ctx.f.bodies and fresh_body(ctx.f.bodies[e['call'].node], depth + 1))):
                continue
            if e['kind'] == 'value' and e.get('adt') == MQ:
                continue
            return False
        return True
    def fresh_local(b, al):
        org = b.trace_local(al) if al is not None else []
        if not org:
            return False
        for o in org:
            if o[0] == 'call' and (is_ctor_call(o[1]) or (o[1].node in ctx.f.bodies and fresh_body(ctx.f.bodies[o[1].node], 0))):
                continue
            if o[0] == 'rv' and o[2]['k'] == 'agg' and strip_crate(o[2].get('adt') or '') == MQ:
                continue
            return False
        return True
    def fresh_fn_value(b, cs):
        """the function value handed to or_insert_with at call cs builds a fresh queue"""
        for (p_, fj) in b.fn_values:
            if b.pstart[cs.block] <= p_ <= cs.point:
                nm = strip_crate(fj.get('name') or fj.get('path') or '')
                if nm.endswith('MemQueue::with_next_position') or 'MemQueue as std::default::Default>::default' in nm:
                    return True
                node = fj.get('node')
                if node in ctx.f.bodies and fresh_body(ctx.f.bodies[node], 0):
                    return True
        return False
    n = 0
    # ... and a queue built for a position is built for a position the CALLER named (a parameter of the function that
    # inserts it: replay's recorded position) or a constant -- not one remembered from an earlier incarnation, which the
    # WAL entry of the call (RecordPosition 0 for a created queue) knows nothing about
    for b in ctx.f.bodies.values():
        if b.generic_dup() or b.is_test or not b.path.startswith('mem::queues::MemQueues::'):
            continue
        kq = 0
        for cs in b.calls:
            if not cs.path.endswith('MemQueue::with_next_position') or not cs.args:
                continue
            alts = b.affine_alts(cs.args[0])
            if alts is None:
                continue
            kq += 1
            good = all((not a[0] and True) or (a[1] == 0 and len(a[0]) == 1 and list(a[0].items())[0][0][0] == 'param' and list(a[0].values()) == [1]) for a in alts)
            ctx.check(good, '%s:position-from-caller#%d' % (b.path, kq), where(b, cs.point), 'the position a queue is built for is a parameter of the inserting function (or a constant)',
                      'a queue is built for a position that is neither a parameter of %s nor a constant (%s): live state and the WAL entry of the call disagree, replay rebuilds the queue elsewhere' %
                      (b.path.split('::')[-1], ' | '.join(' + '.join([str(k_[-1]) for k_ in sorted(a[0], key=str)] + ([str(a[1])] if a[1] or not a[0] else [])) for a in alts)))
    for b in ctx.f.bodies.values():
        if b.generic_dup() or b.is_test:
            continue
        kk = 0
        for cs in b.calls:
            nm = cs.name
            if 'mem::queue::MemQueue' not in nm:
                continue
            ok = None
            if re.match(r'^std::collections::(HashMap|BTreeMap)::<std::string::String, mem::queue::MemQueue.*>::insert$', nm):
                ok = fresh_local(b, cs.arg_local(2) if len(cs.args) > 2 else None)
            elif re.search(r'(hash_map|btree_map)::VacantEntry::<.*>::insert(_entry)?$', nm) or re.search(r'(hash_map|btree_map)::Entry::<.*>::or_insert$', nm):
                ok = fresh_local(b, cs.arg_local(1) if len(cs.args) > 1 else None)
            elif re.search(r'(hash_map|btree_map)::Entry::<.*>::or_default$', nm):
                ok = True
            elif re.search(r'(hash_map|btree_map)::Entry::<.*>::or_insert_with(_key)?(::<.*>)?$', nm):
                ok = fresh_fn_value(b, cs)
            if ok is None:
                continue
            n += 1
            kk += 1
            ctx.check(ok, '%s:insert#%d' % (b.path, kk), where(b, cs.point), 'the queue inserted is built on the spot (default / with_next_position)',
                      'a MemQueue that was not built on the spot is inserted into the queue map (recycled / moved from elsewhere): it can carry the start position, handles or records of another incarnation')
    if n == 0:
        ctx.missing('inserts', 'no insertion into the queue map found')


@rule('MQ3', ['C01', 'C04'], floor=1, template='provenance')
def mq3(ctx):
    """A queue rebuilt for a recorded position stands AT that position: every integer field of MemQueue that
    `next_position()` can answer from (today: `start_position`, the records being empty) is initialised from the
    parameter of `with_next_position` -- not left at its default, not derived from anything else. A second field
    caching the next position that the replay-only constructor forgets is invisible to every test that does not
    restart after the files holding the queue's history were reclaimed; the queue then restarts at 0."""
    MQ = 'mem::queue::MemQueue'
    nb = ctx.fn('mem::queue::MemQueue::next_position')
    wb = ctx.fn('mem::queue::MemQueue::with_next_position')
    if not nb or not wb or MQ not in ctx.f.adts:
        ctx.missing('anchors', 'MemQueue::next_position / MemQueue::with_next_position not found')
        return
    nb, wb = nb[0], wb[0]
    fields = ctx.f.adts[MQ]['variants'][0]['fields']
    ints = {f['name']: i for (i, f) in enumerate(fields) if f['ty'] in ('u64', 'usize', 'u32', 'i64')}
    # integer fields of the queue that next_position() reads (directly or through a crate-local helper one level down)
    def int_reads(b, depth=0):
        out = set()
        for bi, blk in enumerate(b.blocks):
            if not b.live[bi]:
                continue
            for st in blk['stmts']:
                if st['k'] != 'assign':
                    continue
                for pl in rvalue_places(st['rv']):
                    m = mem_loc(pl)
                    if m and m.startswith('MemQueue.') and m.split('.', 1)[1] in ints:
                        out.add(m.split('.', 1)[1])
        if depth < 1:
            for cs in b.calls:
                if cs.node in ctx.f.bodies and cs.path.startswith('mem::queue::MemQueue::'):
                    out |= int_reads(ctx.f.bodies[cs.node], depth + 1)
        return out
    rd = int_reads(nb)
    if not rd:
        ctx.missing('reads', 'next_position() reads no integer field of MemQueue')
        return
    # what with_next_position puts into those fields
    aggs = [(b_.pstart[bi] + si, st['rv']) for b_ in [wb] for bi, blk in enumerate(b_.blocks) if b_.live[bi] for si, st in enumerate(blk['stmts'])
            if st['k'] == 'assign' and st['rv']['k'] == 'agg' and strip_crate(st['rv'].get('adt') or '') == MQ]
    for fname in sorted(rd):
        vals = []
        for (p, rv) in aggs:
            if ints[fname] < len(rv['ops']):
                vals.append((p, rv['ops'][ints[fname]]))
        for bi, blk in enumerate(wb.blocks):
            if not wb.live[bi]:
                continue
            for si, st in enumerate(blk['stmts']):
                if st['k'] != 'assign' or st['rv']['k'] != 'use':
                    continue
                pl = st['place']
                if pl['p'] and pl['p'][-1]['k'] == 'field' and (pl['p'][-1].get('name') == fname or (pl['p'][-1].get('name') is None and pl['p'][-1].get('i') == ints[fname])) \
                        and 'MemQueue' in (pl['p'][-1].get('adt') or wb.local_ty(pl['l'])):
                    vals = [(wb.pstart[bi] + si, st['rv']['op'])]          # a later store overrides what the aggregate / default put there
        if not vals:
            ctx.check(False, 'rebuilt-at-position:%s' % fname, wb.span, '', 'with_next_position never initialises MemQueue.%s, which next_position() answers from: a queue rebuilt from a position record would not stand at that position' % fname)
            continue
        for (p, op) in vals:
            af = wb.affine(op)
            if af is None:
                continue        # not an expression this evaluator reads: no verdict on this field
            good = af[1] == 0 and list(af[0].items()) == [(('param', 1), 1)]
            ctx.check(good, 'rebuilt-at-position:%s' % fname, where(wb, p), 'MemQueue.%s := the position parameter' % fname,
                      'with_next_position leaves MemQueue.%s (read by next_position()) at %s instead of the requested position: after a restart a queue whose history was reclaimed would restart from the wrong position' %
                      (fname, ' + '.join([str(k_[-1]) for k_ in sorted(af[0], key=str)] + ([str(af[1])] if af[1] or not af[0] else []))))


@rule('MQ4', ['C04', 'C01'], floor=2, template='provenance')
def mq4(ctx):
    """The position arithmetic of a queue, where this analysis can read it (affine forms; no verdict elsewhere):
    `next_position()` answers (position of the LAST record meta) + 1, or `start_position` when there is none;
    `last_position()` is `next_position() - 1`; the meta pushed by `append_record` carries the position it was asked
    to append at and the length of the payload buffer BEFORE the payload is added. Each is an off-by-one away from a
    queue that hands a position out twice or reads a record's bytes from its neighbour."""
    MQ = 'mem::queue::MemQueue'
    ret = {'k': 'copy', 'place': {'l': 0, 'p': []}}
    n = 0
    nb = ctx.fn('mem::queue::MemQueue::next_position')
    if nb:
        b = nb[0]
        alts = b.affine_alts(ret)
        readable = alts is not None and all(all(k_[0] == 'mem' and k_[1] in ('RecordMeta.position', 'MemQueue.start_position') for k_ in a[0]) for a in alts)
        if readable:
            n += 1
            want = [({('mem', 'MemQueue.start_position'): 1}, 0), ({('mem', 'RecordMeta.position'): 1}, 1)]
            good = sorted(alts, key=str) == sorted(want, key=str)
            # the meta read is the LAST one
            last_ok = any(re.search(r'::(last|last_mut|next_back)$', cs.name) for cs in b.calls) and not any(re.search(r'::(first|first_mut)$', cs.name) for cs in b.calls)
            ctx.check(good and last_ok, 'next-is-last-plus-one', b.span, 'next_position() = last meta position + 1 | start_position',
                      'next_position() answers %s%s, not (position of the last record) + 1 or start_position: positions would be handed out twice or skipped' %
                      (' | '.join(' + '.join([str(k_[1]) for k_ in sorted(a[0], key=str)] + ([str(a[1])] if a[1] or not a[0] else [])) for a in alts), '' if last_ok else ' (not read from the last meta)'))
    lb = ctx.fn('mem::queue::MemQueue::last_position')
    if lb:
        b = lb[0]
        alts = b.affine_alts(ret)
        if alts is not None and all(all(k_[0] == 'call' and k_[1].endswith('MemQueue::next_position') for k_ in a[0]) and a[0] for a in alts):
            n += 1
            good = all(list(a[0].values()) == [1] and a[1] == -1 for a in alts)
            ctx.check(good, 'last-is-next-minus-one', b.span, 'last_position() = next_position() - 1',
                      'last_position() is not next_position() - 1 (%s)' % ' | '.join('next_position%+d' % a[1] for a in alts))
    ab = ctx.fn('mem::queue::MemQueue::append_record')
    if ab and 'mem::queue::RecordMeta' in ctx.f.adts:
        b = ab[0]
        flds = [f['name'] for f in ctx.f.adts['mem::queue::RecordMeta']['variants'][0]['fields']]
        pos_params = [i for i in range(1, b.arg_count + 1) if b.local_ty(i) == 'u64']
        exts = [cs for cs in b.calls if cs.node is not None and ctx.f.bodies[cs.node].path.startswith('mem::rolling_buffer::RollingBuffer::') and ctx.E.call_may(cs, 'MEM')]
        for bi, blk in enumerate(b.blocks):
            if not b.live[bi]:
                continue
            for si, st in enumerate(blk['stmts']):
                if st['k'] != 'assign' or st['rv']['k'] != 'agg' or strip_crate(st['rv'].get('adt') or '') != 'mem::queue::RecordMeta':
                    continue
                p = b.pstart[bi] + si
                ops = dict(zip(flds, st['rv']['ops']))
                if 'position' in ops and len(pos_params) == 1:
                    af = b.affine(ops['position'])
                    if af is not None:
                        n += 1
                        ctx.check(af == ({('param', pos_params[0]): 1}, 0), 'meta-position-is-target', where(b, p), 'the pushed meta carries the position asked for',
                                  'the record meta pushed by append_record carries %s, not the position it was asked to append at' % (' + '.join([str(k_[-1]) for k_ in sorted(af[0], key=str)] + ([str(af[1])] if af[1] or not af[0] else []))))
                if 'start_offset' in ops:
                    af = b.affine(ops['start_offset'], phi=True)
                    if af is not None and af[0]:
                        n += 1
                        lens = [k_ for k_ in af[0] if k_[0] == 'call' and k_[1].endswith('RollingBuffer::len')]
                        good = af[1] == 0 and len(af[0]) == 1 and len(lens) == 1 and af[0][lens[0]] == 1
                        # read before the payload goes in
                        lc = [cs for cs in b.calls if cs.path.endswith('RollingBuffer::len') and b.dominates(cs.point, p)]
                        before = bool(lc) and not any(b.dominates(e.point, c.point) for e in exts for c in lc)
                        ctx.check(good and before, 'meta-offset-is-length-before', where(b, p), 'the pushed meta starts at the length of the payload buffer before the payload is added',
                                  'the record meta pushed by append_record starts at %s%s, not at the length of the payload buffer before this payload is added: the record would be read back from its neighbour\'s bytes' %
                                  (' + '.join([str(k_[1]).split('::')[-1] + '()' if k_[0] == 'call' else str(k_[-1]) for k_ in sorted(af[0], key=str)] + ([str(af[1])] if af[1] else [])), '' if before or not good else ' (read after the payload was added)'))
    if n == 0:
        ctx.missing('forms', 'none of next_position / last_position / the pushed RecordMeta could be read as affine forms')


@rule('RP6', ['C01', 'C18', 'C02', 'C09'], floor=3, template='no-reach')
def rp6(ctx):
    """Replay fails the open only for an AppendRecords entry that cannot be applied. A Truncate, RecordPosition or
    DeleteQueue entry whose queue replay does not know is NORMAL -- the files that created the queue were reclaimed
    precisely because nothing of it was retained -- and is applied as far as it can be; turning it into an error makes
    every other queue unreadable after an ordinary delete + GC."""
    from rules_open import replay_sites
    from rules_log import replay_arms
    rs = replay_sites(ctx)
    if not rs:
        ctx.missing('replay', 'no replay loop')
        return
    b, cs0 = rs[0]
    arms = replay_arms(ctx, b, cs0)
    n = 0
    for kind in ('Truncate', 'RecordPosition', 'DeleteQueue'):
        if kind not in arms:
            continue
        n += 1
        (edge, region) = arms[kind]
        r_ = b.reach([edge[1]], avoid=[cs0.point])
        bad = [e for e in b.exits() if e['kind'] in ('err', 'err_prop') and e['point'] in r_]
        ctx.check(not bad, 'arm:%s:cannot-fail-open' % kind, where(b, edge[1]), 'the %s arm of replay always goes back to the reader' % kind,
                  'replaying a %s entry can make open fail (%s): after an ordinary delete / truncate + GC the entry refers to a queue replay no longer knows, and every other queue becomes unreadable' % (kind, b.loc(bad[0]['point']) if bad else '-'))
    if n == 0:
        ctx.missing('arms', 'no Truncate / RecordPosition / DeleteQueue replay arm found')
    # ... and open manufactures a Corruption of its own only there: a `Corruption` error value BUILT in the open body lies in
    # the AppendRecords arm (the one entry kind whose failure to apply means undetected damage). A verdict passed after the
    # loop ("corrupted entries were seen and nothing could be rebuilt: refuse") turns damage that cost one entry into a
    # log that cannot be opened at all.
    if 'AppendRecords' in arms:
        (a_edge, a_region) = arms['AppendRecords']
        a_reach = b.reach([a_edge[1]], avoid=[cs0.point])
        built = [e for e in b.exits() if e['kind'] == 'err' and e.get('variant') == 'Corruption']
        outside = [e for e in built if e['point'] not in a_reach and e.get('ret_point', e['point']) not in a_reach]
        ctx.check(not outside, 'corruption-only-from-append-arm', where(b, outside[0]['point']) if outside else b.span, 'open builds a Corruption error only inside the AppendRecords arm of replay',
                  'open can fail with a Corruption of its own making outside the replay of an AppendRecords entry (%s): damage that costs one entry would make the whole log unopenable' % ', '.join(b.loc(e['point']) for e in outside))


@rule('FH3', ['C06', 'C01'], floor=1, template='provenance+guard')
def fh3(ctx):
    """Replay attributes a record to the file the reader is on when it STARTS reading that record: the handle handed to
    the in-memory append is a clone of the reader's current file taken inside the replay loop, before the read of the
    same iteration (on every path round the loop -- a clone refreshed only after a successfully applied record goes
    stale across a skipped, damaged one, and pins or releases the wrong file)."""
    from rules_open import replay_sites
    from rules_log import replay_arms
    from rules_misc import expand_arm_sites
    rs = replay_sites(ctx)
    if not rs:
        ctx.missing('replay', 'no replay loop')
        return
    b, cs0 = rs[0]
    arms = replay_arms(ctx, b, cs0)
    if 'AppendRecords' not in arms:
        ctx.missing('arm', 'no AppendRecords replay arm')
        return
    (edge, region) = arms['AppendRecords']
    loops = [L for L in b.loops() if cs0.block in L['blocks']]
    if not loops:
        ctx.missing('loop', 'the record reader is not called in a loop')
        return
    L = min(loops, key=lambda L_: len(L_['blocks']))
    FN = 'rolling::file_number::FileNumber'
    n = 0
    for (host, cs, _res) in expand_arm_sites(ctx, b, region):
        if host is not b or cs.node is None or not ctx.E.call_may(cs, 'MEM'):
            continue
        fargs = [a for a in cs.args if op_local(a) is not None and b.local_ty(op_local(a)).replace('&', '').strip() == FN]
        if not fargs:
            continue
        n += 1
        # origins: clone calls reached through re-borrows
        clones = []
        other = []
        seen, work = set(), [op_local(fargs[0])]
        while work:
            l = work.pop()
            if l is None or l in seen:
                continue
            seen.add(l)
            for o in b.trace_local(l):
                if o[0] == 'call' and o[1].name.endswith('as std::clone::Clone>::clone') and FN in o[1].name:
                    clones.append(o[1])
                elif o[0] == 'rv' and o[2]['k'] == 'ref' and not [e for e in o[2]['place']['p'] if e['k'] != 'deref']:
                    work.append(o[2]['place']['l'])
                elif o[0] == 'call' and o[1].name.split('::')[-1] in ('deref', 'as_ref', 'borrow'):
                    work.append(o[1].arg_local(0))
                else:
                    other.append(o)
        ok = bool(clones) and not other
        why = 'the handle does not come from a clone of the reader\'s current file'
        for c in clones:
            if c.block not in L['blocks']:
                ok = False
                why = 'the clone at %s is taken outside the replay loop' % b.loc(c.point)
            elif not b.dominates(c.point, cs0.point):
                ok = False
                why = 'the clone at %s is not taken before the read of the same iteration' % b.loc(c.point)
        ctx.check(ok, 'replay:file-of-record', where(b, cs.point), 'the handle stored with a replayed record is the reader\'s current file cloned at the top of the iteration',
                  'replay can attribute a record to a stale file (%s): a WAL file stays pinned although nothing retained lives in it, or is released while it holds a retained record' % why)
    if n == 0:
        ctx.missing('append', 'no in-memory append taking a FileNumber in the AppendRecords replay arm')


@rule('MQ2', ['C01', 'C04', 'C18'], floor=1, template='provenance')
def mq2(ctx):
    """A queue is empty when it holds no RECORD: `MemQueue::is_empty` is decided by the record metas, not by the payload
    bytes (records with empty payloads are records: a queue made of them is not empty, and recording a position for it
    -- which replay answers by resetting the queue -- would wipe them)."""
    bs = ctx.fn('mem::queue::MemQueue::is_empty')
    if not bs:
        ctx.missing('is_empty', 'MemQueue::is_empty not found')
        return
    b = ctx.f.inlined(bs[0], lambda cb: len(cb.blocks) < 40, 'mq2')
    fl = flow_of(b)
    back = fl.backward({('l', 0)})
    metas = any(x[0] == 'm' and x[1] == 'MemQueue.record_metas' for x in back)
    others = sorted(x[1] for x in back if x[0] == 'm' and x[1].startswith('MemQueue.') and x[1] != 'MemQueue.record_metas')
    ctx.check(metas and not others, 'is_empty:decided-by-metas', b.span, 'is_empty is computed from record_metas only',
              'MemQueue::is_empty is not decided by the record metas alone (reads %s): a queue holding only empty-payload records would be treated as empty, its position recorded and the queue reset at the next replay' % (others or 'nothing of record_metas'))
