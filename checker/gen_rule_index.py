#!/usr/bin/env python3
"""Regenerates Appendix B of DESIGN.md (rule index) from the rule registry."""
import glob, importlib, os, sys
HERE = os.path.dirname(os.path.abspath(__file__))
VERIF = os.path.dirname(HERE)
sys.path.insert(0, HERE)
from engine import RULES, PROP_RULES
for m in sorted(glob.glob(os.path.join(HERE, 'rules_*.py'))):
    importlib.import_module(os.path.basename(m)[:-3])
props_of = {}
for p, rs in PROP_RULES.items():
    for r in rs:
        props_of.setdefault(r, []).append(p)
rows = ['| rule | properties | template | floor | statement |', '|---|---|---|---|---|']
for rid in sorted(RULES):
    r = RULES[rid]
    rows.append('| %s | %s | %s | %d | %s |' % (rid, ', '.join(sorted(props_of.get(rid, []))), r['template'], r['floor'], ' '.join(r['doc'].split())))
per_prop = ['| property | rules |', '|---|---|'] + ['| %s | %s |' % (p, ' '.join(PROP_RULES[p])) for p in sorted(PROP_RULES)]
block = '## Appendix B. Rule index (generated from the registry by checker/gen_rule_index.py)\n\n%d rules. Floors are the instance counts confirmed by hand; a rule matching fewer instances fails closed.\n\n' % len(RULES) + '\n'.join(per_prop) + '\n\n' + '\n'.join(rows) + '\n'
p = os.path.join(VERIF, 'DESIGN.md')
s = open(p).read()
mark = '## Appendix B. Rule index'
if mark in s:
    s = s[:s.index(mark)]
s = s.rstrip() + '\n\n' + block
open(p, 'w').write(s)
print(len(RULES), 'rules')
