#!/usr/bin/env python3
"""sweep.py --json output -> sweep_baseline.json (kill matrix keyed without line numbers).
usage: make_sweep_baseline.py <sweep.json> > sweep_baseline.json"""
import json, sys
res = json.load(open(sys.argv[1]))
out = {}
for r in res:
    if r['status'] != 'analysed':
        continue
    k = '%s|%s|%s|#%d' % (r['file'], r['op'], r['old'], r.get('occ', 0))
    out[k] = {'killed': bool(r['rules'] or r['missing']), 'props': r.get('props', []), 'rules': r.get('rules', [])}
json.dump({'_comment': 'Kill matrix of the automatic mutation sweep (selftest/sweep.py) on the repaired tree. Keys are file|operator|source line text|#occurrence (no line numbers). Used by the thorough tier to detect checker regressions: a mutant reported here and silent now is printed as a NOTE (never a verdict on /repo).', 'mutants': out}, sys.stdout, indent=0, sort_keys=True)
