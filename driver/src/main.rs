// mrl-facts: rustc_private driver that dumps the type-checked program of the crate being
// compiled (ADTs, consts, format_args templates, MIR of every local body and of every
// monomorphic instance reachable from the public API) as one JSON fact file.
//
// Used as RUSTC_WORKSPACE_WRAPPER: argv[1] is the real rustc path and is dropped.
// Environment:
//   MRL_FACTS_DIR    directory to write <crate>.facts.json into (required to emit anything)
//   MRL_FACTS_NONCE  copied into the fact file (freshness check by the rule engine)
//   MRL_FACTS_CRATES comma separated crate names to dump (default: mrecordlog,mrecordlog_cli)
#![feature(rustc_private)]
#![allow(clippy::all)]

extern crate rustc_abi;
extern crate rustc_ast;
extern crate rustc_data_structures;
extern crate rustc_driver;
extern crate rustc_hir;
extern crate rustc_interface;
extern crate rustc_middle;
extern crate rustc_session;
extern crate rustc_span;

use std::collections::{BTreeMap, HashMap, HashSet, VecDeque};
use std::fmt::Write as _;

use rustc_driver::Compilation;
use rustc_hir::def::DefKind;
use rustc_hir::def_id::{DefId, LOCAL_CRATE};
use rustc_interface::interface::Compiler;
use rustc_middle::mir::{
    self, AggregateKind, BasicBlockData, Body, Const, ConstValue, Operand, Place, PlaceElem,
    Rvalue, StatementKind, TerminatorKind, UnwindAction,
};
use rustc_middle::ty::print::{with_no_trimmed_paths, PrintTraitRefExt};
use rustc_middle::ty::{self, EarlyBinder, Instance, Ty, TyCtxt, TypingEnv};
use rustc_span::Span;

mod json;
use json::J;

struct Cb {
    fmt_templates: Vec<J>,
}

fn wanted_crate(name: &str) -> bool {
    let list = std::env::var("MRL_FACTS_CRATES").unwrap_or_else(|_| "mrecordlog,mrecordlog_cli".into());
    list.split(',').any(|c| c == name)
}

impl rustc_driver::Callbacks for Cb {
    fn after_expansion<'tcx>(&mut self, _c: &Compiler, tcx: TyCtxt<'tcx>) -> Compilation {
        let name = tcx.crate_name(LOCAL_CRATE).to_string();
        if !wanted_crate(&name) || std::env::var("MRL_FACTS_DIR").is_err() {
            return Compilation::Continue;
        }
        // AST pass: format_args templates per enclosing fn.
        let resolver_and_krate = tcx.resolver_for_lowering().borrow();
        let krate = &resolver_and_krate.1;
        let mut v = FmtVisitor { out: Vec::new(), stack: Vec::new(), sm: tcx.sess.source_map() };
        rustc_ast::visit::walk_crate(&mut v, krate);
        self.fmt_templates = v.out;
        Compilation::Continue
    }

    fn after_analysis<'tcx>(&mut self, _c: &Compiler, tcx: TyCtxt<'tcx>) -> Compilation {
        let name = tcx.crate_name(LOCAL_CRATE).to_string();
        let Ok(dir) = std::env::var("MRL_FACTS_DIR") else {
            return Compilation::Continue;
        };
        if !wanted_crate(&name) {
            return Compilation::Continue;
        }
        let is_test = tcx.sess.opts.test;
        let facts = with_no_trimmed_paths!(dump_crate(tcx, &name, is_test, std::mem::take(&mut self.fmt_templates)));
        let suffix = if is_test { ".test" } else { "" };
        let is_bin = tcx.crate_types().iter().any(|t| matches!(t, rustc_session::config::CrateType::Executable));
        let kind = if is_bin && !is_test { ".bin" } else { "" };
        let path = format!("{}/{}{}{}.facts.json", dir, name, kind, suffix);
        let mut s = String::new();
        facts.write(&mut s);
        std::fs::write(&path, s).expect("write facts");
        Compilation::Continue
    }
}

// ------------------------------------------------------------------------------------------------
// AST: format_args templates

struct FmtVisitor<'a> {
    out: Vec<J>,
    stack: Vec<String>,
    sm: &'a rustc_span::source_map::SourceMap,
}

impl<'a, 'ast> rustc_ast::visit::Visitor<'ast> for FmtVisitor<'a> {
    fn visit_item(&mut self, i: &'ast rustc_ast::Item) {
        let name = match i.kind.ident() {
            Some(id) => id.name.to_string(),
            None => match &i.kind {
                rustc_ast::ItemKind::Impl(imp) => {
                    format!("impl {}", rustc_ast_pretty_ty(&imp.self_ty))
                }
                _ => "_".to_string(),
            },
        };
        self.stack.push(name);
        rustc_ast::visit::walk_item(self, i);
        self.stack.pop();
    }
    fn visit_assoc_item(&mut self, i: &'ast rustc_ast::AssocItem, ctxt: rustc_ast::visit::AssocCtxt) {
        let name = i.kind.ident().map(|id| id.name.to_string()).unwrap_or_else(|| "_".into());
        self.stack.push(name);
        rustc_ast::visit::walk_assoc_item(self, i, ctxt);
        self.stack.pop();
    }
    fn visit_expr(&mut self, e: &'ast rustc_ast::Expr) {
        if let rustc_ast::ExprKind::FormatArgs(fa) = &e.kind {
            let mut pieces = Vec::new();
            for p in fa.template.iter() {
                match p {
                    rustc_ast::FormatArgsPiece::Literal(sym) => {
                        pieces.push(J::obj(vec![("lit", J::s(sym.as_str()))]));
                    }
                    rustc_ast::FormatArgsPiece::Placeholder(ph) => {
                        let width = match &ph.format_options.width {
                            Some(rustc_ast::FormatCount::Literal(n)) => J::n(*n as i128),
                            Some(_) => J::s("dynamic"),
                            None => J::Null,
                        };
                        let width_arg = match &ph.format_options.width {
                            Some(rustc_ast::FormatCount::Argument(pos)) => match pos.index { Ok(i) => J::n(i as i128), Err(_) => J::Null },
                            _ => J::Null,
                        };
                        let arg_index = match ph.argument.index { Ok(i) => J::n(i as i128), Err(_) => J::Null };
                        let precision = match &ph.format_options.precision {
                            Some(rustc_ast::FormatCount::Literal(n)) => J::n(*n as i128),
                            Some(_) => J::s("dynamic"),
                            None => J::Null,
                        };
                        pieces.push(J::obj(vec![
                            ("trait", J::s(&format!("{:?}", ph.format_trait))),
                            ("arg", arg_index),
                            ("width_arg", width_arg),
                            ("width", width),
                            ("precision", precision),
                            ("zero_pad", J::b(ph.format_options.zero_pad)),
                            ("fill", match ph.format_options.fill { Some(c) => J::s(&c.to_string()), None => J::Null }),
                            ("alignment", J::s(&format!("{:?}", ph.format_options.alignment))),
                            ("sign", J::s(&format!("{:?}", ph.format_options.sign))),
                            ("alternate", J::b(ph.format_options.alternate)),
                            ("debug_hex", J::s(&format!("{:?}", ph.format_options.debug_hex))),
                        ]));
                    }
                }
            }
            // the argument expressions, when they are plain paths (consts / locals) or literals
            let mut args = Vec::new();
            for a in fa.arguments.all_args().iter() {
                let txt = match &a.expr.kind {
                    rustc_ast::ExprKind::Path(_, p) => format!("path:{}", p.segments.iter().map(|s| s.ident.name.to_string()).collect::<Vec<_>>().join("::")),
                    rustc_ast::ExprKind::Lit(l) => format!("lit:{}", l.symbol.as_str()),
                    _ => "?".to_string(),
                };
                args.push(J::s(&txt));
            }
            // the macro that produced it (format / info / write ...)
            let mac = e.span.ctxt().outer_expn_data().macro_def_id.is_some();
            let mname = format!("{:?}", e.span.ctxt().outer_expn_data().kind);
            self.out.push(J::obj(vec![
                ("path", J::arr(self.stack.iter().map(|s| J::s(s)).collect())),
                ("pieces", J::arr(pieces)),
                ("args", J::arr(args)),
                ("macro", J::s(&mname)),
                ("in_macro", J::b(mac)),
                ("span", J::s(&span_str(self.sm, e.span))),
            ]));
        }
        rustc_ast::visit::walk_expr(self, e);
    }
}

fn rustc_ast_pretty_ty(t: &rustc_ast::Ty) -> String {
    match &t.kind {
        rustc_ast::TyKind::Path(_, p) => p.segments.iter().map(|s| s.ident.name.to_string()).collect::<Vec<_>>().join("::"),
        _ => "?".to_string(),
    }
}

fn span_str(sm: &rustc_span::source_map::SourceMap, sp: Span) -> String {
    // Location of the outermost call site (so macro-generated code points into the crate).
    let sp = sp.source_callsite();
    let lo = sm.lookup_char_pos(sp.lo());
    let file = match &lo.file.name {
        rustc_span::FileName::Real(r) => match r.local_path() {
            Some(p) => p.to_string_lossy().to_string(),
            None => format!("{:?}", lo.file.name),
        },
        other => format!("{:?}", other),
    };
    format!("{}:{}:{}", file, lo.line, lo.col.0 + 1)
}

fn expn_str(sp: Span) -> J {
    if !sp.from_expansion() {
        return J::Null;
    }
    let d = sp.ctxt().outer_expn_data();
    J::s(&format!("{:?}", d.kind))
}

// ------------------------------------------------------------------------------------------------
// Crate dump

#[derive(Clone, Copy, PartialEq, Eq, Hash)]
struct Node<'tcx> {
    inst: Instance<'tcx>,
    // None: fully monomorphic world; Some(def): analysed under post_analysis(def) (generic root)
    env_of: Option<DefId>,
}

struct Dumper<'tcx> {
    tcx: TyCtxt<'tcx>,
    ids: HashMap<Node<'tcx>, usize>,
    queue: VecDeque<Node<'tcx>>,
    nodes: Vec<Node<'tcx>>,
    unresolved: Vec<J>,
}

fn is_local_or_inlinable<'tcx>(tcx: TyCtxt<'tcx>, inst: Instance<'tcx>) -> bool {
    // We only dump bodies of the local crate. Everything else is a leaf.
    match inst.def {
        ty::InstanceKind::Item(d) => d.is_local() && tcx.is_mir_available(d),
        _ => false,
    }
}

impl<'tcx> Dumper<'tcx> {
    fn env(&self, n: &Node<'tcx>) -> TypingEnv<'tcx> {
        match n.env_of {
            None => TypingEnv::fully_monomorphized(),
            Some(d) => TypingEnv::post_analysis(self.tcx, d),
        }
    }

    fn intern(&mut self, n: Node<'tcx>) -> usize {
        use rustc_middle::ty::TypeVisitableExt;
        // concrete instances are shared between the monomorphic world and generic roots
        let n = if n.env_of.is_some() && !n.inst.args.has_non_region_param() { Node { inst: n.inst, env_of: None } } else { n };
        if let Some(&i) = self.ids.get(&n) {
            return i;
        }
        let i = self.nodes.len();
        self.ids.insert(n, i);
        self.nodes.push(n);
        self.queue.push_back(n);
        i
    }

    fn node_name(&self, n: &Node<'tcx>) -> String {
        let d = n.inst.def_id();
        self.tcx.def_path_str_with_args(d, n.inst.args)
    }
}

fn dump_crate<'tcx>(tcx: TyCtxt<'tcx>, name: &str, is_test: bool, fmt_templates: Vec<J>) -> J {
    let mut d = Dumper { tcx, ids: HashMap::new(), queue: VecDeque::new(), nodes: Vec::new(), unresolved: Vec::new() };

    // ---- ADTs, consts, fns inventory
    let mut adts = Vec::new();
    let mut consts = Vec::new();
    let mut fns = Vec::new();
    let mut impls = Vec::new();
    let mut unsafe_blocks = 0usize;
    for ldid in tcx.hir_crate_items(()).definitions() {
        let did = ldid.to_def_id();
        let kind = tcx.def_kind(did);
        match kind {
            DefKind::Struct | DefKind::Enum | DefKind::Union => {
                adts.push(dump_adt(tcx, did));
            }
            DefKind::Const { .. } | DefKind::AssocConst { .. } => {
                consts.push(dump_const(tcx, did));
            }
            DefKind::Fn | DefKind::AssocFn => {
                let vis = tcx.visibility(did);
                let sig = tcx.fn_sig(did).instantiate_identity().skip_norm_wip();
                let generics = tcx.generics_of(did);
                fns.push(J::obj(vec![
                    ("path", J::s(&tcx.def_path_str(did))),
                    ("public", J::b(vis.is_public())),
                    ("vis", J::s(&format!("{:?}", vis))),
                    ("sig", J::s(&format!("{}", sig))),
                    ("n_generic_types", J::n(generics.own_params.iter().filter(|p| matches!(p.kind, ty::GenericParamDefKind::Type { .. })).count() as i128
                        + tcx.generics_of(did).parent_count as i128)),
                    ("has_self_params", J::b(generics.count() > 0 && generics.own_params.iter().chain(parent_params(tcx, did).iter()).any(|p| !matches!(p.kind, ty::GenericParamDefKind::Lifetime)))),
                    ("parent", match tcx.opt_parent(did) { Some(p) => J::s(&tcx.def_path_str(p)), None => J::Null }),
                    ("span", J::s(&span_str(tcx.sess.source_map(), tcx.def_span(did)))),
                    ("is_test_item", J::b(in_test_mod(tcx, did))),
                ]));
            }
            DefKind::Impl { .. } => {
                let trait_ref = tcx.impl_opt_trait_ref(did).map(|t| t.instantiate_identity().skip_norm_wip());
                let self_ty = tcx.type_of(did).instantiate_identity().skip_norm_wip();
                impls.push(J::obj(vec![
                    ("trait", match trait_ref { Some(t) => J::s(&format!("{}", t.print_only_trait_path())), None => J::Null }),
                    ("self_ty", J::s(&format!("{}", self_ty))),
                    ("span", J::s(&span_str(tcx.sess.source_map(), tcx.def_span(did)))),
                    ("automatically_derived", J::b(tcx.is_automatically_derived(did))),
                ]));
            }
            _ => {}
        }
    }

    // ---- poly bodies: every local body owner, identity substitution
    let mut bodies = Vec::new();
    let mut body_owner_ids = Vec::new();
    for ldid in tcx.hir_body_owners() {
        let did = ldid.to_def_id();
        let kind = tcx.def_kind(did);
        if !matches!(kind, DefKind::Fn | DefKind::AssocFn | DefKind::Closure) {
            continue;
        }
        body_owner_ids.push(did);
        // unsafe blocks (THIR is gone; use HIR)
    }
    unsafe_blocks += count_unsafe(tcx);

    // Roots: pub fns of inherent impls of pub types named MultiRecordLog + main; generic ones
    // analysed under their own param env.
    let mut roots = Vec::new();
    for &did in &body_owner_ids {
        let kind = tcx.def_kind(did);
        if !matches!(kind, DefKind::Fn | DefKind::AssocFn) {
            continue;
        }
        let path = tcx.def_path_str(did);
        let is_root = (tcx.visibility(did).is_public() && path.contains("MultiRecordLog::")) || path == "main";
        if !is_root {
            continue;
        }
        let generics = tcx.generics_of(did);
        let has_ty_params = generic_has_non_lifetime(tcx, generics);
        let args = ty::GenericArgs::identity_for_item(tcx, did);
        let inst = Instance::new_raw(did, tcx.erase_and_anonymize_regions(args));
        let node = Node { inst, env_of: if has_ty_params { Some(did) } else { None } };
        let id = d.intern(node);
        roots.push(J::obj(vec![("path", J::s(&path)), ("node", J::n(id as i128)), ("generic", J::b(has_ty_params))]));
    }

    // BFS over instances
    let mut inst_bodies: BTreeMap<usize, J> = BTreeMap::new();
    while let Some(n) = d.queue.pop_front() {
        let id = d.ids[&n];
        let j = dump_instance_body(&mut d, n, id);
        inst_bodies.insert(id, j);
    }
    for (_, j) in inst_bodies {
        bodies.push(j);
    }

    // poly bodies (identity), for whole-crate inventories; callee resolution best effort
    let mut poly = Vec::new();
    for &did in &body_owner_ids {
        let args = ty::GenericArgs::identity_for_item(tcx, did);
        let inst = Instance::new_raw(did, tcx.erase_and_anonymize_regions(args));
        let node = Node { inst, env_of: Some(did) };
        let mut d2 = Dumper { tcx, ids: HashMap::new(), queue: VecDeque::new(), nodes: Vec::new(), unresolved: Vec::new() };
        let _ = d2.intern(node);
        let j = dump_instance_body(&mut d2, node, usize::MAX);
        poly.push(j);
    }

    J::obj(vec![
        ("crate", J::s(name)),
        ("cfg_test", J::b(is_test)),
        ("nonce", J::s(&std::env::var("MRL_FACTS_NONCE").unwrap_or_default())),
        ("adts", J::arr(adts)),
        ("consts", J::arr(consts)),
        ("fns", J::arr(fns)),
        ("impls", J::arr(impls)),
        ("format_args", J::arr(fmt_templates)),
        ("unsafe_blocks", J::n(unsafe_blocks as i128)),
        ("roots", J::arr(roots)),
        ("instances", J::arr(bodies)),
        ("poly", J::arr(poly)),
        ("unresolved", J::arr(d.unresolved)),
    ])
}

fn parent_params<'tcx>(tcx: TyCtxt<'tcx>, did: DefId) -> Vec<ty::GenericParamDef> {
    let g = tcx.generics_of(did);
    match g.parent {
        Some(p) => {
            let pg = tcx.generics_of(p);
            let mut v = parent_params(tcx, p);
            v.extend(pg.own_params.iter().cloned());
            v
        }
        None => Vec::new(),
    }
}

fn generic_has_non_lifetime<'tcx>(tcx: TyCtxt<'tcx>, g: &'tcx ty::Generics) -> bool {
    if g.own_params.iter().any(|p| !matches!(p.kind, ty::GenericParamDefKind::Lifetime)) {
        return true;
    }
    match g.parent {
        Some(p) => generic_has_non_lifetime(tcx, tcx.generics_of(p)),
        None => false,
    }
}

fn in_test_mod<'tcx>(tcx: TyCtxt<'tcx>, did: DefId) -> bool {
    // any ancestor module named `tests` / `proptests`, or item carrying #[test]-generated marker
    let p = tcx.def_path_str(did);
    p.split("::").any(|s| s == "tests" || s == "proptests")
}

fn count_unsafe<'tcx>(tcx: TyCtxt<'tcx>) -> usize {
    use rustc_hir::intravisit::{self, Visitor};
    struct V<'tcx> {
        tcx: TyCtxt<'tcx>,
        n: usize,
    }
    impl<'tcx> Visitor<'tcx> for V<'tcx> {
        type NestedFilter = rustc_middle::hir::nested_filter::All;
        fn maybe_tcx(&mut self) -> Self::MaybeTyCtxt {
            self.tcx
        }
        fn visit_block(&mut self, b: &'tcx rustc_hir::Block<'tcx>) {
            if let rustc_hir::BlockCheckMode::UnsafeBlock(src) = b.rules {
                if matches!(src, rustc_hir::UnsafeSource::UserProvided) && !b.span.from_expansion() {
                    self.n += 1;
                }
            }
            intravisit::walk_block(self, b);
        }
    }
    let mut v = V { tcx, n: 0 };
    tcx.hir_walk_toplevel_module(&mut v);
    v.n
}

fn dump_adt<'tcx>(tcx: TyCtxt<'tcx>, did: DefId) -> J {
    let adt = tcx.adt_def(did);
    let mut variants = Vec::new();
    for (vidx, v) in adt.variants().iter_enumerated() {
        let mut fields = Vec::new();
        for f in v.fields.iter() {
            let fty = tcx.type_of(f.did).instantiate_identity().skip_norm_wip();
            fields.push(J::obj(vec![
                ("name", J::s(f.name.as_str())),
                ("ty", J::s(&format!("{}", fty))),
                ("public", J::b(f.vis.is_public())),
            ]));
        }
        let discr = if adt.is_enum() { J::s(&format!("{}", adt.discriminant_for_variant(tcx, vidx).val)) } else { J::Null };
        variants.push(J::obj(vec![
            ("name", J::s(v.name.as_str())),
            ("idx", J::n(vidx.as_usize() as i128)),
            ("discr", discr),
            ("fields", J::arr(fields)),
        ]));
    }
    J::obj(vec![
        ("path", J::s(&tcx.def_path_str(did))),
        ("kind", J::s(if adt.is_enum() { "enum" } else if adt.is_union() { "union" } else { "struct" })),
        ("public", J::b(tcx.visibility(did).is_public())),
        ("variants", J::arr(variants)),
        ("repr", J::s(&format!("{:?}", adt.repr().int))),
        ("span", J::s(&span_str(tcx.sess.source_map(), tcx.def_span(did)))),
        ("is_test_item", J::b(in_test_mod(tcx, did))),
    ])
}

fn dump_const<'tcx>(tcx: TyCtxt<'tcx>, did: DefId) -> J {
    let ty = tcx.type_of(did).instantiate_identity().skip_norm_wip();
    let mut val = J::Null;
    let mut text = J::Null;
    if !generic_has_non_lifetime(tcx, tcx.generics_of(did)) {
        if let Ok(cv) = tcx.const_eval_poly(did) {
            if let Some(s) = cv.try_to_scalar_int() {
                val = J::s(&format!("{}", s.to_bits_unchecked()));
            }
            if matches!(ty.kind(), ty::Ref(_, inner, _) if inner.is_str()) {
                text = J::s(&format!("{}", mir::Const::Val(cv, ty)));
            }
        }
    }
    J::obj(vec![
        ("path", J::s(&tcx.def_path_str(did))),
        ("ty", J::s(&format!("{}", ty))),
        ("value", val),
        ("text", text),
        ("span", J::s(&span_str(tcx.sess.source_map(), tcx.def_span(did)))),
    ])
}

// ------------------------------------------------------------------------------------------------
// Bodies

fn dump_instance_body<'tcx>(d: &mut Dumper<'tcx>, n: Node<'tcx>, id: usize) -> J {
    let tcx = d.tcx;
    let env = d.env(&n);
    let body: &Body<'tcx> = tcx.instance_mir(n.inst.def);
    let sm = tcx.sess.source_map();
    let did = n.inst.def_id();
    let mono = |t: Ty<'tcx>| -> Ty<'tcx> {
        match n.inst.try_instantiate_mir_and_normalize_erasing_regions(tcx, env, EarlyBinder::bind(t)) {
            Ok(t) => t,
            Err(_) => t,
        }
    };

    // locals
    let mut locals = Vec::new();
    for (_l, decl) in body.local_decls.iter_enumerated() {
        let t = mono(decl.ty);
        locals.push(J::obj(vec![
            ("ty", J::s(&format!("{}", t))),
            ("adt", adt_path(tcx, t)),
        ]));
    }
    let mut names = Vec::new();
    for vdi in body.var_debug_info.iter() {
        if let mir::VarDebugInfoContents::Place(p) = vdi.value {
            names.push(J::obj(vec![
                ("name", J::s(vdi.name.as_str())),
                ("place", place_json(tcx, body, &n, env, &p)),
            ]));
        }
    }

    let mut blocks = Vec::new();
    for (_bb, data) in body.basic_blocks.iter_enumerated() {
        blocks.push(dump_block(d, &n, env, body, data, sm));
    }

    let sig_ret = mono(body.local_decls[mir::RETURN_PLACE].ty);
    let is_closure = matches!(tcx.def_kind(did), DefKind::Closure);
    J::obj(vec![
        ("id", if id == usize::MAX { J::Null } else { J::n(id as i128) }),
        ("path", J::s(&tcx.def_path_str(did))),
        ("name", J::s(&d.node_name(&n))),
        ("generic_env", J::b(n.env_of.is_some())),
        ("is_closure", J::b(is_closure)),
        ("parent", match tcx.opt_parent(did) { Some(p) => J::s(&tcx.def_path_str(p)), None => J::Null }),
        ("arg_count", J::n(body.arg_count as i128)),
        ("ret_ty", J::s(&format!("{}", sig_ret))),
        ("span", J::s(&span_str(sm, body.span))),
        ("is_test_item", J::b(in_test_mod(tcx, did))),
        ("automatically_derived", J::b(tcx.is_automatically_derived(tcx.opt_parent(did).unwrap_or(did)))),
        ("locals", J::arr(locals)),
        ("names", J::arr(names)),
        ("blocks", J::arr(blocks)),
    ])
}

fn adt_path<'tcx>(tcx: TyCtxt<'tcx>, t: Ty<'tcx>) -> J {
    // strip references
    let mut t = t;
    loop {
        match t.kind() {
            ty::Ref(_, inner, _) => t = *inner,
            ty::RawPtr(inner, _) => t = *inner,
            _ => break,
        }
    }
    match t.kind() {
        ty::Adt(def, _) => J::s(&tcx.def_path_str(def.did())),
        _ => J::Null,
    }
}

fn place_json<'tcx>(tcx: TyCtxt<'tcx>, body: &Body<'tcx>, n: &Node<'tcx>, env: TypingEnv<'tcx>, p: &Place<'tcx>) -> J {
    let mut proj = Vec::new();
    let mut pty = mir::PlaceTy::from_ty(body.local_decls[p.local].ty);
    for elem in p.projection.iter() {
        match elem {
            PlaceElem::Deref => proj.push(J::obj(vec![("k", J::s("deref"))])),
            PlaceElem::Field(f, _fty) => {
                let mut fname = J::Null;
                let mut adt = J::Null;
                let mut var = J::Null;
                if let ty::Adt(def, _) = pty.ty.kind() {
                    let vidx = pty.variant_index.unwrap_or(rustc_abi::FIRST_VARIANT);
                    if vidx.as_usize() < def.variants().len() {
                        let v = def.variant(vidx);
                        if f.as_usize() < v.fields.len() {
                            fname = J::s(v.fields[f].name.as_str());
                        }
                        if def.is_enum() {
                            var = J::s(v.name.as_str());
                        }
                    }
                    adt = J::s(&tcx.def_path_str(def.did()));
                }
                proj.push(J::obj(vec![("k", J::s("field")), ("i", J::n(f.as_usize() as i128)), ("name", fname), ("adt", adt), ("variant", var)]));
            }
            PlaceElem::Index(l) => proj.push(J::obj(vec![("k", J::s("index")), ("local", J::n(l.as_usize() as i128))])),
            PlaceElem::ConstantIndex { offset, min_length, from_end } => proj.push(J::obj(vec![
                ("k", J::s("cindex")),
                ("offset", J::n(offset as i128)),
                ("min_length", J::n(min_length as i128)),
                ("from_end", J::b(from_end)),
            ])),
            PlaceElem::Subslice { from, to, from_end } => proj.push(J::obj(vec![
                ("k", J::s("subslice")),
                ("from", J::n(from as i128)),
                ("to", J::n(to as i128)),
                ("from_end", J::b(from_end)),
            ])),
            PlaceElem::Downcast(sym, vidx) => {
                let mut adt = J::Null;
                let mut vname = match sym { Some(s) => J::s(s.as_str()), None => J::Null };
                if let ty::Adt(def, _) = pty.ty.kind() {
                    adt = J::s(&tcx.def_path_str(def.did()));
                    if vidx.as_usize() < def.variants().len() {
                        vname = J::s(def.variant(vidx).name.as_str());
                    }
                }
                proj.push(J::obj(vec![("k", J::s("downcast")), ("variant", vname), ("idx", J::n(vidx.as_usize() as i128)), ("adt", adt)]));
            }
            PlaceElem::OpaqueCast(_) => proj.push(J::obj(vec![("k", J::s("opaquecast"))])),
            PlaceElem::UnwrapUnsafeBinder(_) => proj.push(J::obj(vec![("k", J::s("unwrapbinder"))])),
        }
        pty = pty.projection_ty(tcx, elem);
    }
    let _ = (n, env);
    J::obj(vec![("l", J::n(p.local.as_usize() as i128)), ("p", J::arr(proj))])
}

struct CalleeInfo {
    j: J,
}

fn resolve_fn<'tcx>(d: &mut Dumper<'tcx>, n: &Node<'tcx>, env: TypingEnv<'tcx>, fty: Ty<'tcx>, as_value: bool) -> CalleeInfo {
    let tcx = d.tcx;
    match fty.kind() {
        ty::FnDef(def_id, args) => {
            let def_id = *def_id;
            let orig_path = tcx.def_path_str(def_id);
            let orig_name = tcx.def_path_str_with_args(def_id, args);
            let trait_item = tcx.trait_of_assoc(def_id).is_some();
            let mut fields: Vec<(&str, J)> = vec![
                ("orig", J::s(&orig_path)),
                ("orig_name", J::s(&orig_name)),
                ("trait_method", J::b(trait_item)),
                ("as_value", J::b(as_value)),
            ];
            if trait_item {
                if let Some(self_arg) = args.get(0).and_then(|a| a.as_type()) {
                    fields.push(("self_ty", J::s(&format!("{}", self_arg))));
                }
            }
            // generic args as strings
            let ga: Vec<J> = args.iter().filter_map(|a| a.as_type()).map(|t| J::s(&format!("{}", t))).collect();
            fields.push(("type_args", J::arr(ga)));
            let resolved = Instance::try_resolve(tcx, env, def_id, args);
            match resolved {
                Ok(Some(inst)) => {
                    let rd = inst.def_id();
                    let kind = match inst.def {
                        ty::InstanceKind::Item(_) => "item",
                        ty::InstanceKind::Intrinsic(_) => "intrinsic",
                        ty::InstanceKind::Virtual(..) => "virtual",
                        ty::InstanceKind::ClosureOnceShim { .. } => "closure_once_shim",
                        ty::InstanceKind::FnPtrShim(..) => "fnptr_shim",
                        ty::InstanceKind::DropGlue(..) => "drop_glue",
                        ty::InstanceKind::CloneShim(..) => "clone_shim",
                        ty::InstanceKind::ReifyShim(..) => "reify_shim",
                        _ => "other_shim",
                    };
                    // still a trait method declaration (no impl selected)?
                    let still_trait_decl = tcx.trait_of_assoc(rd).is_some() && matches!(inst.def, ty::InstanceKind::Item(_)) && !tcx.defaultness(rd).has_value();
                    fields.push(("kind", J::s(kind)));
                    fields.push(("path", J::s(&tcx.def_path_str(rd))));
                    fields.push(("name", J::s(&tcx.def_path_str_with_args(rd, inst.args))));
                    fields.push(("local", J::b(rd.is_local())));
                    fields.push(("unresolved", J::b(still_trait_decl)));
                    if let ty::InstanceKind::ClosureOnceShim { call_once: _, .. } = inst.def {
                        // the closure body itself
                        if let Some(cl) = inst.args.get(0).and_then(|a| a.as_type()) {
                            if let ty::Closure(cdid, cargs) = cl.kind() {
                                let ci = Instance::new_raw(*cdid, cargs);
                                if is_local_or_inlinable(tcx, ci) {
                                    let nid = d.intern(Node { inst: ci, env_of: n.env_of });
                                    fields.push(("node", J::n(nid as i128)));
                                }
                            }
                        }
                    }
                    if is_local_or_inlinable(tcx, inst) && !still_trait_decl {
                        let nid = d.intern(Node { inst, env_of: n.env_of });
                        fields.push(("node", J::n(nid as i128)));
                    }
                    // conversions that std performs on our behalf: Into::into -> From::from,
                    // `?` (from_residual) -> From::from of the error type. Local impls become may-edges.
                    let mut extra: Vec<J> = Vec::new();
                    if let Some(from_trait) = tcx.get_diagnostic_item(rustc_span::sym::From) {
                        let from_method = tcx.associated_item_def_ids(from_trait).get(0).copied();
                        let mut pairs: Vec<(Ty<'tcx>, Ty<'tcx>)> = Vec::new(); // (target U, source T)
                        if orig_path == "std::convert::Into::into" {
                            if let (Some(t), Some(u)) = (args.get(0).and_then(|a| a.as_type()), args.get(1).and_then(|a| a.as_type())) {
                                pairs.push((u, t));
                            }
                        }
                        if orig_path == "std::ops::FromResidual::from_residual" {
                            if let (Some(t), Some(r)) = (args.get(0).and_then(|a| a.as_type()), args.get(1).and_then(|a| a.as_type())) {
                                if let (ty::Adt(_, a1), ty::Adt(_, a2)) = (t.kind(), r.kind()) {
                                    if let (Some(f), Some(e)) = (a1.get(1).and_then(|a| a.as_type()), a2.get(1).and_then(|a| a.as_type())) {
                                        pairs.push((f, e));
                                    }
                                }
                            }
                        }
                        if let Some(fm) = from_method {
                            for (u, t) in pairs {
                                let fargs = tcx.mk_args(&[u.into(), t.into()]);
                                if let Ok(Some(fi)) = Instance::try_resolve(tcx, env, fm, fargs) {
                                    if is_local_or_inlinable(tcx, fi) {
                                        let nid = d.intern(Node { inst: fi, env_of: n.env_of });
                                        extra.push(J::n(nid as i128));
                                    }
                                }
                            }
                        }
                    }
                    if !extra.is_empty() {
                        fields.push(("extra_nodes", J::arr(extra)));
                    }
                }
                Ok(None) => {
                    fields.push(("kind", J::s("unresolved")));
                    fields.push(("path", J::s(&orig_path)));
                    fields.push(("name", J::s(&orig_name)));
                    fields.push(("local", J::b(def_id.is_local())));
                    fields.push(("unresolved", J::b(true)));
                }
                Err(_) => {
                    fields.push(("kind", J::s("error")));
                    fields.push(("path", J::s(&orig_path)));
                    fields.push(("name", J::s(&orig_name)));
                    fields.push(("local", J::b(def_id.is_local())));
                    fields.push(("unresolved", J::b(true)));
                }
            }
            CalleeInfo { j: J::obj(fields) }
        }
        ty::Closure(cdid, cargs) => {
            let ci = Instance::new_raw(*cdid, cargs);
            let mut fields: Vec<(&str, J)> = vec![
                ("kind", J::s("closure")),
                ("path", J::s(&tcx.def_path_str(*cdid))),
                ("name", J::s(&tcx.def_path_str_with_args(*cdid, cargs))),
                ("orig", J::s(&tcx.def_path_str(*cdid))),
                ("local", J::b(cdid.is_local())),
                ("unresolved", J::b(false)),
                ("as_value", J::b(as_value)),
                ("trait_method", J::b(false)),
            ];
            if is_local_or_inlinable(tcx, ci) {
                let nid = d.intern(Node { inst: ci, env_of: n.env_of });
                fields.push(("node", J::n(nid as i128)));
            }
            CalleeInfo { j: J::obj(fields) }
        }
        _ => CalleeInfo {
            j: J::obj(vec![
                ("kind", J::s("indirect")),
                ("path", J::s(&format!("{}", fty))),
                ("name", J::s(&format!("{}", fty))),
                ("orig", J::s(&format!("{}", fty))),
                ("local", J::b(false)),
                ("unresolved", J::b(true)),
                ("as_value", J::b(as_value)),
                ("trait_method", J::b(false)),
            ]),
        },
    }
}

fn operand_json<'tcx>(d: &mut Dumper<'tcx>, n: &Node<'tcx>, env: TypingEnv<'tcx>, body: &Body<'tcx>, op: &Operand<'tcx>) -> J {
    let tcx = d.tcx;
    match op {
        Operand::Copy(p) => J::obj(vec![("k", J::s("copy")), ("place", place_json(tcx, body, n, env, p))]),
        Operand::Move(p) => J::obj(vec![("k", J::s("move")), ("place", place_json(tcx, body, n, env, p))]),
        Operand::Constant(c) => {
            let cty = match n.inst.try_instantiate_mir_and_normalize_erasing_regions(tcx, env, EarlyBinder::bind(c.const_.ty())) {
                Ok(t) => t,
                Err(_) => c.const_.ty(),
            };
            let mut fields: Vec<(&str, J)> = vec![("k", J::s("const")), ("ty", J::s(&format!("{}", cty)))];
            // function items / closures used as values
            if matches!(cty.kind(), ty::FnDef(..) | ty::Closure(..)) {
                let ci = resolve_fn(d, n, env, cty, true);
                fields.push(("fn", ci.j));
            } else {
                // named (unevaluated) const?
                if let Const::Unevaluated(uv, _) = c.const_ {
                    if let Some(pidx) = uv.promoted {
                        // promoted constant (e.g. `&"wal-"`): list the literals of its tiny body
                        let pm = tcx.promoted_mir(uv.def);
                        if let Some(pb) = pm.get(pidx) {
                            let mut texts: Vec<J> = Vec::new();
                            for bbd in pb.basic_blocks.iter() {
                                for st in bbd.statements.iter() {
                                    if let StatementKind::Assign(bx) = &st.kind {
                                        let (_pl, prv) = &**bx;
                                        let mut ops: Vec<&Operand<'tcx>> = Vec::new();
                                        match prv {
                                            Rvalue::Use(o, _) => ops.push(o),
                                            Rvalue::Cast(_, o, _) => ops.push(o),
                                            Rvalue::Aggregate(ak, os) => {
                                                if let mir::AggregateKind::Adt(adid, vidx, _, _, _) = &**ak {
                                                    let adef = tcx.adt_def(*adid);
                                                    if adef.is_enum() {
                                                        texts.push(J::s(&format!("variant:{}::{}", tcx.def_path_str(*adid), adef.variant(*vidx).name)));
                                                    }
                                                }
                                                for o in os.iter() { ops.push(o); }
                                            }
                                            Rvalue::Repeat(o, _) => ops.push(o),
                                            _ => {}
                                        }
                                        for o in ops {
                                            if let Operand::Constant(pc) = o {
                                                texts.push(J::s(&format!("{}", pc.const_)));
                                            }
                                        }
                                    }
                                }
                            }
                            fields.push(("promoted_texts", J::arr(texts)));
                        }
                    }
                    let dk = tcx.def_kind(uv.def);
                    if matches!(dk, DefKind::Const { .. } | DefKind::AssocConst { .. }) {
                        fields.push(("named", J::s(&tcx.def_path_str(uv.def))));
                    } else {
                        fields.push(("anon_of", J::s(&tcx.def_path_str(uv.def))));
                    }
                }
                let cmono = match n.inst.try_instantiate_mir_and_normalize_erasing_regions(tcx, env, EarlyBinder::bind(c.const_)) {
                    Ok(c) => c,
                    Err(_) => c.const_,
                };
                if let Ok(v) = cmono.eval(tcx, env, c.span) {
                    match v {
                        ConstValue::Scalar(mir::interpret::Scalar::Int(si)) => {
                            let bits = si.to_bits_unchecked();
                            fields.push(("bits", J::s(&format!("{}", bits))));
                            fields.push(("size", J::n(si.size().bytes() as i128)));
                        }
                        ConstValue::ZeroSized => {
                            fields.push(("zst", J::b(true)));
                        }
                        _ => {}
                    }
                    // struct / enum / tuple valued constants (`const NOOP: Outcome = Outcome { n: 0, last: None }`):
                    // the field values, so that the analysis can read them like an aggregate built in place
                    if matches!(cty.kind(), ty::Adt(..) | ty::Tuple(..)) {
                        if let Some(dj) = destructure_json(tcx, v, cty, 0) {
                            fields.push(("destructured", dj));
                        }
                    }
                }
                fields.push(("text", J::s(&format!("{}", c.const_))));
            }
            J::obj(fields)
        }
        _ => J::obj(vec![("k", J::s("other")), ("text", J::s(&format!("{:?}", op)))]),
    }
}

fn destructure_json<'tcx>(tcx: TyCtxt<'tcx>, v: ConstValue, t: Ty<'tcx>, depth: usize) -> Option<J> {
    if depth > 3 { return None; }
    match t.kind() {
        ty::Adt(adef, _) if !adef.is_union() && !adef.is_box() => {}
        ty::Tuple(_) => {}
        _ => return None,
    }
    let dc = tcx.try_destructure_mir_constant_for_user_output(v, t)?;
    let mut out: Vec<(&str, J)> = vec![("ty", J::s(&format!("{}", t)))];
    let mut names: Vec<J> = Vec::new();
    if let ty::Adt(adef, _) = t.kind() {
        out.push(("adt", J::s(&tcx.def_path_str(adef.did()))));
        out.push(("is_enum", J::b(adef.is_enum())));
        let vidx = dc.variant.unwrap_or(rustc_abi::FIRST_VARIANT);
        let vd = adef.variant(vidx);
        out.push(("variant", J::s(&vd.name.to_string())));
        out.push(("variant_idx", J::n(vidx.as_usize() as i128)));
        for f in vd.fields.iter() { names.push(J::s(&f.name.to_string())); }
    } else {
        for i in 0..dc.fields.len() { names.push(J::s(&format!("{}", i))); }
    }
    out.push(("names", J::arr(names)));
    let mut fs: Vec<J> = Vec::new();
    for (fv, fty) in dc.fields.iter() {
        let mut fj: Vec<(&str, J)> = vec![("k", J::s("const")), ("ty", J::s(&format!("{}", fty)))];
        match fv {
            ConstValue::Scalar(mir::interpret::Scalar::Int(si)) => {
                fj.push(("bits", J::s(&format!("{}", si.to_bits_unchecked()))));
                fj.push(("size", J::n(si.size().bytes() as i128)));
            }
            ConstValue::ZeroSized => { fj.push(("zst", J::b(true))); }
            _ => {}
        }
        if let Some(sub) = destructure_json(tcx, *fv, *fty, depth + 1) {
            fj.push(("destructured", sub));
        }
        fs.push(J::obj(fj));
    }
    out.push(("fields", J::arr(fs)));
    Some(J::obj(out))
}

fn rvalue_json<'tcx>(d: &mut Dumper<'tcx>, n: &Node<'tcx>, env: TypingEnv<'tcx>, body: &Body<'tcx>, rv: &Rvalue<'tcx>) -> J {
    let tcx = d.tcx;
    match rv {
        Rvalue::Use(op, _) => J::obj(vec![("k", J::s("use")), ("op", operand_json(d, n, env, body, op))]),
        Rvalue::Repeat(op, cnt) => J::obj(vec![("k", J::s("repeat")), ("op", operand_json(d, n, env, body, op)), ("count", J::s(&format!("{}", cnt)))]),
        Rvalue::Ref(_, bk, p) => {
            let m = match bk {
                mir::BorrowKind::Shared => "shared",
                mir::BorrowKind::Fake(_) => "fake",
                mir::BorrowKind::Mut { .. } => "mut",
            };
            J::obj(vec![("k", J::s("ref")), ("mut", J::s(m)), ("place", place_json(tcx, body, n, env, p))])
        }
        Rvalue::RawPtr(kind, p) => J::obj(vec![("k", J::s("rawptr")), ("mut", J::s(&format!("{:?}", kind))), ("place", place_json(tcx, body, n, env, p))]),
        Rvalue::Cast(kind, op, t) => {
            let t = match n.inst.try_instantiate_mir_and_normalize_erasing_regions(tcx, env, EarlyBinder::bind(*t)) { Ok(t) => t, Err(_) => *t };
            J::obj(vec![
                ("k", J::s("cast")),
                ("cast", J::s(&format!("{:?}", kind))),
                ("op", operand_json(d, n, env, body, op)),
                ("ty", J::s(&format!("{}", t))),
            ])
        }
        Rvalue::BinaryOp(bop, ops) => J::obj(vec![
            ("k", J::s("binop")),
            ("op", J::s(&format!("{:?}", bop))),
            ("a", operand_json(d, n, env, body, &ops.0)),
            ("b", operand_json(d, n, env, body, &ops.1)),
        ]),
        Rvalue::UnaryOp(uop, op) => J::obj(vec![("k", J::s("unop")), ("op", J::s(&format!("{:?}", uop))), ("a", operand_json(d, n, env, body, op))]),
        Rvalue::Discriminant(p) => {
            let pt = p.ty(body, tcx).ty;
            let pt = match n.inst.try_instantiate_mir_and_normalize_erasing_regions(tcx, env, EarlyBinder::bind(pt)) { Ok(t) => t, Err(_) => pt };
            J::obj(vec![("k", J::s("discr")), ("place", place_json(tcx, body, n, env, p)), ("ty", J::s(&format!("{}", pt))), ("adt", adt_path(tcx, pt))])
        }
        Rvalue::Aggregate(kind, ops) => {
            let mut fields: Vec<(&str, J)> = vec![("k", J::s("agg"))];
            match &**kind {
                AggregateKind::Array(_) => fields.push(("agg", J::s("array"))),
                AggregateKind::Tuple => fields.push(("agg", J::s("tuple"))),
                AggregateKind::Adt(did, vidx, _args, _, active) => {
                    let def = tcx.adt_def(*did);
                    let v = def.variant(*vidx);
                    fields.push(("agg", J::s("adt")));
                    fields.push(("adt", J::s(&tcx.def_path_str(*did))));
                    fields.push(("variant", J::s(v.name.as_str())));
                    fields.push(("variant_idx", J::n(vidx.as_usize() as i128)));
                    fields.push(("is_enum", J::b(def.is_enum())));
                    let names: Vec<J> = match active {
                        Some(f) => vec![J::s(v.fields[*f].name.as_str())],
                        None => v.fields.iter().map(|f| J::s(f.name.as_str())).collect(),
                    };
                    fields.push(("fields", J::arr(names)));
                }
                AggregateKind::Closure(cdid, cargs) => {
                    fields.push(("agg", J::s("closure")));
                    let cty = Ty::new_closure(tcx, *cdid, cargs);
                    let cty = match n.inst.try_instantiate_mir_and_normalize_erasing_regions(tcx, env, EarlyBinder::bind(cty)) { Ok(t) => t, Err(_) => cty };
                    let ci = resolve_fn(d, n, env, cty, true);
                    fields.push(("fn", ci.j));
                }
                AggregateKind::RawPtr(..) => fields.push(("agg", J::s("rawptr"))),
                _ => fields.push(("agg", J::s("other"))),
            }
            let o: Vec<J> = ops.iter().map(|op| operand_json(d, n, env, body, op)).collect();
            fields.push(("ops", J::arr(o)));
            J::obj(fields)
        }
        Rvalue::CopyForDeref(p) => J::obj(vec![("k", J::s("use")), ("op", J::obj(vec![("k", J::s("copy")), ("place", place_json(tcx, body, n, env, p))]))]),
        Rvalue::ThreadLocalRef(did) => J::obj(vec![("k", J::s("tls")), ("path", J::s(&tcx.def_path_str(*did)))]),
        other => J::obj(vec![("k", J::s("other")), ("text", J::s(&format!("{:?}", other)))]),
    }
}

fn dump_block<'tcx>(d: &mut Dumper<'tcx>, n: &Node<'tcx>, env: TypingEnv<'tcx>, body: &Body<'tcx>, data: &BasicBlockData<'tcx>, sm: &rustc_span::source_map::SourceMap) -> J {
    let tcx = d.tcx;
    let mut stmts = Vec::new();
    for st in data.statements.iter() {
        let sp = st.source_info.span;
        match &st.kind {
            StatementKind::Assign(b) => {
                let (p, rv) = &**b;
                stmts.push(J::obj(vec![
                    ("k", J::s("assign")),
                    ("place", place_json(tcx, body, n, env, p)),
                    ("rv", rvalue_json(d, n, env, body, rv)),
                    ("span", J::s(&span_str(sm, sp))),
                    ("exp", expn_str(sp)),
                ]));
            }
            StatementKind::SetDiscriminant { place, variant_index } => {
                stmts.push(J::obj(vec![
                    ("k", J::s("setdiscr")),
                    ("place", place_json(tcx, body, n, env, place)),
                    ("variant_idx", J::n(variant_index.as_usize() as i128)),
                    ("span", J::s(&span_str(sm, sp))),
                    ("exp", expn_str(sp)),
                ]));
            }
            StatementKind::Intrinsic(i) => {
                stmts.push(J::obj(vec![("k", J::s("intrinsic")), ("text", J::s(&format!("{:?}", i))), ("span", J::s(&span_str(sm, sp)))]));
            }
            _ => {}
        }
    }
    let term = data.terminator();
    let sp = term.source_info.span;
    let unwind_target = |u: &UnwindAction| -> J {
        match u {
            UnwindAction::Cleanup(bb) => J::n(bb.as_usize() as i128),
            _ => J::Null,
        }
    };
    let mut t: Vec<(&str, J)> = vec![("span", J::s(&span_str(sm, sp))), ("exp", expn_str(sp))];
    match &term.kind {
        TerminatorKind::Goto { target } => {
            t.push(("k", J::s("goto")));
            t.push(("target", J::n(target.as_usize() as i128)));
        }
        TerminatorKind::SwitchInt { discr, targets } => {
            t.push(("k", J::s("switch")));
            t.push(("discr", operand_json(d, n, env, body, discr)));
            let mut ts = Vec::new();
            for (v, bb) in targets.iter() {
                ts.push(J::arr(vec![J::s(&format!("{}", v)), J::n(bb.as_usize() as i128)]));
            }
            t.push(("targets", J::arr(ts)));
            t.push(("otherwise", J::n(targets.otherwise().as_usize() as i128)));
        }
        TerminatorKind::Return => t.push(("k", J::s("return"))),
        TerminatorKind::Unreachable => t.push(("k", J::s("unreachable"))),
        TerminatorKind::UnwindResume => t.push(("k", J::s("resume"))),
        TerminatorKind::UnwindTerminate(_) => t.push(("k", J::s("terminate"))),
        TerminatorKind::Drop { place, target, unwind, .. } => {
            t.push(("k", J::s("drop")));
            t.push(("place", place_json(tcx, body, n, env, place)));
            t.push(("target", J::n(target.as_usize() as i128)));
            t.push(("unwind", unwind_target(unwind)));
        }
        TerminatorKind::Call { func, args, destination, target, unwind, fn_span, .. } => {
            t.push(("k", J::s("call")));
            let fty = func.ty(body, tcx);
            let fty = match n.inst.try_instantiate_mir_and_normalize_erasing_regions(tcx, env, EarlyBinder::bind(fty)) { Ok(t) => t, Err(_) => fty };
            let ci = resolve_fn(d, n, env, fty, false);
            t.push(("callee", ci.j));
            if !matches!(func, Operand::Constant(_)) {
                t.push(("func_op", operand_json(d, n, env, body, func)));
            }
            let a: Vec<J> = args.iter().map(|a| operand_json(d, n, env, body, &a.node)).collect();
            t.push(("args", J::arr(a)));
            t.push(("dest", place_json(tcx, body, n, env, destination)));
            t.push(("target", match target { Some(bb) => J::n(bb.as_usize() as i128), None => J::Null }));
            t.push(("unwind", unwind_target(unwind)));
            t.push(("fn_span", J::s(&span_str(sm, *fn_span))));
            t.push(("fn_exp", expn_str(*fn_span)));
        }
        TerminatorKind::TailCall { func, args, .. } => {
            t.push(("k", J::s("tailcall")));
            let fty = func.ty(body, tcx);
            let ci = resolve_fn(d, n, env, fty, false);
            t.push(("callee", ci.j));
            let a: Vec<J> = args.iter().map(|a| operand_json(d, n, env, body, &a.node)).collect();
            t.push(("args", J::arr(a)));
        }
        TerminatorKind::Assert { cond, expected, msg, target, unwind } => {
            t.push(("k", J::s("assert")));
            t.push(("cond", operand_json(d, n, env, body, cond)));
            t.push(("expected", J::b(*expected)));
            let kind = format!("{:?}", msg);
            let kind = kind.split('(').next().unwrap_or("").to_string();
            t.push(("msg", J::s(&kind)));
            t.push(("target", J::n(target.as_usize() as i128)));
            t.push(("unwind", unwind_target(unwind)));
        }
        TerminatorKind::FalseEdge { real_target, .. } => {
            t.push(("k", J::s("goto")));
            t.push(("target", J::n(real_target.as_usize() as i128)));
        }
        TerminatorKind::FalseUnwind { real_target, .. } => {
            t.push(("k", J::s("goto")));
            t.push(("target", J::n(real_target.as_usize() as i128)));
        }
        other => {
            t.push(("k", J::s("other")));
            t.push(("text", J::s(&format!("{:?}", other))));
        }
    }
    J::obj(vec![("cleanup", J::b(data.is_cleanup)), ("stmts", J::arr(stmts)), ("term", J::obj(t))])
}

fn main() {
    let mut args: Vec<String> = std::env::args().collect();
    // RUSTC_WORKSPACE_WRAPPER: argv[1] is the path of the real rustc
    if args.len() > 1 && (args[1].ends_with("rustc") || args[1].contains("/rustc")) {
        args.remove(1);
    }
    let mut cb = Cb { fmt_templates: Vec::new() };
    rustc_driver::run_compiler(&args, &mut cb);
    let _ = HashSet::<u8>::new();
    let _ = String::new().write_str("");
}
