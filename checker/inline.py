"""A-INLINE: helper functions that did not exist when the rules were confirmed are analysed as part of
their callers.

Every rule is anchored in functions of the crate as it was read (known_fns.json = the functions of the
tree the rule instances were confirmed on).  A later change that extracts part of such a function into a
new private helper keeps the behaviour but moves the statements the rule looks at out of the anchored
body.  To stay exact in both directions the facts are normalised before any rule runs: a call to a
crate-local, non-recursive, non-closure function whose path is NOT in the known list is replaced by the
callee's MIR (fresh locals, argument / return-value moves, `return` -> goto the call's target).  The
helper body itself is dropped from the body table once nothing refers to it any more, so that it is
judged in the context of its callers only (an extracted `remove(path)` helper has no idea where its
parameter comes from; its callers do).

Consequences:
  * the unchanged tree is analysed exactly as before (no unknown function);
  * a fault hidden in a new helper is seen by the intra-procedural rules of the caller;
  * renaming a known function makes it "unknown": it is inlined into its callers, and rules anchored on
    the old name report a missing anchor (documented exception, DESIGN 13).
"""
import copy
import json
import os
import re

HERE = os.path.dirname(os.path.abspath(__file__))
KNOWN_PATH = os.environ.get('MRL_KNOWN_FNS') or os.path.join(HERE, 'known_fns.json')
MAX_DEPTH = 4
MAX_BLOCKS = 400


def strip_crate(s):
    return s.replace('mrecordlog::', '') if s else s


def load_known():
    if not os.path.exists(KNOWN_PATH):
        return None
    return json.load(open(KNOWN_PATH))['fns']


def load_known_adts():
    if not os.path.exists(KNOWN_PATH):
        return {}
    return json.load(open(KNOWN_PATH)).get('adts', {})


def rename_fields_back(j, known_adts):
    """A private field that only changed its NAME (same struct / variant, same position, same type, same number of
    fields) is given its known name back in every place projection, aggregate and in the ADT table: the rules name
    the fields of the tree they were confirmed on (`RollingWriter.offset`, `FrameReader.cursor`, ...)."""
    if j.get('crate') != 'mrecordlog' or not known_adts:
        return {}
    ren = {}   # (adt, variant name, index) -> (new name, old name)
    for a in j.get('adts', []):
        path = strip_crate(a['path'])
        k = known_adts.get(path)
        if not k or len(k) != len(a['variants']):
            continue
        for kv, v in zip(k, a['variants']):
            if kv['name'] != v['name'] or len(kv['fields']) != len(v['fields']):
                continue
            if [t for (_n, t) in kv['fields']] != [f['ty'] for f in v['fields']]:
                continue
            cur_names = [f['name'] for f in v['fields']]
            old_names = [n for (n, _t) in kv['fields']]
            if sorted(cur_names) == sorted(old_names):
                continue        # same names (possibly reordered): nothing to do
            for i, (f, (on, _t)) in enumerate(zip(v['fields'], kv['fields'])):
                if f['name'] != on and on not in cur_names:
                    ren[(path, v['name'], i)] = (f['name'], on)
                    f['name'] = on
    if not ren:
        return {}
    by_adt = {}
    for (path, vn, i), (nn, on) in ren.items():
        by_adt.setdefault(path, []).append((vn, i, nn, on))
    def visit(o):
        if isinstance(o, dict):
            if o.get('k') == 'field' and o.get('adt') and strip_crate(o['adt']) in by_adt:
                for (vn, i, nn, on) in by_adt[strip_crate(o['adt'])]:
                    if o.get('i') == i and o.get('name') == nn and (o.get('variant') in (None, vn)):
                        o['name'] = on
            if o.get('k') == 'agg' and o.get('agg') == 'adt' and o.get('adt') and strip_crate(o['adt']) in by_adt and isinstance(o.get('fields'), list):
                for (vn, i, nn, on) in by_adt[strip_crate(o['adt'])]:
                    if o.get('variant') in (None, vn) or o.get('variant') == vn:
                        o['fields'] = [on if x == nn else x for x in o['fields']]
            for v in o.values():
                visit(v)
        elif isinstance(o, list):
            for x in o:
                visit(x)
    for b in j.get('instances', []) + j.get('poly', []):
        visit(b['blocks'])
    return {'%s.%s' % (p, on): nn for (p, vn, i), (nn, on) in ren.items()}


def _wrapper_target(b):
    """callee dict when body b does nothing but hand its parameters, in order, to ONE crate-local function and return
    that function's result (`fn from(v) -> S { S::from_policy(v) }`); else None"""
    live = [blk for blk in b['blocks'] if not blk.get('cleanup')]
    calls = [blk for blk in live if blk['term']['k'] == 'call']
    if len(calls) != 1 or any(blk['term']['k'] in ('switch', 'assert') for blk in live) or len(live) > 4:
        return None
    t = calls[0]['term']
    cal = t.get('callee') or {}
    if not cal.get('local') or cal.get('trait_method') or cal.get('as_value') or t.get('dest') is None or t['dest']['p']:
        return None
    n = b.get('arg_count', 0)
    if len(t.get('args', [])) != n:
        return None
    defs = {}
    for blk in live:
        for st in blk['stmts']:
            if st.get('k') != 'assign' or st['place']['p']:
                return None
            rv = st['rv']
            src = None
            if rv['k'] == 'use' and rv['op'].get('k') in ('copy', 'move') and not rv['op']['place']['p']:
                src = rv['op']['place']['l']
            elif rv['k'] == 'ref' and all(e['k'] == 'deref' for e in rv['place']['p']):
                src = rv['place']['l']
            else:
                return None
            if st['place']['l'] in defs:
                return None
            defs[st['place']['l']] = src
    def root(l, d=0):
        while l in defs and d < 6:
            l = defs[l]
            d += 1
        return l
    for i, a in enumerate(t['args']):
        if a.get('k') not in ('copy', 'move') or a['place']['p'] or root(a['place']['l']) != i + 1:
            return None
    if root(0) != t['dest']['l'] and t['dest']['l'] != 0:
        return None
    return cal


def unwrap_known_wrappers(j, known):
    """A-UNWRAP. A function of the confirmed tree that has become a pass-through wrapper around a new function (`impl
    From<P> for S { fn from(p) -> S { S::from_policy(p) } }`, `pub fn truncate(..) { self.truncate_inner(..) }`) has
    only moved its body: the new function is given the old one's name (callers of either end up at the same body) and
    the empty shell is dropped. Without this the new function would be inlined into callers in other modules, taking
    module-confined code (clock reads, policy matches) with it. Returns {known path: new path}."""
    poly = j.get('poly', [])
    inst = j.get('instances', [])
    by_path_p = {}
    for b in poly:
        by_path_p.setdefault(strip_crate(b['path']), []).append(b)
    by_path_i = {}
    for b in inst:
        by_path_i.setdefault(strip_crate(b['path']), []).append(b)
    out = {}
    taken = set()
    for K, kb in sorted(by_path_p.items()):
        if K not in known or len(kb) != 1 or kb[0].get('is_closure') or kb[0].get('is_test_item'):
            continue
        cal = _wrapper_target(kb[0])
        if cal is None:
            continue
        H = strip_crate(cal.get('path') or '')
        if not H or H in known or H in taken or H == K or len(by_path_p.get(H, [])) != 1 or by_path_p[H][0].get('is_closure'):
            continue
        if by_path_p[H][0].get('arg_count') != kb[0].get('arg_count'):
            continue
        ki, hi = by_path_i.get(K, []), by_path_i.get(H, [])
        if len(ki) > 1 or len(hi) > 1 or (ki and not hi):
            continue     # generic: several instances each; leave to A-INLINE
        if ki and _wrapper_target(ki[0]) is None:
            continue
        taken.add(H)
        out[K] = H
        poly.remove(kb[0])
        if ki:
            kid, hid = ki[0]['id'], hi[0]['id']
            inst.remove(ki[0])
            def visit(o):
                if isinstance(o, dict):
                    if o.get('node') == kid and ('path' in o or 'name' in o):
                        o['node'] = hid
                    for v in o.values():
                        visit(v)
                elif isinstance(o, list):
                    for v in o:
                        visit(v)
            for b in inst:
                visit(b['blocks'])
            visit(j.get('roots', []))
        j['fns'] = [f for f in j.get('fns', []) if strip_crate(f['path']) != K]
    return out


def effective_known(j, known, forced=None):
    """Known paths plus the functions that took the place of a known function that no longer exists
    (same parent module / impl, same signature): a rename keeps the function a unit of analysis."""
    eff = set(known)
    renamed = {}
    cur = {}
    for f in j.get('fns', []):
        cur.setdefault(strip_crate(f['path']), {'sig': f.get('sig'), 'parent': strip_crate(f.get('parent') or ''), 'file': (f.get('span') or '').split(':')[0]})
    missing = [k for k in known if k not in cur and known[k].get('sig')]
    used = set()
    for k_, h_ in (forced or {}).items():
        used.add(k_)
        eff.add(h_)
        renamed[k_] = h_
    for path, info in sorted(cur.items()):
        if path in known or not info.get('sig'):
            continue
        for m in missing:
            if m in used:
                continue
            if known[m]['parent'] == info['parent'] and known[m]['sig'] == info['sig']:
                used.add(m)
                eff.add(path)
                renamed[m] = path
                break
    # second chance: a free function turned into an associated function / method of a type of the same file (or
    # back): same source file, same signature, and the only candidate on both sides
    for path, info in sorted(cur.items()):
        if path in eff or not info.get('sig') or not info.get('file'):
            continue
        ms = [m for m in missing if m not in used and known[m].get('file') == info['file'] and known[m]['sig'] == info['sig']]
        others = [p2 for p2, i2 in cur.items() if p2 not in eff and p2 != path and i2.get('file') == info['file'] and i2.get('sig') == info['sig']]
        if len(ms) == 1 and not others:
            used.add(ms[0])
            eff.add(path)
            renamed[ms[0]] = path
    # third chance: a function MOVED to another module / file keeps its name and signature
    for path, info in sorted(cur.items()):
        if path in eff or not info.get('sig') or path.startswith('<'):
            continue
        last = path.split('::')[-1]
        ms = [m for m in missing if m not in used and m.split('::')[-1] == last and known[m]['sig'] == info['sig']]
        others = [p2 for p2, i2 in cur.items() if p2 not in eff and p2 != path and p2.split('::')[-1] == last and i2.get('sig') == info['sig']]
        if len(ms) == 1 and not others:
            used.add(ms[0])
            eff.add(path)
            renamed[ms[0]] = path
    return eff, renamed


def _shift_place(pl, off_l):
    pl['l'] += off_l
    for e in pl['p']:
        if e['k'] == 'index' and 'local' in e:
            e['local'] += off_l


def _shift_op(o, off_l):
    if o.get('k') in ('copy', 'move') and 'place' in o:
        _shift_place(o['place'], off_l)


def _shift_rv(rv, off_l):
    k = rv['k']
    if k in ('ref', 'rawptr', 'discr'):
        _shift_place(rv['place'], off_l)
    elif k in ('use', 'cast', 'repeat'):
        _shift_op(rv['op'], off_l)
    elif k == 'binop':
        _shift_op(rv['a'], off_l)
        _shift_op(rv['b'], off_l)
    elif k == 'unop':
        _shift_op(rv['a'], off_l)
    elif k == 'agg':
        for o in rv.get('ops', []):
            _shift_op(o, off_l)
    else:
        # unknown rvalue kinds: shift every operand-looking member
        for v in rv.values():
            if isinstance(v, dict) and 'k' in v:
                _shift_op(v, off_l)
            elif isinstance(v, dict) and 'l' in v and 'p' in v:
                _shift_place(v, off_l)


def _shift_block(blk, off_l, off_b):
    for s in blk['stmts']:
        if 'place' in s:
            _shift_place(s['place'], off_l)
        if 'rv' in s:
            _shift_rv(s['rv'], off_l)
    t = blk['term']
    k = t['k']
    for key in ('target', 'unwind', 'otherwise'):
        if isinstance(t.get(key), int):
            t[key] += off_b
    if k == 'switch':
        _shift_op(t['discr'], off_l)
        t['targets'] = [[v, tb + off_b] for (v, tb) in t['targets']]
    elif k == 'call':
        for a in t['args']:
            _shift_op(a, off_l)
        if t.get('dest') is not None:
            _shift_place(t['dest'], off_l)
        cal = t['callee']
        if cal.get('kind') == 'local_value' or 'place' in cal:
            if isinstance(cal.get('place'), dict):
                _shift_place(cal['place'], off_l)
    elif k == 'drop':
        _shift_place(t['place'], off_l)
    elif k == 'assert':
        _shift_op(t['cond'], off_l)


def _borrowed_place(body, l, depth=0):
    """If local l is (a move/reborrow chain of) `&[mut] P` with a single definition, the place P (else None)."""
    if depth > 6:
        return None
    defs = []
    for blk in body['blocks']:
        if blk.get('cleanup'):
            continue
        for s_ in blk['stmts']:
            if s_.get('k') == 'assign' and s_['place']['l'] == l and not s_['place']['p']:
                defs.append(s_)
        t = blk['term']
        if t['k'] == 'call' and t.get('dest') is not None and t['dest']['l'] == l:
            return None
    if len(defs) != 1 or l <= body.get('arg_count', 0):
        return None
    rv = defs[0]['rv']
    if rv['k'] == 'ref':
        pl = rv['place']
        # a reborrow `&mut *x` of another borrowed local: follow it
        if pl['p'] and pl['p'][0]['k'] == 'deref' and len(pl['p']) == 1:
            inner = _borrowed_place(body, pl['l'], depth + 1)
            if inner is not None:
                return inner
        if any(e['k'] == 'index' for e in pl['p']):
            return None
        return copy.deepcopy(pl)
    if rv['k'] == 'use' and rv['op'].get('k') in ('move', 'copy') and not rv['op']['place']['p']:
        return _borrowed_place(body, rv['op']['place']['l'], depth + 1)
    return None


def inline_call(caller, bi, callee):
    """Replace the call terminating block `bi` of `caller` (json) by the body of `callee` (json)."""
    term = caller['blocks'][bi]['term']
    off_l = len(caller['locals'])
    off_b = len(caller['blocks'])
    caller['locals'].extend(copy.deepcopy(callee['locals']))
    for n in callee.get('names', []):
        n2 = copy.deepcopy(n)
        _shift_place(n2['place'], off_l)
        caller['names'].append(n2)
    span = term['span']
    blk = caller['blocks'][bi]
    for i, a in enumerate(term['args']):
        blk['stmts'].append({'k': 'assign', 'place': {'l': off_l + 1 + i, 'p': []}, 'rv': {'k': 'use', 'op': a}, 'span': span, 'exp': term.get('exp'), 'inl': 'arg'})
    dest = term.get('dest')
    target = term.get('target')
    blk['term'] = {'k': 'goto', 'target': off_b, 'span': span, 'exp': term.get('exp'), 'inl': strip_crate(callee['path'])}
    ret_blocks = []
    for ci, cb in enumerate(callee['blocks']):
        nb = copy.deepcopy(cb)
        _shift_block(nb, off_l, off_b)
        if nb['term']['k'] == 'return':
            nb['n_own_stmts'] = len(nb['stmts'])
            if dest is not None:
                nb['stmts'].append({'k': 'assign', 'place': copy.deepcopy(dest), 'rv': {'k': 'use', 'op': {'k': 'move', 'place': {'l': off_l, 'p': []}}}, 'span': span, 'exp': term.get('exp'), 'inl': 'ret'})
            if target is not None:
                nb['term'] = {'k': 'goto', 'target': target, 'span': nb['term']['span'], 'exp': nb['term'].get('exp')}
            else:
                nb['term'] = {'k': 'unreachable', 'span': nb['term']['span'], 'exp': nb['term'].get('exp')}
            if not nb.get('cleanup'):
                ret_blocks.append(off_b + ci)
        caller['blocks'].append(nb)
    # a parameter that is a borrow of a caller place (`&mut self.field`, `&self.x.y`) IS that place inside the callee:
    # `*param = v` becomes `self.field = v`, so that rules keyed on the field see the store where it now happens
    subst = {}
    for i, a in enumerate(term['args']):
        if a.get('k') not in ('move', 'copy') or a['place']['p']:
            continue
        pl = _borrowed_place(caller, a['place']['l'])
        if pl is not None:
            # ... unless the callee re-assigns the parameter (`mut payload: &[u8]` advanced in a loop): then `*param`
            # denotes a different place on each round
            pidx = i + 1
            reassigned = False
            for cb_ in callee['blocks']:
                for st_ in cb_['stmts']:
                    if st_.get('k') == 'assign' and st_['place']['l'] == pidx and not st_['place']['p']:
                        reassigned = True
                t_ = cb_['term']
                if t_.get('k') == 'call' and t_.get('dest') is not None and t_['dest']['l'] == pidx and not t_['dest']['p']:
                    reassigned = True
            if not reassigned:
                subst[off_l + 1 + i] = pl
    if subst:
        def fix(o):
            if isinstance(o, dict):
                if 'l' in o and 'p' in o and isinstance(o['p'], list) and o['l'] in subst and o['p'] and o['p'][0].get('k') == 'deref':
                    base = subst[o['l']]
                    o['l'] = base['l']
                    o['p'] = copy.deepcopy(base['p']) + o['p'][1:]
                for v in o.values():
                    fix(v)
            elif isinstance(o, list):
                for x in o:
                    fix(x)
        for nb in caller['blocks'][off_b:]:
            fix(nb['stmts'])
            fix(nb['term'])
    if dest is not None and not dest['p'] and target is not None:
        _specialise_returns(caller, off_b, off_b + len(callee['blocks']), ret_blocks, off_l, dest['l'], target, strip_crate(callee.get('ret_ty') or ''))
    for nb in caller['blocks']:
        nb.pop('n_own_stmts', None)


# ---------------------------------------------------------------------------------------------
# Return-value specialisation: the inlined callee's return sites that assign a KNOWN variant
# (Ok(..) / Err via from_residual / Some / None / a bool constant) jump straight to the arm the
# caller's first test of the returned value selects (`?` = Try::branch + switch, `match`, `if`).
# Without this the merge at the single inlined return block would create paths that do not exist
# (callee returned Err -> caller continues on its Ok arm).

def _succs(blk):
    t = blk['term']
    k = t['k']
    if k == 'goto':
        return [t['target']]
    if k == 'switch':
        return [tb for (_v, tb) in t['targets']] + [t['otherwise']]
    if k in ('drop', 'assert'):
        return [t['target']]
    if k == 'call':
        return [t['target']] if t.get('target') is not None else []
    return []


_ADT_DISCR = {}      # (adt path, variant name) -> discriminant value, filled from the facts by inline_unknown


def _set_adt_table(j):
    _ADT_DISCR.clear()
    for a in j.get('adts', []):
        for v in a.get('variants', []):
            d = v.get('discr')
            _ADT_DISCR[(strip_crate(a['path']), v['name'])] = int(d) if d is not None else int(v.get('idx', 0))
    for (adt, var), idx in (((_R_, 'Ok'), 0), ((_R_, 'Err'), 1), ((_O_, 'None'), 0), ((_O_, 'Some'), 1), (('std::ops::ControlFlow', 'Continue'), 0), (('std::ops::ControlFlow', 'Break'), 1)):
        _ADT_DISCR[(adt, var)] = idx


_R_, _O_ = 'std::result::Result', 'std::option::Option'


def _absval_of_rv(body, rv, depth=0):
    """Abstract value of an rvalue when it is a constant or an aggregate with a known variant:
    ('adt', adt, variant, discr, (sub values...)) | ('bool', v) | ('int', v) | None"""
    if rv['k'] == 'agg' and rv.get('agg') == 'adt' and rv.get('variant') is not None:
        adt = strip_crate(rv.get('adt') or '')
        d = _ADT_DISCR.get((adt, rv['variant']), rv.get('variant_idx'))
        subs = tuple(_absval_of_op(body, o, depth + 1) for o in rv.get('ops', []))
        return ('adt', adt, rv['variant'], d, subs)
    if rv['k'] == 'agg' and rv.get('agg') in ('tuple',):
        return ('tuple', tuple(_absval_of_op(body, o, depth + 1) for o in rv.get('ops', [])))
    if rv['k'] == 'use':
        return _absval_of_op(body, rv['op'], depth)
    return None


def _single_def_rv(body, l):
    found = None
    for blk in body['blocks']:
        if blk.get('cleanup'):
            continue
        for s_ in blk['stmts']:
            if s_.get('k') == 'assign' and s_['place']['l'] == l:
                if s_['place']['p'] or found is not None:
                    return None
                found = s_['rv']
        t = blk['term']
        if t['k'] == 'call' and t.get('dest') is not None and t['dest']['l'] == l:
            return None
    return found


def _absval_of_op(body, o, depth=0):
    if o.get('k') == 'const':
        if o.get('ty') == 'bool' and 'bits' in o:
            return ('bool', int(o['bits']))
        if 'bits' in o:
            return ('int', int(o['bits']))
        return None
    if o.get('k') in ('move', 'copy') and not o['place']['p'] and depth < 4 and body is not None:
        l = o['place']['l']
        if l <= body.get('arg_count', 0):
            return None
        rv = _single_def_rv(body, l)
        if rv is not None and rv['k'] in ('agg', 'use'):
            return _absval_of_rv(body, rv, depth + 1)
    return None


def _assigned_value(blk, ret_local, upto=None, body=None):
    """Known value assigned to ret_local by the statements of blk (last assignment wins), or None / 'none-assigned'."""
    stmts = blk['stmts'] if upto is None else blk['stmts'][:upto]
    for s in reversed(stmts):
        if s.get('k') == 'assign' and s['place']['l'] == ret_local:
            if s['place']['p']:
                return None
            return _absval_of_rv(body, s['rv'])
    return 'none-assigned'


def _value_at_end(blocks, preds, xi, ret_local, ret_ty, depth=0, body=None):
    X = blocks[xi]
    t = X['term']
    if t['k'] == 'call' and t.get('dest') is not None and t['dest']['l'] == ret_local:
        if t['dest']['p']:
            return None
        nm = t['callee'].get('name', '')
        if nm.endswith('::from_residual') and 'FromResidual' in nm:
            if ret_ty.startswith('std::result::Result<'):
                return ('adt', 'std::result::Result', 'Err', 1, (None,))
            if ret_ty.startswith('std::option::Option<'):
                return ('adt', 'std::option::Option', 'None', 0, ())
        return None
    v = _assigned_value(X, ret_local, X.get('n_own_stmts'), body)
    if v != 'none-assigned':
        return v
    # not assigned here: the value is whatever all predecessors agree on
    ps = preds.get(xi, [])
    if not ps or depth > 12:
        return None
    vals = set()
    for pi in ps:
        if pi == xi:
            return None
        v = _value_at_end(blocks, preds, pi, ret_local, ret_ty, depth + 1, body)
        if v is None:
            return None
        vals.add(v)
    return vals.pop() if len(vals) == 1 else None


def _parse_cont(caller, ti, D):
    blocks = caller['blocks']
    T = blocks[ti]
    if T.get('cleanup'):
        return None
    aliases = {D}
    neg = {}
    discr_of = {}
    for s in T['stmts']:
        if s.get('k') != 'assign' or s['place']['p']:
            return None
        rv = s['rv']
        dl = s['place']['l']
        if rv['k'] == 'use' and rv['op'].get('k') in ('copy', 'move') and not rv['op']['place']['p'] and rv['op']['place']['l'] in aliases:
            aliases.add(dl)
        elif rv['k'] == 'use' and rv['op'].get('k') in ('copy', 'move') and not rv['op']['place']['p'] and rv['op']['place']['l'] in neg:
            neg[dl] = neg[rv['op']['place']['l']]
        elif rv['k'] == 'unop' and rv.get('op') == 'Not' and rv['a'].get('k') in ('copy', 'move') and not rv['a']['place']['p'] and (rv['a']['place']['l'] in aliases or rv['a']['place']['l'] in neg):
            neg[dl] = not neg.get(rv['a']['place']['l'], False)
        elif rv['k'] == 'discr' and not rv['place']['p'] and rv['place']['l'] in aliases:
            discr_of[dl] = True
        elif rv['k'] in ('use', 'ref', 'discr', 'cast', 'unop', 'binop', 'agg', 'repeat', 'rawptr'):
            pass
        else:
            return None
    t = T['term']
    if t['k'] == 'call' and 'as std::ops::Try>::branch' in t['callee'].get('name', '') and t.get('dest') is not None and not t['dest']['p'] and t.get('target') is not None:
        a = t['args'][0]
        if a.get('k') in ('copy', 'move') and not a['place']['p'] and a['place']['l'] in aliases:
            B = t['dest']['l']
            T2 = blocks[t['target']]
            if T2.get('cleanup') or T2['term']['k'] != 'switch':
                return None
            dl = None
            for s in T2['stmts']:
                if s.get('k') == 'assign' and not s['place']['p'] and s['rv']['k'] == 'discr' and not s['rv']['place']['p'] and s['rv']['place']['l'] == B:
                    dl = s['place']['l']
                elif s.get('k') != 'assign':
                    return None
            sd = T2['term']['discr']
            if dl is None or sd.get('k') not in ('copy', 'move') or sd['place']['p'] or sd['place']['l'] != dl:
                return None
            return {'shape': 'try', 'B': B, 'T': ti, 'T2': t['target'], 'targets': {int(v): tb for (v, tb) in T2['term']['targets']}, 'otherwise': T2['term']['otherwise'], 'span': t['span'], 'exp': t.get('exp')}
        return None
    if t['k'] == 'switch':
        sd = t['discr']
        if sd.get('k') not in ('copy', 'move') or sd['place']['p']:
            return None
        dl = sd['place']['l']
        tg = {int(v): tb for (v, tb) in t['targets']}
        if dl in discr_of:
            return {'shape': 'match', 'T': ti, 'targets': tg, 'otherwise': t['otherwise']}
        if dl in aliases:
            return {'shape': 'bool', 'T': ti, 'targets': tg, 'otherwise': t['otherwise'], 'neg': False}
        if dl in neg:
            return {'shape': 'bool', 'T': ti, 'targets': tg, 'otherwise': t['otherwise'], 'neg': neg[dl]}
    return None


def _try_payload(a, variant):
    """operand held by the ControlFlow value that Try::branch builds from `a`: the success payload `(a as Ok).0` on
    Continue; the whole value (Result<Infallible, E> is just the Err) on Break"""
    a = copy.deepcopy(a)
    if variant in ('Ok', 'Some') and a.get('k') in ('copy', 'move'):
        adt = 'std::result::Result' if variant == 'Ok' else 'std::option::Option'
        a['place'] = {'l': a['place']['l'], 'p': list(a['place']['p']) + [{'k': 'downcast', 'variant': variant, 'idx': 0 if variant == 'Ok' else 1, 'adt': adt},
                                                                             {'k': 'field', 'i': 0, 'name': '0', 'adt': adt, 'variant': variant}]}
    return a


def _peval(caller, nb, start, env, max_blocks=24):
    """Partial evaluation of the caller's continuation on known values.  `nb` is a block under construction whose
    statements have already established env = {local: abstract value}; starting at block index `start`, statements are
    copied into nb and interpreted on env; `Try::branch` of a known Result/Option and switches on known discriminants /
    bools / integers are resolved.  Evaluation stops at the first terminator that cannot be resolved, which nb then
    receives a copy of.  Returns the number of tests resolved (0: nb is left untouched)."""
    blocks = caller['blocks']
    stmts = []
    cur = start
    resolved = 0
    committed = None
    last_term = None
    seen = set()
    env = dict(env)

    def val_of_place(pl):
        v = env.get(pl['l'])
        proj = pl['p']
        k = 0
        while v is not None and k < len(proj):
            e = proj[k]
            if e['k'] == 'downcast':
                if v[0] != 'adt' or v[2] != e.get('variant'):
                    return None
                k += 1
                continue
            if e['k'] == 'field':
                subs = v[4] if v[0] == 'adt' else (v[1] if v[0] == 'tuple' else None)
                if subs is None or e['i'] >= len(subs):
                    return None
                v = subs[e['i']]
                k += 1
                continue
            return None
        return v

    def val_of_op(o):
        if o.get('k') == 'const':
            return _absval_of_op(None, o)
        if o.get('k') in ('move', 'copy'):
            return val_of_place(o['place'])
        return None

    for _step in range(max_blocks):
        if cur in seen:
            break
        seen.add(cur)
        blk = blocks[cur]
        if blk.get('cleanup'):
            break
        bstmts = copy.deepcopy(blk['stmts'])
        for s_ in bstmts:
            if s_.get('k') != 'assign':
                continue
            pl = s_['place']
            if pl['p']:
                if pl['l'] in env:
                    env[pl['l']] = None
                continue
            rv = s_['rv']
            v = None
            if rv['k'] == 'use':
                v = val_of_op(rv['op'])
            elif rv['k'] == 'discr':
                dv = val_of_place(rv['place'])
                if dv is not None and dv[0] == 'adt' and dv[3] is not None:
                    v = ('int', int(dv[3]))
            elif rv['k'] == 'unop' and rv.get('op') == 'Not':
                a = val_of_op(rv['a'])
                if a is not None and a[0] == 'bool':
                    v = ('bool', 1 - a[1])
            elif rv['k'] == 'agg':
                if rv.get('agg') == 'adt' and rv.get('variant') is not None:
                    adt = strip_crate(rv.get('adt') or '')
                    v = ('adt', adt, rv['variant'], _ADT_DISCR.get((adt, rv['variant']), rv.get('variant_idx')), tuple(val_of_op(o) for o in rv.get('ops', [])))
                elif rv.get('agg') == 'tuple':
                    v = ('tuple', tuple(val_of_op(o) for o in rv.get('ops', [])))
            env[pl['l']] = v
        t = blk['term']
        k = t['k']
        if k == 'goto':
            stmts.extend(bstmts)
            cur = t['target']
            continue
        if k == 'call' and 'as std::ops::Try>::branch' in t['callee'].get('name', '') and t.get('dest') is not None and not t['dest']['p'] and t.get('target') is not None and len(t['args']) == 1:
            a = t['args'][0]
            av = val_of_op(a)
            if av is not None and av[0] == 'adt' and av[1] in (_R_, _O_):
                if av[2] in ('Ok', 'Some'):
                    cfv = ('adt', 'std::ops::ControlFlow', 'Continue', 0, (av[4][0] if av[4] else None,))
                    cf = ('Continue', 0)
                else:
                    cfv = ('adt', 'std::ops::ControlFlow', 'Break', 1, (av,))
                    cf = ('Break', 1)
                stmts.extend(bstmts)
                stmts.append({'k': 'assign', 'place': {'l': t['dest']['l'], 'p': []}, 'rv': {'k': 'agg', 'agg': 'adt', 'adt': 'std::ops::ControlFlow', 'variant': cf[0], 'variant_idx': cf[1], 'is_enum': True, 'fields': ['0'],
                              'ops': [_try_payload(a, av[2])], 'inl_try': av[2]}, 'span': t['span'], 'exp': t.get('exp'), 'inl': 'try'})
                env[t['dest']['l']] = cfv
                cur = t['target']
                continue
            last_term = t
            stmts.extend(bstmts)
            break
        if k == 'switch':
            dv = val_of_op(t['discr'])
            if dv is not None and dv[0] in ('int', 'bool'):
                want = int(dv[1])
                tgt = None
                for (sv, tb) in t['targets']:
                    if int(sv) == want:
                        tgt = tb
                if tgt is None:
                    tgt = t['otherwise']
                stmts.extend(bstmts)
                resolved += 1
                cur = tgt
                committed = (len(stmts), cur)
                continue
            last_term = t
            stmts.extend(bstmts)
            break
        last_term = t
        stmts.extend(bstmts)
        break
    if not resolved or committed is None:
        return 0
    # keep only what leads up to the last test that could be resolved: nothing beyond it is duplicated (in
    # particular no call site)
    nb['stmts'].extend(stmts[:committed[0]])
    nb['term'] = {'k': 'goto', 'target': committed[1], 'span': nb['term']['span'], 'exp': nb['term'].get('exp'), 'inl': 'resolved'}
    return resolved


def _specialise_block(caller, nb, val, cont, D):
    """nb ends with `D = <known value>; goto T`: continue it with the caller's continuation evaluated on that value."""
    if nb['term']['k'] != 'goto':
        return False
    if val is None:
        return False
    if len(val) == 4 and val[0] == 'adt':
        val = val + ((None,) if val[2] in ('Ok', 'Err', 'Some') else (),)
    return _peval(caller, nb, nb['term']['target'], {D: val}) > 0


def _retarget(blk, old, new):
    t = blk['term']
    k = t['k']
    if k in ('goto', 'drop', 'assert', 'call') and t.get('target') == old:
        t['target'] = new
    if k == 'switch':
        t['targets'] = [[v, (new if tb == old else tb)] for (v, tb) in t['targets']]
        if t['otherwise'] == old:
            t['otherwise'] = new


def _specialise_returns(caller, lo, hi, ret_blocks, off_l, D, target, ret_ty):
    cont = None
    blocks = caller['blocks']
    preds = {}
    for xi in range(lo, hi):
        if blocks[xi].get('cleanup'):
            continue
        for sidx in _succs(blocks[xi]):
            preds.setdefault(sidx, []).append(xi)
    for ri in ret_blocks:
        R = blocks[ri]
        own = _assigned_value(R, off_l, R.get('n_own_stmts'), caller)
        if own != 'none-assigned':
            if own is not None:
                _specialise_block(caller, R, own, cont, D)
            continue
        done_preds = set()
        for xi in list(preds.get(ri, [])):
            val = _value_at_end(blocks, preds, xi, off_l, ret_ty, 0, caller)
            if val is None:
                continue
            nb = copy.deepcopy(R)
            if _specialise_block(caller, nb, val, cont, D):
                blocks.append(nb)
                _retarget(blocks[xi], ri, len(blocks) - 1)
                done_preds.add(xi)
        # assignment sites that reach the return block through a shared straight-line tail (drops, storage
        # ends): give each its own copy of the tail, ending in the specialised return
        for xi in range(lo, hi):
            X = blocks[xi]
            if X.get('cleanup') or xi == ri:
                continue
            val = None
            t = X['term']
            if t['k'] == 'call' and t.get('dest') is not None and t['dest']['l'] == off_l and not t['dest']['p']:
                val = _value_at_end(blocks, {}, xi, off_l, ret_ty, 0, caller)
            else:
                v = _assigned_value(X, off_l, None, caller)
                val = v if v not in (None, 'none-assigned') else None
            if val is None:
                continue
            succ = sorted(set(_succs(X)))
            # (a block that assigns the result and then tests a drop flag has two successors; both are followed)
            if not succ or (all(s_ == ri for s_ in succ) and xi in done_preds):
                continue
            # the region between the assignment and the return block: straight-line tails and the diamonds of
            # conditional drops (drop flags); no calls, no reassignment of the return slot, acyclic, small
            region = []
            okc = True
            stack = list(succ)
            while stack and okc:
                cur = stack.pop()
                if cur == ri or cur in region:
                    continue
                cb_ = blocks[cur]
                if cb_.get('cleanup') or len(region) > 16 or not (lo <= cur < hi) or cb_['term']['k'] in ('call', 'return', 'unreachable', 'resume'):
                    okc = False
                    break
                if _assigned_value(cb_, off_l) != 'none-assigned':
                    okc = False
                    break
                region.append(cur)
                stack.extend(_succs(cb_))
            if not okc or not region:
                continue
            # acyclic?
            def reaches(a, b_, seen_=None):
                seen_ = seen_ or set()
                for y in _succs(blocks[a]):
                    if y == b_:
                        return True
                    if y in region and y not in seen_:
                        seen_.add(y)
                        if reaches(y, b_, seen_):
                            return True
                return False
            if any(reaches(x_, x_) for x_ in region):
                continue
            nbR = copy.deepcopy(R)
            if not _specialise_block(caller, nbR, val, cont, D):
                continue
            blocks.append(nbR)
            mapping = {ri: len(blocks) - 1}
            for ci in region:
                blocks.append(copy.deepcopy(blocks[ci]))
                mapping[ci] = len(blocks) - 1
            for ci in region:
                cc = blocks[mapping[ci]]
                for y in set(_succs(blocks[ci])):
                    if y in mapping:
                        _retarget(cc, y, mapping[y])
            for s_ in succ:
                if s_ in mapping:
                    _retarget(X, s_, mapping[s_])


def prune_unreachable(b):
    """Blocks no longer reachable from the entry are marked as cleanup (= not live) so that their definitions do not pollute def-use."""
    blocks = b['blocks']
    seen = {0}
    stack = [0]
    while stack:
        x = stack.pop()
        if blocks[x].get('cleanup'):
            continue
        for y in _succs(blocks[x]):
            if y not in seen:
                seen.add(y)
                stack.append(y)
    for i, blk in enumerate(blocks):
        if i not in seen and not blk.get('cleanup'):
            blk['cleanup'] = True
            blk['inl_dead'] = True


def _eligible(b, known):
    p = strip_crate(b['path'])
    if p in known or b.get('is_closure') or b.get('is_test_item') or b.get('automatically_derived'):
        return False
    if p.startswith('<') or '{closure' in p or '{impl' in p:
        return False
    return True


def _inline_family(bodies, lookup, known, roots):
    """bodies: list of body json; lookup(callee_json) -> body json or None. Returns names of inlined helpers."""
    inlined = set()
    state = {}

    def process(b, stack):
        key = id(b)
        if state.get(key) == 'done':
            return
        if key in stack:
            return
        stack = stack | {key}
        changed = True
        did = False
        rounds = 0
        while changed and rounds < MAX_DEPTH:
            changed = False
            rounds += 1
            for bi in range(len(b['blocks'])):
                blk = b['blocks'][bi]
                t = blk['term']
                if t['k'] != 'call' or blk.get('cleanup'):
                    continue
                cal = t['callee']
                if not cal.get('local') or cal.get('as_value'):
                    continue
                c = lookup(cal)
                if c is None or c is b or id(c) in stack or not _eligible(c, known):
                    continue
                # helpers of any file are put in place; the bodies dropped afterwards stay available to the rules that
                # judge a TYPE's own methods locally (Facts.dropped_helpers): a new method on another type is also a
                # unit of its own
                if c['arg_count'] != len(t['args']):
                    continue
                process(c, stack)
                if len(b['blocks']) + len(c['blocks']) > MAX_BLOCKS:
                    continue
                inline_call(b, bi, c)
                inlined.add(strip_crate(c['path']))
                changed = True
                did = True
        if did:
            prune_unreachable(b)
        state[key] = 'done'

    for b in list(bodies):
        process(b, frozenset())
    return inlined


def _referenced(bodies, lookup):
    refs = set()
    def visit(v):
        if isinstance(v, dict):
            if v.get('local') and ('path' in v) and ('kind' in v or 'node' in v):
                c = lookup(v)
                if c is not None:
                    refs.add(id(c))
            for x in v.values():
                visit(x)
        elif isinstance(v, list):
            for x in v:
                visit(x)
    for b in bodies:
        for blk in b['blocks']:
            visit(blk)
    return refs


def _strip_generics(name):
    out = []
    depth = 0
    i = 0
    while i < len(name):
        ch = name[i]
        if ch == '<':
            depth += 1
        elif ch == '>':
            depth -= 1
        elif depth == 0:
            out.append(ch)
        i += 1
    return ''.join(out).replace('::::', '::')


def rename_back(j, renamed):
    """A function recognised as a rename of a known one is given its known name back, everywhere in the facts
    (bodies, callees, fn table, closures nested in it): the rules name the functions of the tree they were
    confirmed on, and a rename is not a change of behaviour."""
    if not renamed:
        return
    import re as _re
    pairs = []
    moved = []
    for old, new in renamed.items():
        if new.startswith('<'):
            continue
        ol, nl = old.split('::')[-1], new.split('::')[-1]
        op_, np_ = old.rsplit('::', 1)[0] if '::' in old else '', new.rsplit('::', 1)[0] if '::' in new else ''
        if op_ != np_ and _strip_generics(op_) != _strip_generics(np_):
            moved.append((new, old))
        elif ol != nl:
            pairs.append((new, old, nl, ol))
    # trait-impl methods whose impl block moved to another module (`mod x { impl Iterator for super::T {..} }`): the
    # printed def path changes as a whole (`x::<impl Iterator for T>::next` for `<T as Iterator>::next`)
    def lnorm(v):
        return _re.sub(r"'\w+", "'_", strip_crate(v))
    exact = {lnorm(new): old for old, new in renamed.items() if old.startswith('<') != new.startswith('<') or ('<impl ' in new) != ('<impl ' in old)}
    if not pairs and not moved and not exact:
        return
    def fix(v):
        if not isinstance(v, str) or '::' not in v:
            return v
        if exact:
            lv = lnorm(v)
            anon = "'_" in v and not _re.search(r"'[a-zA-Z]", v)     # instance names print lifetimes as '_
            for nn, old in exact.items():
                o2 = lnorm(old) if anon else old
                if lv == nn:
                    return o2
                if lv.startswith(nn + '::'):
                    return o2 + lv[len(nn):]
        sv = _strip_generics(strip_crate(v))
        for (new, old) in moved:
            # free functions and inherent fns without generics in the path: replace the whole path
            if sv == new or sv.startswith(new + '::'):
                vv = strip_crate(v)
                if vv.startswith(new):
                    return old + vv[len(new):]
        for (new, old, nl, ol) in pairs:
            if sv == new or sv.startswith(new + '::') or sv.endswith('::' + new) or ('::' + new + '::') in sv:
                return _re.sub(r'(?<=::)' + _re.escape(nl) + r'(?=$|::)', ol, v, count=1)
        return v
    KEYS = ('path', 'name', 'orig', 'orig_name', 'parent', 'named', 'anon_of')
    def visit(o):
        if isinstance(o, dict):
            for k, v in list(o.items()):
                if k in KEYS and isinstance(v, str):
                    o[k] = fix(v)
                else:
                    visit(v)
        elif isinstance(o, list):
            for x in o:
                visit(x)
    for b in j.get('instances', []) + j.get('poly', []):
        for k in KEYS:
            if isinstance(b.get(k), str):
                b[k] = fix(b[k])
        visit(b['blocks'])
    for f in j.get('fns', []) + j.get('roots', []) + j.get('consts', []):
        for k in KEYS:
            if isinstance(f.get(k), str):
                f[k] = fix(f[k])


def rename_types_back(j, known_adts):
    """A struct / enum that only changed its NAME (same module, same variants, same fields, same field types) is
    given its known name back in every string of the facts; an enum variant that only changed its name (same index,
    same fields) likewise.  Done before functions are matched, so that methods of a renamed type keep their paths."""
    import re as _re
    if j.get('crate') != 'mrecordlog' or not known_adts:
        return {}
    cur = {strip_crate(a['path']): a for a in j.get('adts', [])}
    def vname(n, path):
        return '<self>' if n == path.split('::')[-1] else n
    def sig_of_cur(a, self_path, as_path):
        return tuple((vname(v['name'], self_path), tuple((f['name'], strip_crate(f['ty']).replace(self_path, as_path)) for f in v['fields'])) for v in a['variants'])
    def sig_of_known(k, path):
        return tuple((vname(v['name'], path), tuple((n, strip_crate(t)) for (n, t) in v['fields'])) for v in k)
    missing = [m for m in known_adts if m not in cur]
    extra = [x for x in cur if x not in known_adts and not cur[x].get('is_test_item')]
    ren = {}
    for m in missing:
        parent = m.rsplit('::', 1)[0] if '::' in m else ''
        cands = [x for x in extra if (x.rsplit('::', 1)[0] if '::' in x else '') == parent and x not in ren.values() and sig_of_cur(cur[x], x, m) == sig_of_known(known_adts[m], m)]
        if len(cands) == 1:
            ren[m] = cands[0]
    # a type MOVED to another module keeps its name, variants and fields
    for m in missing:
        if m in ren:
            continue
        last = m.split('::')[-1]
        cands = [x for x in extra if x.split('::')[-1] == last and x not in ren.values() and sig_of_cur(cur[x], x, m) == sig_of_known(known_adts[m], m)]
        if len(cands) == 1:
            ren[m] = cands[0]
    if ren:
        pats = [(_re.compile(r'(?<![A-Za-z0-9_])' + _re.escape(new) + r'(?![A-Za-z0-9_])'), old) for old, new in ren.items()]
        # also the `mrecordlog::`-prefixed spelling
        def fix(v):
            for (pat, old) in pats:
                v = pat.sub(old, v)
            return v
        def visit(o):
            if isinstance(o, dict):
                for k, v in list(o.items()):
                    if isinstance(v, str):
                        if '::' in v:
                            o[k] = fix(v)
                    else:
                        visit(v)
            elif isinstance(o, list):
                for i, x in enumerate(o):
                    if isinstance(x, str):
                        if '::' in x:
                            o[i] = fix(x)
                    else:
                        visit(x)
        for key in ('adts', 'consts', 'fns', 'impls', 'roots', 'instances', 'poly'):
            visit(j.get(key, []))
        # bare struct names (variant name of a struct = its own name)
        bare = {new.split('::')[-1]: old.split('::')[-1] for old, new in ren.items()}
        def visit_bare(o):
            if isinstance(o, dict):
                if isinstance(o.get('variant'), str) and o['variant'] in bare and strip_crate(o.get('adt') or '') in ren:
                    o['variant'] = bare[o['variant']]
                for v in o.values():
                    visit_bare(v)
            elif isinstance(o, list):
                for x in o:
                    visit_bare(x)
        for a in j.get('adts', []):
            if strip_crate(a['path']) in ren:
                for v in a['variants']:
                    if v['name'] in bare:
                        v['name'] = bare[v['name']]
        for b in j.get('instances', []) + j.get('poly', []):
            visit_bare(b['blocks'])
    # enum variants renamed in place
    vren = {}
    for a in j.get('adts', []):
        path = strip_crate(a['path'])
        k = known_adts.get(path)
        if not k or len(k) != len(a['variants']) or a.get('kind') != 'enum':
            continue
        cur_names = [v['name'] for v in a['variants']]
        for kv, v in zip(k, a['variants']):
            if kv['name'] != v['name'] and kv['name'] not in cur_names and [(n, t) for (n, t) in kv['fields']] == [(f['name'], strip_crate(f['ty'])) for f in v['fields']]:
                vren[(path, v['name'])] = kv['name']
                v['name'] = kv['name']
    if vren:
        def visit2(o):
            if isinstance(o, dict):
                adt = strip_crate(o.get('adt') or '')
                if 'variant' in o and isinstance(o['variant'], str) and (adt, o['variant']) in vren:
                    o['variant'] = vren[(adt, o['variant'])]
                for v in o.values():
                    visit2(v)
            elif isinstance(o, list):
                for x in o:
                    visit2(x)
        for b in j.get('instances', []) + j.get('poly', []):
            visit2(b['blocks'])
    out = dict(ren)
    out.update({'%s::%s' % (p, old): new for (p, new), old in vren.items()})
    return out


# ---------------------------------------------------------------------------------------------
# A-DESUGAR: `Result::map`, `Result::map_err`, `Result::and_then` written out as the match they are.
#   r.map(f)      = match r { Ok(v) => Ok(f(v)),  Err(e) => Err(e) }
#   r.map_err(f)  = match r { Ok(v) => Ok(v),     Err(e) => Err(f(e)) }
#   r.and_then(f) = match r { Ok(v) => f(v),      Err(e) => Err(e) }
# f is a fn item (variant constructor, From::from, any path) or a closure built in the same block; the call to
# f becomes an ordinary call terminator, which the rest of the machinery (call graph, effects, A-INLINE on
# demand, error-flow rules) understands.  Without this, an error handed to an adaptor looks "discarded" and the
# effects of the closure are invisible to the must-pass-through rules.

def _split_top(s):
    out, depth, cur = [], 0, ''
    for ch in s:
        if ch in '<([':
            depth += 1
        elif ch in '>)]':
            depth -= 1
        if ch == ',' and depth == 0:
            out.append(cur.strip())
            cur = ''
        else:
            cur += ch
    if cur.strip():
        out.append(cur.strip())
    return out


def _result_args(ty):
    ty = ty.strip()
    pre = 'std::result::Result<'
    if not ty.startswith(pre) or not ty.endswith('>'):
        return None
    parts = _split_top(ty[len(pre):-1])
    return parts if len(parts) == 2 else None


def _closures_first(bodies):
    """closures (innermost first) before the bodies that create them, so that what is put in place is already desugared"""
    return sorted(bodies, key=lambda b: -(b.get('path') or '').count('{closure'))


# adaptor -> (enum of the receiver, {variant: action})
#   action: ('f', wrap)   call f(payload), result wrapped in `wrap` (None: result as it is)
#           ('f0', wrap)  call f() (no argument), result wrapped / as it is
#           ('pass', wrap) payload re-wrapped in `wrap` (None: the payload itself)
#           ('arg', wrap) the plain value argument, wrapped / as it is
#           ('unit', wrap) a payload-less variant of the result enum
#           ('default', None) Default::default()
# wrap = (enum, variant, index)
_R, _O = 'std::result::Result', 'std::option::Option'
_OK, _ERR, _SOME, _NONE = (_R, 'Ok', 0), (_R, 'Err', 1), (_O, 'Some', 1), (_O, 'None', 0)
ADAPTORS = {
    (_R, 'map'): {'Ok': ('f', _OK), 'Err': ('pass', _ERR)},
    (_R, 'map_err'): {'Ok': ('pass', _OK), 'Err': ('f', _ERR)},
    (_R, 'and_then'): {'Ok': ('f', None), 'Err': ('pass', _ERR)},
    (_R, 'or_else'): {'Ok': ('pass', _OK), 'Err': ('f', None)},
    (_R, 'ok'): {'Ok': ('pass', _SOME), 'Err': ('unit', _NONE)},
    (_R, 'err'): {'Ok': ('unit', _NONE), 'Err': ('pass', _SOME)},
    (_R, 'unwrap_or'): {'Ok': ('pass', None), 'Err': ('arg', None)},
    (_R, 'unwrap_or_else'): {'Ok': ('pass', None), 'Err': ('f', None)},
    (_R, 'unwrap_or_default'): {'Ok': ('pass', None), 'Err': ('default', None)},
    (_R, 'map_or'): {'Ok': ('f', None), 'Err': ('arg', None)},
    (_O, 'map'): {'Some': ('f', _SOME), 'None': ('unit', _NONE)},
    (_O, 'and_then'): {'Some': ('f', None), 'None': ('unit', _NONE)},
    (_O, 'ok_or'): {'Some': ('pass', _OK), 'None': ('arg', _ERR)},
    (_O, 'ok_or_else'): {'Some': ('pass', _OK), 'None': ('f0', _ERR)},
    (_O, 'unwrap_or'): {'Some': ('pass', None), 'None': ('arg', None)},
    (_O, 'unwrap_or_else'): {'Some': ('pass', None), 'None': ('f0', None)},
    (_O, 'unwrap_or_default'): {'Some': ('pass', None), 'None': ('default', None)},
    (_O, 'map_or'): {'Some': ('f', None), 'None': ('arg', None)},
    (_O, 'or_else'): {'Some': ('pass', _SOME), 'None': ('f0', None)},
    (_O, 'is_some_and'): {'Some': ('f', None), 'None': ('cfalse', None)},
    (_O, 'is_none_or'): {'Some': ('f', None), 'None': ('ctrue', None)},
    (_R, 'is_ok_and'): {'Ok': ('f', None), 'Err': ('cfalse', None)},
    (_R, 'is_err_and'): {'Ok': ('cfalse', None), 'Err': ('f', None)},
}
_VIDX = {(_R, 'Ok'): 0, (_R, 'Err'): 1, (_O, 'None'): 0, (_O, 'Some'): 1}


def _enum_args(ty):
    ty = ty.strip()
    for (pre, n) in (('std::result::Result<', 2), ('std::option::Option<', 1)):
        if ty.startswith(pre) and ty.endswith('>'):
            parts = _split_top(ty[len(pre):-1])
            if len(parts) == n:
                return parts
    return None


def desugar_adaptors(j):
    import re as _re
    if j.get('crate') != 'mrecordlog':
        return 0
    by_id = {b['id']: b for b in j.get('instances', []) if b.get('id') is not None}
    count = 0
    for b in _closures_first(j.get('instances', [])):
        bi = -1
        while bi + 1 < len(b['blocks']):
            bi += 1
            blk = b['blocks'][bi]
            t = blk['term']
            if blk.get('cleanup') or t['k'] != 'call' or t.get('target') is None or t.get('dest') is None:
                continue
            m = _re.match(r'^std::(result::Result|option::Option)::<.*?>::(\w+)(::<.*)?$', t['callee'].get('name', ''))
            if not m:
                continue
            enum = 'std::' + m.group(1)
            kind = m.group(2)
            table = ADAPTORS.get((enum, kind))
            if table is None:
                continue
            args = t['args']
            uses_f = any(a[0] in ('f', 'f0') for a in table.values())
            uses_arg = any(a[0] == 'arg' for a in table.values())
            want = 1 + (1 if uses_f else 0) + (1 if uses_arg else 0)
            if len(args) != want:
                continue
            r_op = args[0]
            if r_op.get('k') not in ('move', 'copy') or r_op['place']['p']:
                continue
            r = r_op['place']['l']
            ra = _enum_args(strip_crate(b['locals'][r]['ty']))
            if ra is None:
                continue
            # argument order: (self, default?, f?) for map_or; (self, f) ; (self, default)
            f_op = args[-1] if uses_f else None
            v_op = args[1] if uses_arg else None
            fnj = None
            env = None
            if uses_f:
                if f_op.get('k') == 'const' and isinstance(f_op.get('fn'), dict):
                    fnj = f_op['fn']
                elif f_op.get('k') in ('move', 'copy') and not f_op['place']['p']:
                    cl = f_op['place']['l']
                    for s_ in blk['stmts']:
                        if s_.get('k') == 'assign' and s_['place']['l'] == cl and not s_['place']['p'] and s_['rv'].get('k') == 'agg' and s_['rv'].get('agg') == 'closure':
                            fnj = s_['rv']['fn']
                            env = cl
                if fnj is None:
                    continue
            span, exp = t['span'], t.get('exp')
            dest, target = t['dest'], t['target']
            locs = b['locals']

            def new_local(ty, adt=None):
                locs.append({'ty': ty, 'adt': adt})
                return len(locs) - 1

            def asg(pl, rv):
                return {'k': 'assign', 'place': pl, 'rv': rv, 'span': span, 'exp': exp, 'dsg': True}

            def goto(tb):
                return {'k': 'goto', 'target': tb, 'span': span, 'exp': exp}

            def mv(l):
                return {'k': 'move', 'place': {'l': l, 'p': []}}

            def proj(var):
                return {'l': r, 'p': [{'k': 'downcast', 'variant': var, 'idx': _VIDX[(enum, var)], 'adt': enum}, {'k': 'field', 'i': 0, 'name': '0', 'adt': enum, 'variant': var}]}

            def agg(w, ops):
                return {'k': 'agg', 'agg': 'adt', 'adt': w[0], 'variant': w[1], 'variant_idx': w[2], 'is_enum': True, 'fields': (['0'] if ops else []), 'ops': ops}

            callee = None
            if fnj is not None:
                callee = dict(fnj)
                callee['as_value'] = False
            cb = by_id.get(fnj.get('node')) if (fnj and env is not None) else None

            def call_args(x):
                pre = []
                if env is None:
                    return ([mv(x)] if x is not None else []), pre
                first = mv(env)
                if cb is not None and cb['arg_count'] >= 1 and strip_crate(cb['locals'][1]['ty']).startswith('&'):
                    rf = new_local('&' + strip_crate(locs[env]['ty']))
                    pre.append(asg({'l': rf, 'p': []}, {'k': 'ref', 'mut': 'mut' if strip_crate(cb['locals'][1]['ty']).startswith('&mut') else 'shared', 'place': {'l': env, 'p': []}}))
                    first = mv(rf)
                return [first] + ([mv(x)] if x is not None else []), pre

            d = new_local('isize')
            nb0 = len(b['blocks'])
            new_blocks = []
            arm_index = {}
            variants = list(table.keys())
            payload_ty = {'Ok': ra[0], 'Err': ra[1] if len(ra) > 1 else '_', 'Some': ra[0], 'None': '()'}
            for var in variants:
                (act, wrap) = table[var]
                stmts = []
                pl = None
                if var != 'None':
                    pl = new_local(payload_ty[var])
                    stmts.append(asg({'l': pl, 'p': []}, {'k': 'use', 'op': {'k': 'move', 'place': proj(var)}}))
                arm_index[var] = nb0 + len(new_blocks)
                ctor = None
                if act == 'f' and env is None and callee is not None:
                    mc = _re.match(r'^std::(option::Option|result::Result)::<.*>::(Some|Ok|Err)$', strip_crate(callee.get('name', '')))
                    if mc:
                        ctor = ('std::' + mc.group(1), mc.group(2), _VIDX[('std::' + mc.group(1), mc.group(2))])
                if ctor is not None:
                    # `.map(Some)` / `.map_err(Err)`: the function is a variant constructor, i.e. an aggregate
                    inner = new_local('_')
                    st2 = stmts + [asg({'l': inner, 'p': []}, agg(ctor, [mv(pl)]))]
                    rv = agg(wrap, [mv(inner)]) if wrap is not None else {'k': 'use', 'op': mv(inner)}
                    new_blocks.append({'cleanup': False, 'stmts': st2 + [asg(copy.deepcopy(dest), rv)], 'term': goto(target)})
                elif act in ('f', 'f0'):
                    cargs, pre = call_args(pl if act == 'f' else None)
                    if wrap is None:
                        new_blocks.append({'cleanup': False, 'stmts': stmts + pre, 'term': {'k': 'call', 'callee': callee, 'args': cargs, 'dest': copy.deepcopy(dest), 'target': target, 'unwind': None, 'span': span, 'exp': exp, 'fn_span': span, 'fn_exp': exp}})
                    else:
                        fr = new_local('_')
                        new_blocks.append({'cleanup': False, 'stmts': stmts + pre, 'term': {'k': 'call', 'callee': callee, 'args': cargs, 'dest': {'l': fr, 'p': []}, 'target': nb0 + len(new_blocks) + 1, 'unwind': None, 'span': span, 'exp': exp, 'fn_span': span, 'fn_exp': exp}})
                        new_blocks.append({'cleanup': False, 'stmts': [asg(copy.deepcopy(dest), agg(wrap, [mv(fr)]))], 'term': goto(target)})
                elif act == 'pass':
                    rv = agg(wrap, [mv(pl)]) if wrap is not None else {'k': 'use', 'op': mv(pl)}
                    new_blocks.append({'cleanup': False, 'stmts': stmts + [asg(copy.deepcopy(dest), rv)], 'term': goto(target)})
                elif act == 'arg':
                    rv = agg(wrap, [copy.deepcopy(v_op)]) if wrap is not None else {'k': 'use', 'op': copy.deepcopy(v_op)}
                    new_blocks.append({'cleanup': False, 'stmts': stmts + [asg(copy.deepcopy(dest), rv)], 'term': goto(target)})
                elif act == 'unit':
                    new_blocks.append({'cleanup': False, 'stmts': stmts + [asg(copy.deepcopy(dest), agg(wrap, []))], 'term': goto(target)})
                elif act in ('cfalse', 'ctrue'):
                    cb_ = {'k': 'const', 'ty': 'bool', 'bits': '1' if act == 'ctrue' else '0', 'size': 1, 'text': 'true' if act == 'ctrue' else 'false'}
                    new_blocks.append({'cleanup': False, 'stmts': stmts + [asg(copy.deepcopy(dest), {'k': 'use', 'op': cb_})], 'term': goto(target)})
                elif act == 'default':
                    dcal = {'orig': 'std::default::Default::default', 'orig_name': 'Default::default', 'trait_method': True, 'as_value': False, 'kind': 'item', 'path': 'std::default::Default::default',
                            'name': '<%s as std::default::Default>::default' % payload_ty.get('Ok' if enum == _R else 'Some', '_'), 'local': False, 'unresolved': False}
                    new_blocks.append({'cleanup': False, 'stmts': stmts, 'term': {'k': 'call', 'callee': dcal, 'args': [], 'dest': copy.deepcopy(dest), 'target': target, 'unwind': None, 'span': span, 'exp': exp, 'fn_span': span, 'fn_exp': exp}})
            blk['stmts'].append(asg({'l': d, 'p': []}, {'k': 'discr', 'place': {'l': r, 'p': []}, 'adt': enum, 'ty': 'isize'}))
            tg = [[_VIDX[(enum, var)], arm_index[var]] for var in variants]
            blk['term'] = {'k': 'switch', 'discr': mv(d), 'targets': sorted(tg), 'otherwise': arm_index[variants[-1]], 'span': span, 'exp': exp, 'dsg': kind}
            first_new = len(b['blocks'])
            b['blocks'].extend(new_blocks)
            count += 1
            # a closure called exactly here is part of this body: put its MIR in place of the call
            if env is not None and cb is not None and cb is not b:
                caps = None
                for s_ in blk['stmts']:
                    if s_.get('k') == 'assign' and s_['place']['l'] == env and not s_['place']['p'] and s_['rv'].get('k') == 'agg' and s_['rv'].get('agg') == 'closure':
                        caps = [(o['place']['l'] if o.get('k') in ('move', 'copy') and not o['place']['p'] else None) for o in s_['rv'].get('ops', [])]
                for k_, nbk in enumerate(new_blocks):
                    tt = nbk['term']
                    if tt['k'] == 'call' and tt['callee'].get('node') == fnj.get('node') and cb['arg_count'] == len(tt['args']):
                        off_l = len(b['locals'])
                        fb = len(b['blocks'])
                        inline_call(b, first_new + k_, cb)
                        _subst_captures(b, fb, off_l + 1, caps or [], strip_crate(cb['locals'][1]['ty']).startswith('&'), env_local=env)
                        _forget_closure_value(blk, env)
                        j.setdefault('_closures_inlined', []).append(cb['id'])
            # the arms that build a known variant jump straight to the arm the caller's `?` / match selects
            if not dest['p']:
                for nbk in new_blocks:
                    if nbk['term']['k'] != 'goto' or nbk['term']['target'] != target or not nbk['stmts']:
                        continue
                    last = nbk['stmts'][-1]
                    if last.get('k') == 'assign' and last['place']['l'] == dest['l'] and not last['place']['p'] and last['rv'].get('k') == 'agg' and last['rv'].get('adt') in (_R, _O) and last['rv'].get('variant'):
                        _specialise_block(b, nbk, _absval_of_rv(b, last['rv']), None, dest['l'])
    count += desugar_iter_adaptors(j, by_id)
    if count:
        for b in j.get('instances', []):
            _respecialise(b)
            prune_unreachable(b)
        drop_inlined_closures(j)
    return count


def _respecialise(b):
    """Chained adaptors (`x.map(f).ok_or(e)`): once all of them are written out, an arm that builds a known
    variant and then falls into the next adaptor's test jumps straight to the arm that test selects."""
    n0 = len(b['blocks'])
    for bi in range(n0):
        blk = b['blocks'][bi]
        if blk.get('cleanup') or blk['term']['k'] != 'goto' or blk['term'].get('inl') == 'resolved' or not blk['stmts']:
            continue
        last = blk['stmts'][-1]
        if not (last.get('dsg') and last.get('k') == 'assign' and not last['place']['p'] and last['rv'].get('k') == 'agg' and last['rv'].get('adt') in (_R, _O) and last['rv'].get('variant')):
            continue
        D = last['place']['l']
        _specialise_block(b, blk, _absval_of_rv(b, last['rv']), None, D)


def _subst_captures(b, first_block, env_param, caps, by_ref, env_local=None):
    """In the blocks of an inlined closure body, a read of capture i through the environment parameter
    (`(*_env).i` / `_env.i`) is the captured local itself."""
    def fix_place(pl):
        if env_local is not None and pl['l'] == env_local and pl['p'] and pl['p'][0]['k'] == 'field':
            # `(*env_param)` was already replaced by the closure value itself (borrowed-place parameters)
            p = pl['p']
            if p[0]['i'] < len(caps) and caps[p[0]['i']] is not None:
                pl['l'] = caps[p[0]['i']]
                pl['p'] = p[1:]
            return
        if pl['l'] != env_param:
            return
        p = pl['p']
        k = 0
        if by_ref:
            if not p or p[0]['k'] != 'deref':
                return
            k = 1
        if len(p) > k and p[k]['k'] == 'field' and p[k]['i'] < len(caps) and caps[p[k]['i']] is not None:
            pl['l'] = caps[p[k]['i']]
            pl['p'] = p[k + 1:]
    def visit(o):
        if isinstance(o, dict):
            if 'l' in o and 'p' in o and isinstance(o['p'], list):
                fix_place(o)
            for v in o.values():
                visit(v)
        elif isinstance(o, list):
            for x in o:
                visit(x)
    for blk in b['blocks'][first_block:]:
        visit(blk['stmts'])
        visit(blk['term'])


def desugar_iter_adaptors(j, by_id):
    """`iter.for_each(f)`, `iter.try_for_each(f)`, `iter.try_fold(init, f)` with a closure built in place are
    written out as the loop they are (next(); match; call f), and the closure body is put in place of the call."""
    import re as _re
    count = 0
    name_to_body = {}
    for x in j.get('instances', []):
        name_to_body.setdefault(strip_crate(x['name']), x)
    for b in _closures_first(j.get('instances', [])):
        bi = -1
        while bi + 1 < len(b['blocks']):
            bi += 1
            blk = b['blocks'][bi]
            t = blk['term']
            if blk.get('cleanup') or t['k'] != 'call' or t.get('target') is None or t.get('dest') is None or t['dest']['p']:
                continue
            nm = strip_crate(t['callee'].get('name', ''))
            m = _re.match(r'^<(.+) as std::iter::Iterator>::(try_for_each|for_each|try_fold|any|all)::<', nm)
            if not m:
                continue
            ity, kind = m.group(1), m.group(2)
            if kind in ('any', 'all') and re.match(r'^(&mut )?(std|core|alloc)::', ity):
                continue        # std iterators keep their `any` / `all` call (rules read those directly); only the crate's own iterators are written out
            args = t['args']
            if (kind == 'try_fold' and len(args) != 3) or (kind != 'try_fold' and len(args) != 2):
                continue
            it_op, f_op = args[0], args[-1]
            if it_op.get('k') not in ('move', 'copy') or it_op['place']['p'] or f_op.get('k') not in ('move', 'copy') or f_op['place']['p']:
                continue
            cl = f_op['place']['l']
            fnj = None
            caps = None
            for s_ in blk['stmts']:
                if s_.get('k') == 'assign' and s_['place']['l'] == cl and not s_['place']['p'] and s_['rv'].get('k') == 'agg' and s_['rv'].get('agg') == 'closure':
                    fnj = s_['rv']['fn']
                    caps = [(o['place']['l'] if o.get('k') in ('move', 'copy') and not o['place']['p'] else None) for o in s_['rv'].get('ops', [])]
            cb = by_id.get(fnj.get('node')) if fnj else None
            if cb is None or cb is b:
                continue
            want_args = 3 if kind == 'try_fold' else 2
            if cb['arg_count'] != want_args:
                continue
            dest, target = t['dest'], t['target']
            dty = strip_crate(b['locals'][dest['l']]['ty'])
            da = _result_args(dty)
            if kind in ('try_for_each', 'try_fold') and da is None:
                continue
            if kind in ('any', 'all') and dty != 'bool':
                continue
            span, exp = t['span'], t.get('exp')
            locs = b['locals']
            def new_local(ty, adt=None):
                locs.append({'ty': ty, 'adt': adt})
                return len(locs) - 1
            def asg(pl, rv):
                return {'k': 'assign', 'place': pl, 'rv': rv, 'span': span, 'exp': exp, 'dsg': True}
            def goto(tb):
                return {'k': 'goto', 'target': tb, 'span': span, 'exp': exp}
            def mv(l):
                return {'k': 'move', 'place': {'l': l, 'p': []}}
            item_ty = strip_crate(cb['locals'][cb['arg_count']]['ty'])
            it = it_op['place']['l']
            it_ty = strip_crate(locs[it]['ty'])
            pre = []
            if it_ty.startswith('&mut '):
                ir = it
            else:
                ir = new_local('&mut ' + it_ty)
                pre.append(asg({'l': ir, 'p': []}, {'k': 'ref', 'mut': 'mut', 'place': {'l': it, 'p': []}}))
            acc = None
            if kind == 'try_fold':
                acc = new_local(strip_crate(cb['locals'][2]['ty']))
                pre.append(asg({'l': acc, 'p': []}, {'k': 'use', 'op': copy.deepcopy(args[1])}))
            n = new_local('std::option::Option<%s>' % item_ty, 'std::option::Option')
            d1 = new_local('isize')
            x = new_local(item_ty)
            rb = new_local('&mut ' + ity)
            env_ty = strip_crate(cb['locals'][1]['ty'])
            by_ref = env_ty.startswith('&')
            rf = new_local(env_ty) if by_ref else cl
            cr = new_local(strip_crate(cb['locals'][0]['ty']))
            nxt = name_to_body.get('<%s as std::iter::Iterator>::next' % ity)
            next_callee = {'orig': 'std::iter::Iterator::next', 'orig_name': '<%s as std::iter::Iterator>::next' % ity, 'trait_method': True, 'as_value': False, 'self_ty': ity,
                           'kind': 'item', 'path': strip_crate(nxt['path']) if nxt else '<I as std::iter::Iterator>::next', 'name': '<%s as std::iter::Iterator>::next' % ity,
                           'local': nxt is not None, 'unresolved': False}
            if nxt is not None:
                next_callee['node'] = nxt['id']
            nb = len(b['blocks'])
            L, L2, Body, L3, Cont, Fail, Done = nb, nb + 1, nb + 2, nb + 3, nb + 4, nb + 5, nb + 6
            some0 = {'l': n, 'p': [{'k': 'downcast', 'variant': 'Some', 'idx': 1, 'adt': 'std::option::Option'}, {'k': 'field', 'i': 0, 'name': '0', 'adt': 'std::option::Option', 'variant': 'Some'}]}
            def res_proj(l, var, idx):
                return {'l': l, 'p': [{'k': 'downcast', 'variant': var, 'idx': idx, 'adt': 'std::result::Result'}, {'k': 'field', 'i': 0, 'name': '0', 'adt': 'std::result::Result', 'variant': var}]}
            def res_agg(var, idx, ops):
                return {'k': 'agg', 'agg': 'adt', 'adt': 'std::result::Result', 'variant': var, 'variant_idx': idx, 'is_enum': True, 'fields': ['0'], 'ops': ops}
            callee = dict(fnj)
            callee['as_value'] = False
            body_stmts = [asg({'l': x, 'p': []}, {'k': 'use', 'op': {'k': 'move', 'place': some0}})]
            if by_ref:
                body_stmts.append(asg({'l': rf, 'p': []}, {'k': 'ref', 'mut': 'mut' if env_ty.startswith('&mut') else 'shared', 'place': {'l': cl, 'p': []}}))
            cargs = [mv(rf)] + ([mv(acc)] if kind == 'try_fold' else []) + [mv(x)]
            blocks = [
                {'cleanup': False, 'stmts': [asg({'l': rb, 'p': []}, {'k': 'ref', 'mut': 'mut', 'place': {'l': ir, 'p': [{'k': 'deref'}]}})],
                 'term': {'k': 'call', 'callee': next_callee, 'args': [mv(rb)], 'dest': {'l': n, 'p': []}, 'target': L2, 'unwind': None, 'span': span, 'exp': exp, 'fn_span': span, 'fn_exp': exp}},
                {'cleanup': False, 'stmts': [asg({'l': d1, 'p': []}, {'k': 'discr', 'place': {'l': n, 'p': []}, 'adt': 'std::option::Option', 'ty': 'isize'})],
                 'term': {'k': 'switch', 'discr': mv(d1), 'targets': [[0, Done], [1, Body]], 'otherwise': Body, 'span': span, 'exp': exp, 'dsg': kind}},
                {'cleanup': False, 'stmts': body_stmts,
                 'term': {'k': 'call', 'callee': callee, 'args': cargs, 'dest': {'l': cr, 'p': []}, 'target': (L if kind == 'for_each' else L3), 'unwind': None, 'span': span, 'exp': exp, 'fn_span': span, 'fn_exp': exp}},
            ]
            if kind in ('any', 'all'):
                # `it.any(p)`: loop { match it.next() { None => break false, Some(x) => if p(x) { break true } } }  (all: dual)
                def cb_(v):
                    return {'k': 'const', 'ty': 'bool', 'bits': '1' if v else '0', 'size': 1, 'text': 'true' if v else 'false'}
                hit_val = (kind == 'any')
                blocks.append({'cleanup': False, 'stmts': [], 'term': {'k': 'switch', 'discr': mv(cr), 'targets': [['0', (L if kind == 'any' else Fail)]], 'otherwise': (Fail if kind == 'any' else L), 'span': span, 'exp': exp, 'dsg': kind}})   # L3
                blocks.append({'cleanup': False, 'stmts': [], 'term': goto(L)})          # Cont unused
                blocks.append({'cleanup': False, 'stmts': [asg(copy.deepcopy(dest), {'k': 'use', 'op': cb_(hit_val)})], 'term': goto(target)})        # Fail = the deciding item
                blocks.append({'cleanup': False, 'stmts': [asg(copy.deepcopy(dest), {'k': 'use', 'op': cb_(not hit_val)})], 'term': goto(target)})    # Done = exhausted
            elif kind == 'for_each':
                blocks.append({'cleanup': False, 'stmts': [], 'term': goto(L)})          # L3 unused
                blocks.append({'cleanup': False, 'stmts': [], 'term': goto(L)})          # Cont unused
                blocks.append({'cleanup': False, 'stmts': [], 'term': goto(L)})          # Fail unused
                blocks.append({'cleanup': False, 'stmts': [asg(copy.deepcopy(dest), {'k': 'agg', 'agg': 'tuple', 'ops': []})], 'term': goto(target)})
            else:
                d2 = new_local('isize')
                e = new_local(da[1])
                blocks.append({'cleanup': False, 'stmts': [asg({'l': d2, 'p': []}, {'k': 'discr', 'place': {'l': cr, 'p': []}, 'adt': 'std::result::Result', 'ty': 'isize'})],
                               'term': {'k': 'switch', 'discr': mv(d2), 'targets': [[0, Cont], [1, Fail]], 'otherwise': Fail, 'span': span, 'exp': exp, 'dsg': kind}})
                cont_stmts = [asg({'l': acc, 'p': []}, {'k': 'use', 'op': {'k': 'move', 'place': res_proj(cr, 'Ok', 0)}})] if kind == 'try_fold' else []
                blocks.append({'cleanup': False, 'stmts': cont_stmts, 'term': goto(L)})
                blocks.append({'cleanup': False, 'stmts': [asg({'l': e, 'p': []}, {'k': 'use', 'op': {'k': 'move', 'place': res_proj(cr, 'Err', 1)}}), asg(copy.deepcopy(dest), res_agg('Err', 1, [mv(e)]))], 'term': goto(target)})
                if kind == 'try_fold':
                    done_stmts = [asg(copy.deepcopy(dest), res_agg('Ok', 0, [mv(acc)]))]
                else:
                    u = new_local('()')
                    done_stmts = [asg({'l': u, 'p': []}, {'k': 'agg', 'agg': 'tuple', 'ops': []}), asg(copy.deepcopy(dest), res_agg('Ok', 0, [mv(u)]))]
                blocks.append({'cleanup': False, 'stmts': done_stmts, 'term': goto(target)})
            blk['stmts'].extend(pre)
            blk['term'] = goto(L)
            b['blocks'].extend(blocks)
            count += 1
            if kind in ('any', 'all'):
                _specialise_block(b, b['blocks'][Fail], ('bool', kind == 'any'), None, dest['l'])
                _specialise_block(b, b['blocks'][Done], ('bool', kind != 'any'), None, dest['l'])
            elif kind != 'for_each':
                for idx in (Fail, Done):
                    nbk = b['blocks'][idx]
                    last = nbk['stmts'][-1]
                    _specialise_block(b, nbk, _absval_of_rv(b, last['rv']), None, dest['l'])
            # the closure body in place of the call, captures resolved to the captured locals
            off_l = len(b['locals'])
            first_new = len(b['blocks'])
            inline_call(b, Body, cb)
            _subst_captures(b, first_new, off_l + 1, caps or [], by_ref, env_local=cl)
            _forget_closure_value(blk, cl)
            j.setdefault('_closures_inlined', []).append(cb['id'])
    return count


def _forget_closure_value(blk, cl):
    """the closure aggregate no longer stands for a function someone may call: its body was put in place"""
    for s_ in blk['stmts']:
        if s_.get('k') == 'assign' and s_['place']['l'] == cl and not s_['place']['p'] and s_['rv'].get('k') == 'agg' and s_['rv'].get('agg') == 'closure':
            fn = dict(s_['rv']['fn'])
            fn['inlined_node'] = fn.pop('node', None)
            s_['rv'] = dict(s_['rv'], fn=fn)


def drop_inlined_closures(j):
    ids = set(j.pop('_closures_inlined', []) or [])
    if not ids:
        return
    inst = j['instances']
    by_id = {b['id']: b for b in inst}
    def look(cal):
        n = cal.get('node')
        return by_id.get(n) if n is not None else None
    refs = _referenced(inst, look)
    for b in list(inst):
        if b['id'] in ids and id(b) not in refs:
            inst.remove(b)


def alias_consts(j):
    """A named integer constant that did not exist in the confirmed tree and has the value of exactly one constant
    that did (`const FILE_LEN: u64 = FILE_NUM_BYTES as u64`, a module-level copy of a function-local HEADER_LEN)
    is read as that constant: rules name the constants of the confirmed tree."""
    if j.get('crate') != 'mrecordlog' or not os.path.exists(KNOWN_PATH):
        return {}
    kc = json.load(open(KNOWN_PATH)).get('consts', {})
    if isinstance(kc, list):
        kc = {k: None for k in kc}
    if not kc:
        return {}
    def norm(pth):
        return re.sub(r"'\w+", "'_", strip_crate(pth))
    kcn = {norm(k): (k, v) for k, v in kc.items()}
    cur = {}
    for c in j.get('consts', []):
        if c.get('value') is not None:
            cur.setdefault(norm(c['path']), str(c['value']))
    # value -> known constants (those still present count with their current value, those that disappeared -- a
    # function-local const turned into an associated const -- with the value they had on the confirmed tree)
    by_val = {}
    for nk, (k, v) in kcn.items():
        val = cur.get(nk, v)
        if val is not None:
            by_val.setdefault(str(val), []).append(k)
    alias = {}
    for pth, v in cur.items():
        if pth in kcn or '__CALLSITE' in pth:
            continue
        cands = by_val.get(str(v), [])
        # several known constants of that value: prefer the one that no longer exists (it was most likely replaced)
        gone = [k for k in cands if norm(k) not in cur]
        if len(cands) == 1:
            alias[pth] = cands[0]
        elif len(gone) == 1:
            alias[pth] = gone[0]
    if not alias:
        return {}
    def visit(o):
        if isinstance(o, dict):
            if o.get('k') == 'const' and o.get('named') and norm(o['named']) in alias:
                o['alias_of'] = o['named']
                o['named'] = alias[norm(o['named'])]
            for v in o.values():
                visit(v)
        elif isinstance(o, list):
            for x in o:
                visit(x)
    for b in j.get('instances', []) + j.get('poly', []):
        visit(b['blocks'])
    return alias


def expand_adt_consts(j):
    """A-CONST. A struct / enum / tuple valued named constant used as an operand (`return Ok(NOOP_OUTCOME)`) is
    written out as the aggregate it denotes (the driver lists its field values), so that rules reading the fields of
    an outcome see `wal_bytes_written: 0` whether it is spelt in place or through a constant. Returns the count."""
    n = [0]
    local_adts = {strip_crate(a['path']) for a in j.get('adts', [])}
    def wanted(o):
        # constants of the crate's own types only (tracing's callsite metadata, std's Level constants etc. stay opaque)
        return isinstance(o, dict) and o.get('k') == 'const' and o.get('destructured') and strip_crate(o['destructured'].get('adt') or '') in local_adts
    for b in j.get('instances', []) + j.get('poly', []):
        for blk in b['blocks']:
            out = []
            def build(dj, span):
                l = len(b['locals'])
                b['locals'].append({'ty': dj.get('ty'), 'adt': dj.get('adt')})
                out.append({'k': 'assign', 'place': {'l': l, 'p': []}, 'rv': agg_of(dj, span), 'span': span, 'exp': None, 'inl': 'const'})
                return {'k': 'move', 'place': {'l': l, 'p': []}}
            def agg_of(dj, span):
                ops = []
                for f in dj.get('fields', []):
                    if f.get('destructured'):
                        ops.append(build(f['destructured'], span))
                    else:
                        ops.append({k: v for k, v in f.items() if k != 'destructured'})
                if dj.get('adt'):
                    return {'k': 'agg', 'agg': 'adt', 'adt': dj['adt'], 'variant': dj.get('variant'), 'variant_idx': dj.get('variant_idx', 0),
                            'is_enum': bool(dj.get('is_enum')), 'fields': list(dj.get('names', [])), 'ops': ops, 'from_const': True}
                return {'k': 'agg', 'agg': 'tuple', 'ops': ops, 'from_const': True}
            def fix_op(o, span):
                if wanted(o):
                    n[0] += 1
                    return build(o['destructured'], span)
                return o
            for st in blk['stmts']:
                if st.get('k') == 'assign':
                    rv = st['rv']
                    span = st.get('span')
                    if rv['k'] == 'use' and wanted(rv.get('op')) and not st['place']['p']:
                        n[0] += 1
                        st['rv'] = agg_of(rv['op']['destructured'], span)
                    else:
                        for key in ('op', 'a', 'b'):
                            if isinstance(rv.get(key), dict):
                                rv[key] = fix_op(rv[key], span)
                        if isinstance(rv.get('ops'), list):
                            rv['ops'] = [fix_op(o, span) for o in rv['ops']]
                out.append(st)
            t = blk['term']
            if isinstance(t.get('args'), list):
                t['args'] = [fix_op(o, t.get('span')) for o in t['args']]
            blk['stmts'] = out
    return n[0]


def _walk_places(o, fn, ctx=None):
    """call fn(place_dict, context) for every place dict inside o; context: 'ref' (borrowed), 'discr', 'def' (assigned),
    'drop', 'op' (operand), with the enclosing dict available to the caller through closures"""
    if isinstance(o, dict):
        if 'l' in o and 'p' in o and isinstance(o.get('p'), list):
            fn(o, ctx)
            for e in o['p']:
                if isinstance(e, dict) and e.get('k') == 'index':
                    pass
            return
        k = o.get('k')
        for key, v in o.items():
            c = ctx
            if key == 'place' and k in ('ref', 'rawptr'):
                c = 'ref'
            elif key == 'place' and k == 'discr':
                c = 'discr'
            elif key == 'place' and k in ('copy', 'move'):
                c = 'op'
            elif key == 'place' and k == 'assign':
                c = 'def'
            elif key == 'place' and k == 'drop':
                c = 'drop'
            elif key == 'dest':
                c = 'def'
            _walk_places(v, fn, c)
    elif isinstance(o, list):
        for v in o:
            _walk_places(v, fn, ctx)


def sroa(j, only_paths=None):
    """A-SROA (scalar replacement of aggregates) + reference forwarding, on bodies that received inlined code.
    `let a = Assembly { buf: &mut self.buf, flag: &mut self.flag }; a.push(..)` with `push` inlined leaves
    `*(a.flag) = true`: the store happens through a reference kept in a field of a local struct, and no rule keyed
    on `Reader.flag` can see it. (1) A local struct / tuple that is built once by an aggregate, handed on by whole
    moves only, and otherwise touched field by field is replaced by one local per field (loop state kept in a
    `Splitter { remaining, is_first }` becomes two plain loop variables again). (2) A reference local with a single
    definition chain ending in `&[mut] P`, P a field path under a dereferenced parameter, is replaced by P wherever it
    is dereferenced (`*(r) = v` becomes `self.flag = v`) -- the same substitution A-INLINE does for borrowed arguments.
    Returns the number of aggregates replaced and references forwarded."""
    n_sroa = n_fwd = 0
    adt_fields = {}
    for a in j.get('adts', []):
        if len(a.get('variants', [])) == 1:
            adt_fields[strip_crate(a['path'])] = [f.get('ty') for f in a['variants'][0]['fields']]
    for b in j.get('instances', []) + j.get('poly', []):
        blocks = b['blocks']
        if not any(st.get('inl') for blk in blocks for st in blk['stmts']) and not any(blk['term'].get('inl') for blk in blocks):
            continue
        live = [blk for blk in blocks if not blk.get('cleanup')]
        argc = b.get('arg_count', 0)
        for _round in range(6):
            # ---- defs / uses
            ndef = {}
            whole_uses = {}      # local -> list of (kind, stmt or term, blk)
            field_uses = {}
            def note(pl, ctx_, holder, blk):
                l = pl['l']
                if ctx_ == 'def' and not pl['p']:
                    ndef[l] = ndef.get(l, 0) + 1
                    return
                if not pl['p']:
                    whole_uses.setdefault(l, []).append((ctx_, holder, blk))
                elif pl['p'][0].get('k') == 'field':
                    field_uses.setdefault(l, []).append((ctx_, holder, blk))
                else:
                    whole_uses.setdefault(l, []).append(('proj:' + str(pl['p'][0].get('k')), holder, blk))
                for e in pl['p']:
                    if e.get('k') == 'index':
                        whole_uses.setdefault(e['local'], []).append(('index', holder, blk))
            for blk in live:
                for st in blk['stmts']:
                    if st.get('k') == 'assign':
                        note(st['place'], 'def', st, blk)
                        _walk_places(st['rv'], lambda pl, c, st=st, blk=blk: note(pl, c or 'op', st, blk), None)
                t = blk['term']
                if t.get('k') == 'call' and t.get('dest') is not None:
                    note(t['dest'], 'def', t, blk)
                if t.get('k') == 'drop' and isinstance(t.get('place'), dict):
                    note(t['place'], 'drop', t, blk)
                _walk_places({k: v for k, v in t.items() if k in ('args', 'discr', 'cond')}, lambda pl, c, t=t, blk=blk: note(pl, c or 'op', t, blk), None)
            # ---- dead reference temporaries (`_r = &mut x; _p = move _r` with _p never read)
            def is_dead(l, seen=()):
                if l == 0 or l <= argc or l in seen:
                    return False
                if field_uses.get(l):
                    return False
                for (c, holder, blk) in whole_uses.get(l, []):
                    if c == 'drop':
                        continue
                    if holder.get('k') == 'assign' and not holder['place']['p'] and holder['rv']['k'] in ('use', 'cast', 'ref') and is_dead(holder['place']['l'], seen + (l,)):
                        continue
                    return False
                return True
            changed = False
            for blk in live:
                for si, st in enumerate(list(blk['stmts'])):
                    if st.get('k') != 'assign' or st['place']['p'] or st['rv'].get('k') != 'agg':
                        continue
                    rv = st['rv']
                    if not ((rv.get('agg') == 'adt' and not rv.get('is_enum')) or rv.get('agg') == 'tuple') or not rv.get('ops'):
                        continue
                    x = st['place']['l']
                    if x == 0 or x <= argc or ndef.get(x, 0) != 1:
                        continue
                    # chain of whole moves
                    chain = [x]
                    moves = []
                    ok = True
                    cur = x
                    while ok:
                        nxt = None
                        for (c, holder, hb) in whole_uses.get(cur, []):
                            if c == 'drop':
                                continue
                            if c == 'ref' and holder.get('k') == 'assign' and is_dead(holder['place']['l']):
                                continue
                            if c == 'op' and holder.get('k') == 'assign' and not holder['place']['p'] and holder['rv']['k'] == 'use' and holder['rv']['op'].get('place') and not holder['rv']['op']['place']['p'] \
                                    and holder['rv']['op']['place']['l'] == cur and ndef.get(holder['place']['l'], 0) == 1 and holder['place']['l'] > argc and nxt is None:
                                nxt = (holder['place']['l'], holder, hb)
                                continue
                            ok = False
                        if not ok or nxt is None:
                            break
                        chain.append(nxt[0])
                        moves.append((nxt[1], nxt[2]))
                        cur = nxt[0]
                    if not ok:
                        continue
                    if not any(field_uses.get(c_) for c_ in chain):
                        continue
                    # field types
                    tys = []
                    decl = adt_fields.get(strip_crate(rv.get('adt') or '')) if rv.get('agg') == 'adt' else None
                    for i, o in enumerate(rv['ops']):
                        if o.get('k') in ('copy', 'move') and not o['place']['p']:
                            tys.append(copy.deepcopy(b['locals'][o['place']['l']]))
                        elif o.get('k') == 'const':
                            tys.append({'ty': o.get('ty'), 'adt': None})
                        elif decl and i < len(decl):
                            tys.append({'ty': decl[i], 'adt': None})
                        else:
                            tys = None
                            break
                    if tys is None:
                        continue
                    base = len(b['locals'])
                    b['locals'].extend(tys)
                    new_stmts = [{'k': 'assign', 'place': {'l': base + i, 'p': []}, 'rv': {'k': 'use', 'op': o}, 'span': st.get('span'), 'exp': st.get('exp'), 'inl': 'sroa'} for i, o in enumerate(rv['ops'])]
                    idx = blk['stmts'].index(st)
                    blk['stmts'][idx:idx + 1] = new_stmts
                    for (mv, hb) in moves:
                        if mv in hb['stmts']:
                            hb['stmts'].remove(mv)
                    cs_ = set(chain)
                    def fix(pl, c):
                        if pl['l'] in cs_ and pl['p'] and pl['p'][0].get('k') == 'field':
                            i = pl['p'][0]['i']
                            pl['l'] = base + i
                            pl['p'] = pl['p'][1:]
                    for blk2 in blocks:
                        for st2 in blk2['stmts']:
                            if st2.get('k') == 'assign':
                                fix(st2['place'], 'def') if st2['place']['p'] else None
                                _walk_places(st2['rv'], fix, None)
                        t2 = blk2['term']
                        if t2.get('k') == 'call' and t2.get('dest') is not None and t2['dest']['p']:
                            fix(t2['dest'], 'def')
                        _walk_places({k: v for k, v in t2.items() if k in ('args', 'discr', 'cond')}, fix, None)
                    n_sroa += 1
                    changed = True
                    break
                if changed:
                    break
            if not changed:
                break
        # ---- (2) reference forwarding
        cand = set()
        def see(pl, c):
            if pl['p'] and pl['p'][0].get('k') == 'deref' and pl['l'] > argc and strip_crate(b['locals'][pl['l']].get('ty') or '').startswith(('&', '*')):
                cand.add(pl['l'])
        for blk in live:
            for st in blk['stmts']:
                if st.get('k') == 'assign':
                    see(st['place'], 'def')
                    _walk_places(st['rv'], see, None)
            t = blk['term']
            if t.get('k') == 'call' and t.get('dest') is not None:
                see(t['dest'], 'def')
            _walk_places({k: v for k, v in t.items() if k in ('args', 'discr', 'cond')}, see, None)
        subst = {}
        for r in cand:
            pl = _borrowed_place(b, r)
            if pl is None or not pl['p'] or pl['p'][0].get('k') != 'deref' or not (1 <= pl['l'] <= argc):
                continue
            if any(st.get('k') == 'assign' and st['place']['l'] == pl['l'] and not st['place']['p'] for blk in live for st in blk['stmts']):
                continue      # the parameter itself is re-assigned: `*param` is not one place
            if any(e.get('k') not in ('deref', 'field') for e in pl['p']) or sum(1 for e in pl['p'] if e.get('k') == 'deref') != 1:
                continue
            subst[r] = pl
        if subst:
            def fwd(pl, c):
                if pl['l'] in subst and pl['p'] and pl['p'][0].get('k') == 'deref':
                    base_ = subst[pl['l']]
                    pl['l'] = base_['l']
                    pl['p'] = copy.deepcopy(base_['p']) + pl['p'][1:]
            for blk in blocks:
                for st in blk['stmts']:
                    if st.get('k') == 'assign':
                        fwd(st['place'], 'def')
                        _walk_places(st['rv'], fwd, None)
                t = blk['term']
                if t.get('k') == 'call' and t.get('dest') is not None:
                    fwd(t['dest'], 'def')
                _walk_places({k: v for k, v in t.items() if k in ('args', 'discr', 'cond')}, fwd, None)
            n_fwd += len(subst)
    return {'aggregates_replaced': n_sroa, 'references_forwarded': n_fwd}


def forward_aggregate_reads(j):
    """A-FWD. `let (h, rest) = parse(buf)?` with `parse` inlined reads `((r as Some).0).0` out of aggregates built a few
    statements earlier (`h = Header{..}; t = (h, rest); r = Some(t)`). Def-use that is not field-sensitive through
    nested aggregates conflates `h` and `rest`. Where the value read is determined -- every definition of the base is
    an aggregate (followed through whole moves), exactly one of them has the variant being read, and the operand
    stored there is a constant or a single-definition local -- the read is replaced by that operand. Returns the
    number of reads forwarded."""
    n = 0
    for b in j.get('instances', []) + j.get('poly', []):
        blocks = b['blocks']
        live = [blk for blk in blocks if not blk.get('cleanup')]
        argc = b.get('arg_count', 0)
        for _round in range(4):
            defs = {}
            for blk in live:
                for st in blk['stmts']:
                    if st.get('k') == 'assign':
                        defs.setdefault(st['place']['l'], []).append(('assign', st))
                t = blk['term']
                if t.get('k') == 'call' and t.get('dest') is not None:
                    defs.setdefault(t['dest']['l'], []).append(('call', t))
            def agg_defs(l, depth=0):
                ds = defs.get(l, [])
                if not ds or depth > 6 or l <= argc:
                    return None
                out = []
                for (k, d) in ds:
                    if k == 'call':
                        if (d.get('callee') or {}).get('name', '').endswith('::from_residual'):
                            out.append({'k': 'agg', 'variant': 'Err', 'opaque': True, 'ops': []})
                            continue
                        return None
                    if d['place']['p']:
                        return None
                    rv = d['rv']
                    if rv['k'] == 'agg':
                        out.append(rv)
                    elif rv['k'] == 'use' and rv['op'].get('k') in ('copy', 'move') and not rv['op']['place']['p']:
                        sub = agg_defs(rv['op']['place']['l'], depth + 1)
                        if sub is None:
                            return None
                        out.extend(sub)
                    else:
                        return None
                return out
            mut_borrowed = set()
            for blk in live:
                for st in blk['stmts']:
                    if st.get('k') == 'assign' and st['rv'].get('k') in ('ref', 'rawptr') and st['rv'].get('mut') not in ('shared', 'fake', 'Const'):
                        mut_borrowed.add(st['rv']['place']['l'])
            def single_def(l):
                # ... and never mutably borrowed: a store through `&mut l` is a definition this count does not see
                return l > argc and len(defs.get(l, [])) == 1 and l not in mut_borrowed
            def resolve(pl, depth=0):
                """operand equal to a read of place pl, or None"""
                proj = pl['p']
                if not proj or depth > 6 or any(e.get('k') not in ('field', 'downcast') for e in proj):
                    return None
                var = None
                k = 0
                if proj[0]['k'] == 'downcast':
                    var = proj[0].get('variant')
                    k = 1
                if len(proj) <= k or proj[k]['k'] != 'field':
                    return None
                idx = proj[k]['i']
                rest = proj[k + 1:]
                aggs = agg_defs(pl['l'])
                if not aggs:
                    return None
                uniq = []
                for a in aggs:
                    if not any(a is u for u in uniq):
                        uniq.append(a)
                aggs = uniq
                cands = [a for a in aggs if var is None or a.get('variant') == var]
                if len(cands) != 1 or cands[0].get('opaque') or (var is None and len(aggs) != 1):
                    return None
                if var is None and cands[0].get('is_enum'):
                    return None
                ops = cands[0].get('ops') or []
                if idx >= len(ops):
                    return None
                o = ops[idx]
                if o.get('k') == 'const':
                    return copy.deepcopy(o) if not rest else None
                if o.get('k') not in ('copy', 'move'):
                    return None
                q = o['place']
                if any(e.get('k') in ('deref', 'index') for e in q['p']):
                    return None
                np_ = {'l': q['l'], 'p': copy.deepcopy(q['p']) + copy.deepcopy(rest)}
                if np_['p']:
                    deeper = resolve(np_, depth + 1)
                    if deeper is not None:
                        return deeper
                # the operand itself: only when it cannot have changed since the aggregate was built
                if not single_def(q['l']) and not (q['l'] <= argc and not defs.get(q['l'])):
                    return None
                return {'k': 'copy', 'place': np_}
            changed = 0
            for blk in live:
                for st in blk['stmts']:
                    if st.get('k') != 'assign' or st['rv'].get('k') != 'use':
                        continue
                    o = st['rv']['op']
                    if o.get('k') not in ('copy', 'move') or not o['place']['p']:
                        continue
                    r = resolve(o['place'])
                    if r is not None:
                        if r.get('k') == 'copy' and o.get('k') == 'move':
                            r['k'] = 'move'
                        st['rv']['op'] = r
                        st['fwd'] = True
                        changed += 1
            n += changed
            if not changed:
                break
    return n


def desugar_bool_then_some(j):
    """`cond.then_some(v)` written out as `if cond { Some(v) } else { None }` (the argument is evaluated before the test
    either way; what matters to the rules is under which edge the Some is built). Returns the count."""
    n = 0
    for b in j.get('instances', []) + j.get('poly', []):
        blocks = b['blocks']
        for bi in range(len(blocks)):
            blk = blocks[bi]
            t = blk['term']
            if blk.get('cleanup') or t.get('k') != 'call' or t.get('dest') is None or t.get('target') is None:
                continue
            nm = (t.get('callee') or {}).get('name', '')
            if not nm.startswith('core::bool::<impl bool>::then_some') or len(t.get('args', [])) != 2:
                continue
            cond, val = t['args']
            O = 'std::option::Option'
            some_b = {'cleanup': False, 'stmts': [{'k': 'assign', 'place': copy.deepcopy(t['dest']), 'rv': {'k': 'agg', 'agg': 'adt', 'adt': O, 'variant': 'Some', 'variant_idx': 1, 'is_enum': True, 'fields': ['0'], 'ops': [copy.deepcopy(val)]},
                                                 'span': t.get('span'), 'exp': t.get('exp'), 'inl': 'then_some'}],
                      'term': {'k': 'goto', 'target': t['target'], 'span': t.get('span'), 'exp': t.get('exp')}}
            none_b = {'cleanup': False, 'stmts': [{'k': 'assign', 'place': copy.deepcopy(t['dest']), 'rv': {'k': 'agg', 'agg': 'adt', 'adt': O, 'variant': 'None', 'variant_idx': 0, 'is_enum': True, 'fields': [], 'ops': []},
                                                 'span': t.get('span'), 'exp': t.get('exp'), 'inl': 'then_some'}],
                      'term': {'k': 'goto', 'target': t['target'], 'span': t.get('span'), 'exp': t.get('exp')}}
            blocks.append(some_b)
            si = len(blocks) - 1
            blocks.append(none_b)
            ni = len(blocks) - 1
            blk['term'] = {'k': 'switch', 'discr': copy.deepcopy(cond), 'targets': [['0', ni]], 'otherwise': si, 'span': t.get('span'), 'exp': t.get('exp'), 'inl': 'then_some'}
            n += 1
    return n


def desugar_enum_eq(j):
    """`x == Enum::Variant` (derived PartialEq on a field-less enum of the crate) written out as the test of x's
    discriminant it is: `if discr(x) == k { true } else { false }`, each arm continued with the caller's use of the
    boolean. A two-variant private enum replacing a `bool` result is a standard clean-up; the rules ask under which
    variant something happens, which a call to a derived `eq` does not say. Returns the count."""
    import re as _re
    if j.get('crate') != 'mrecordlog':
        return 0
    enums = {}
    for a in j.get('adts', []):
        if a.get('kind') == 'enum' and a.get('variants') and all(not v.get('fields') for v in a['variants']):
            enums[strip_crate(a['path'])] = {v['name']: int(v['discr']) if v.get('discr') is not None else v['idx'] for v in a['variants']}
    n = 0
    for b in j.get('instances', []) + j.get('poly', []):
        blocks = b['blocks']
        defs = {}
        for blk in blocks:
            if blk.get('cleanup'):
                continue
            for st in blk['stmts']:
                if st.get('k') == 'assign' and not st['place']['p']:
                    defs.setdefault(st['place']['l'], []).append(st['rv'])
        def side(op):
            if op.get('k') not in ('copy', 'move') or op['place']['p']:
                return None
            ds = defs.get(op['place']['l'], [])
            if len(ds) != 1 or ds[0].get('k') != 'ref':
                return None
            P = ds[0]['place']
            if len(P['p']) == 1 and P['p'][0]['k'] == 'deref':
                cd = defs.get(P['l'], [])
                if len(cd) == 1 and cd[0].get('k') == 'use' and cd[0]['op'].get('k') == 'const':
                    for tx in cd[0]['op'].get('promoted_texts') or []:
                        if tx.startswith('variant:'):
                            return ('variant', tx[len('variant:'):].split('::')[-1])
            if not P['p']:
                ad = defs.get(P['l'], [])
                if len(ad) == 1 and ad[0].get('k') == 'agg' and ad[0].get('is_enum') and not ad[0].get('ops'):
                    return ('variant', ad[0].get('variant'))
            return ('place', P)
        for bi in range(len(blocks)):
            blk = blocks[bi]
            t = blk['term']
            if blk.get('cleanup') or t.get('k') != 'call' or t.get('dest') is None or t.get('target') is None or t['dest']['p']:
                continue
            m = _re.match(r'^<(.+) as std::cmp::PartialEq>::(eq|ne)$', strip_crate((t.get('callee') or {}).get('orig_name') or (t.get('callee') or {}).get('name') or ''))
            if not m or m.group(1) not in enums or len(t.get('args', [])) != 2:
                continue
            a0, a1 = side(t['args'][0]), side(t['args'][1])
            if a0 is None or a1 is None or {a0[0], a1[0]} != {'variant', 'place'}:
                continue
            var = a0[1] if a0[0] == 'variant' else a1[1]
            P = a0[1] if a0[0] == 'place' else a1[1]
            if var not in enums[m.group(1)]:
                continue
            k_ = enums[m.group(1)][var]
            eq = m.group(2) == 'eq'
            span, exp = t.get('span'), t.get('exp')
            b['locals'].append({'ty': 'isize', 'adt': None})
            d = len(b['locals']) - 1
            def cbool(v):
                return {'k': 'const', 'ty': 'bool', 'bits': '1' if v else '0', 'size': 1, 'text': 'true' if v else 'false'}
            tb = {'cleanup': False, 'stmts': [{'k': 'assign', 'place': copy.deepcopy(t['dest']), 'rv': {'k': 'use', 'op': cbool(eq)}, 'span': span, 'exp': exp, 'inl': 'enum_eq'}],
                  'term': {'k': 'goto', 'target': t['target'], 'span': span, 'exp': exp}}
            fb = {'cleanup': False, 'stmts': [{'k': 'assign', 'place': copy.deepcopy(t['dest']), 'rv': {'k': 'use', 'op': cbool(not eq)}, 'span': span, 'exp': exp, 'inl': 'enum_eq'}],
                  'term': {'k': 'goto', 'target': t['target'], 'span': span, 'exp': exp}}
            blocks.append(tb)
            ti = len(blocks) - 1
            blocks.append(fb)
            fi = len(blocks) - 1
            blk['stmts'].append({'k': 'assign', 'place': {'l': d, 'p': []}, 'rv': {'k': 'discr', 'place': copy.deepcopy(P), 'adt': m.group(1), 'ty': 'isize'}, 'span': span, 'exp': exp, 'inl': 'enum_eq'})
            blk['term'] = {'k': 'switch', 'discr': {'k': 'move', 'place': {'l': d, 'p': []}}, 'targets': [[k_, ti]], 'otherwise': fi, 'span': span, 'exp': exp, 'inl': 'enum_eq'}
            dl = t['dest']['l']
            _specialise_block(b, tb, ('bool', eq), None, dl)
            _specialise_block(b, fb, ('bool', not eq), None, dl)
            n += 1
    return n


def _reads_local(blk, x):
    """block blk reads local x (whole or projected) in a statement rvalue or its terminator operands"""
    hit = [False]
    def visit(o):
        if isinstance(o, dict):
            if o.get('k') in ('copy', 'move') and isinstance(o.get('place'), dict) and o['place'].get('l') == x:
                hit[0] = True
            if o.get('k') in ('ref', 'rawptr', 'discr') and isinstance(o.get('place'), dict) and o['place'].get('l') == x:
                hit[0] = True
            for v in o.values():
                visit(v)
        elif isinstance(o, list):
            for v in o:
                visit(v)
    for st in blk['stmts']:
        if st.get('k') == 'assign':
            visit(st['rv'])
    t = blk['term']
    visit({k: v for k, v in t.items() if k in ('args', 'discr', 'cond')})
    return hit[0]


def split_tails(j, max_clones=24):
    """A-SPLIT (tail splitting). `let e = match x { A => E1, B => E2(..) }; cleanup; Err(e)`: the arms meet before the
    value they computed is used, so a per-arm question ("does the I/O arm leave with the I/O error?") has no answer in the
    merged graph. Where an enum-valued local has several aggregate definitions and is read in the straight-line tail of
    the function (blocks after the last branch / call: goto, drop and return terminators only), every block of that tail
    with several predecessors is cloned per predecessor, so each arm keeps its own copy of the tail down to `return`.
    No call is ever duplicated (call sites are rule instances), nothing outside such a tail is touched, and a body
    without that pattern is left as it is. Returns the paths of the bodies changed."""
    changed = []
    for b in list(j.get('instances', [])) + list(j.get('poly', [])):
        blocks = b['blocks']
        n0 = len(blocks)
        # tail region: least fixpoint from the return blocks
        T = set()
        grew = True
        while grew:
            grew = False
            for i, blk in enumerate(blocks):
                if i in T or blk.get('cleanup'):
                    continue
                k = blk['term']['k']
                if k == 'return' or (k in ('goto', 'drop') and all(y in T for y in _succs(blk))):
                    T.add(i)
                    grew = True
        if len(T) < 3:
            continue
        # candidates: enum-valued locals with >= 2 whole aggregate definitions (in live blocks)
        defs = {}
        for i, blk in enumerate(blocks):
            if blk.get('cleanup'):
                continue
            for st in blk['stmts']:
                if st.get('k') == 'assign' and not st['place']['p']:
                    rv = st['rv']
                    defs.setdefault(st['place']['l'], []).append((i, rv))
        def sources(x, depth=0, seen=()):
            """enum aggregates that can be the value of local x, through whole moves; None if anything else defines it"""
            if depth > 4 or x in seen:
                return None
            out_ = []
            for (_i, rv) in defs.get(x, []):
                if rv['k'] == 'agg' and rv.get('is_enum'):
                    out_.append((rv.get('variant'), json.dumps(rv.get('ops'), sort_keys=True)))
                elif rv['k'] == 'use' and rv['op'].get('k') in ('copy', 'move') and not rv['op']['place']['p']:
                    sub = sources(rv['op']['place']['l'], depth + 1, seen + (x,))
                    if sub is None:
                        return None
                    out_.extend(sub)
                else:
                    return None
            return out_ if defs.get(x) else None
        cands = []
        for x in defs:
            if x == 0:
                continue
            src = sources(x)
            if src is not None and len(set(src)) >= 2:
                cands.append(x)
        if not cands:
            continue
        def preds_of():
            pr = {}
            for i, blk in enumerate(blocks):
                if blk.get('cleanup'):
                    continue
                for y in set(_succs(blk)):
                    pr.setdefault(y, []).append(i)
            return pr
        def tail_of(m):
            seen, st_ = {m}, [m]
            while st_:
                x = st_.pop()
                for y in _succs(blocks[x]):
                    if y in T and y not in seen:
                        seen.add(y)
                        st_.append(y)
            return seen
        pr = preds_of()
        # merge blocks of the tail below which a candidate is read, the definitions being above (not in the tail below)
        region = set()
        for m in sorted(T):
            if len(pr.get(m, [])) < 2:
                continue
            tl = tail_of(m)
            for x in cands:
                if any(_reads_local(blocks[q], x) for q in tl) and not any(di in tl for (di, _rv) in defs[x]):
                    region |= tl
        if not region:
            continue
        # the straight-line blocks above those merges belong to the same per-arm tails (the definitions live there)
        grew = True
        while grew:
            grew = False
            for i in sorted(T):
                if i not in region and any(y in region for y in _succs(blocks[i])):
                    region.add(i)
                    grew = True
        clones = 0
        ok = True
        snapshot = copy.deepcopy(blocks)
        while ok:
            pr = preds_of()
            todo = [q for q in sorted(region) if len(pr.get(q, [])) >= 2]
            if not todo:
                break
            q = todo[0]
            for pidx in pr[q][1:]:
                if clones >= max_clones:
                    ok = False
                    break
                nb = copy.deepcopy(blocks[q])
                nb['split_of'] = q
                blocks.append(nb)
                ni = len(blocks) - 1
                T.add(ni)
                region.add(ni)
                _retarget(blocks[pidx], q, ni)
                clones += 1
        if not ok:
            # too large (chains of diamonds): leave this body as it was
            b['blocks'] = snapshot
            continue
        if clones:
            _rename_tail_defs(b, region)
            changed.append(strip_crate(b['path']))
    return sorted(set(changed))


def _rename_place_local(o, x, x2):
    if isinstance(o, dict):
        if 'l' in o and 'p' in o and isinstance(o.get('p'), list):
            if o['l'] == x:
                o['l'] = x2
        if o.get('k') == 'index' and o.get('local') == x:
            o['local'] = x2
        for v in o.values():
            _rename_place_local(v, x, x2)
    elif isinstance(o, list):
        for v in o:
            _rename_place_local(v, x, x2)


def _rename_tail_defs(b, region):
    """After tail splitting the region is a forest (every block has one predecessor, roots excepted). A temporary that is
    assigned in several of its blocks (`_29 = Ok(false)` here, `_29 = Err(e)` there, then `_0 = move _29` in each copy of
    the join) gets a fresh name per definition, valid from the definition down its subtree: flow-insensitive def-use then
    sees one definition per use."""
    blocks = b['blocks']
    preds = {}
    for i, blk in enumerate(blocks):
        if blk.get('cleanup'):
            continue
        for y in set(_succs(blk)):
            preds.setdefault(y, []).append(i)
    ndefs = {}
    uses_outside = set()
    for i, blk in enumerate(blocks):
        if blk.get('cleanup'):
            continue
        for st in blk['stmts']:
            if st.get('k') == 'assign' and not st['place']['p']:
                ndefs[st['place']['l']] = ndefs.get(st['place']['l'], 0) + 1
        t = blk['term']
        if t['k'] == 'call' and t.get('dest') is not None and not t['dest']['p']:
            ndefs[t['dest']['l']] = ndefs.get(t['dest']['l'], 0) + 1
    def subtree(q):
        seen, st_ = [q], [q]
        while st_:
            x = st_.pop()
            for y in _succs(blocks[x]):
                if y in region and y not in seen and len(preds.get(y, [])) == 1:
                    seen.append(y)
                    st_.append(y)
        return seen
    outside_reads = {}
    for q in sorted(region):
        blk = blocks[q]
        si = 0
        while si < len(blk['stmts']):
            st = blk['stmts'][si]
            si += 1
            if st.get('k') != 'assign' or st['place']['p']:
                continue
            x = st['place']['l']
            if x == 0 or x <= b.get('arg_count', 0) or ndefs.get(x, 0) < 2:
                continue
            sub = subtree(q)
            # every other block that mentions x must be outside the scope only through ANOTHER definition first; keep it
            # simple: x must not be read anywhere outside the region at all
            if x not in outside_reads:
                outside_reads[x] = any(_reads_local(blocks[i], x) for i in range(len(blocks)) if i not in region and not blocks[i].get('cleanup'))
            if outside_reads[x]:
                continue
            x2 = len(b['locals'])
            b['locals'].append(copy.deepcopy(b['locals'][x]))
            st['place']['l'] = x2
            # the rest of this block, up to the next whole definition of x
            stop = False
            for st2 in blk['stmts'][si:]:
                if st2.get('k') == 'assign':
                    _rename_place_local(st2['rv'], x, x2)
                    if st2['place']['l'] == x and not st2['place']['p']:
                        stop = True
                        break
                    _rename_place_local(st2['place'], x, x2)
            if stop:
                continue
            _rename_place_local(blk['term'], x, x2)
            for y in sub[1:]:
                redefined = False
                for st2 in blocks[y]['stmts']:
                    if st2.get('k') == 'assign':
                        _rename_place_local(st2['rv'], x, x2)
                        if st2['place']['l'] == x and not st2['place']['p']:
                            redefined = True
                            break
                        _rename_place_local(st2['place'], x, x2)
                if redefined:
                    # conservative: a redefinition below ends the scope on that path only; deeper blocks keep x (they see
                    # the later definition, which gets its own fresh name when its block is processed)
                    continue
                _rename_place_local(blocks[y]['term'], x, x2)


def split_webs(j, only_inlined=True):
    """A-WEB (web splitting). After inlining, one caller local often carries the result of a helper that returned at
    several places (`_r = Ok(None)` here, `_r = Ok(parse(..))` there), and return specialisation has already sent each
    of those definitions down its own copy of the continuation. The local still has several definitions, so any
    question asked of "the" definition of the value read at a use has no answer. Where every read of such a local is
    reached by the definitions of exactly one group, and the groups do not overlap, each group gets a local of its own
    (classic web / live-range splitting; nothing is moved, duplicated or deleted). Only whole-local assignments of
    locals that are never borrowed, never assigned through a projection and are not parameters / the return slot.
    Returns the number of locals split."""
    n_split = 0
    for b in list(j.get('instances', [])) + list(j.get('poly', [])):
        blocks = b['blocks']
        if only_inlined and not any(st.get('inl') for blk in blocks for st in blk['stmts']) and not any(blk['term'].get('inl') for blk in blocks):
            continue
        nb = len(blocks)
        live = [not blk.get('cleanup') for blk in blocks]
        # candidate locals
        defs = {}       # l -> [(block, stmt index or 'term')]
        banned = set(range(0, b.get('arg_count', 0) + 1))
        for bi, blk in enumerate(blocks):
            if not live[bi]:
                continue
            for si, st in enumerate(blk['stmts']):
                if st.get('k') == 'assign':
                    pl = st['place']
                    if pl['p']:
                        banned.add(pl['l'])
                    else:
                        defs.setdefault(pl['l'], []).append((bi, si))
                def chk(pl_, c_):
                    if c_ == 'ref':
                        banned.add(pl_['l'])
                _walk_places(st.get('rv') if st.get('k') == 'assign' else st, chk)
            t = blk['term']
            if t.get('dest') is not None:
                if t['dest']['p']:
                    banned.add(t['dest']['l'])
                else:
                    defs.setdefault(t['dest']['l'], []).append((bi, 'term'))
            if t['k'] == 'drop' and t.get('place') is not None:
                pass
        cands = [l for (l, ds) in defs.items() if len(ds) >= 2 and l not in banned]
        if not cands:
            continue
        # locals that are never read: a `_d = discr(_x)` whose _d is dead (a drop-flag test already resolved) is not a use of _x
        read_locals = set()
        for bi, blk in enumerate(blocks):
            if not live[bi]:
                continue
            for st in blk['stmts']:
                def rl(pl_, c_, st=st):
                    if not (st.get('k') == 'assign' and pl_ is st['place'] and not pl_['p']):
                        read_locals.add(pl_['l'])
                _walk_places(st, rl)
            t = blk['term']
            def rlt(pl_, c_, t=t):
                if pl_ is not t.get('dest') or pl_['p']:
                    read_locals.add(pl_['l'])
            _walk_places(t, rlt)
        succs = [(_succs(blk) if live[i] else []) for i, blk in enumerate(blocks)]
        for x in cands:
            dlist = defs[x]
            didx = {d: k for k, d in enumerate(dlist)}
            # per block: gen (last def in block), kill
            last_def = {}
            for (bi, si) in dlist:
                cur = last_def.get(bi)
                if cur is None or cur[1] == 'term' and False:
                    last_def[bi] = (bi, si)
                else:
                    # keep the later one ('term' is last)
                    a = cur[1]
                    if si == 'term' or (a != 'term' and si > a):
                        last_def[bi] = (bi, si)
            IN = [set() for _ in range(nb)]
            OUT = [set() for _ in range(nb)]
            work = list(range(nb))
            preds = [[] for _ in range(nb)]
            for i in range(nb):
                for y in succs[i]:
                    if 0 <= y < nb:
                        preds[y].append(i)
            while work:
                i = work.pop()
                if not live[i]:
                    continue
                inn = set()
                for p_ in preds[i]:
                    inn |= OUT[p_]
                IN[i] = inn
                out = {didx[last_def[i]]} if i in last_def else set(inn)
                # a call terminator's def only holds on its normal successor; approximated as holding on all (sound for grouping)
                if out != OUT[i]:
                    OUT[i] = out
                    for y in succs[i]:
                        if 0 <= y < nb:
                            work.append(y)
            # uses with their reaching sets
            parent = list(range(len(dlist)))
            def find(a):
                while parent[a] != a:
                    parent[a] = parent[parent[a]]
                    a = parent[a]
                return a
            uses = []       # (container, reaching set)
            ok = True
            for bi, blk in enumerate(blocks):
                if not live[bi]:
                    continue
                cur = set(IN[bi])
                for si, st in enumerate(blk['stmts']):
                    hit = []
                    def rd(pl_, c_, hit=hit, st=st):
                        if pl_['l'] == x and not (c_ == 'def' and pl_ is st.get('place')):
                            hit.append(pl_)
                    _walk_places(st, rd)
                    # the assigned place of this very statement is a def, not a use
                    hit = [h for h in hit if not (st.get('k') == 'assign' and h is st['place'])]
                    if hit and st.get('k') == 'assign' and st['rv'].get('k') == 'discr' and not st['place']['p'] and st['place']['l'] not in read_locals:
                        hit = []        # dead discriminant read
                    if hit:
                        if not cur:
                            ok = False
                        uses.append((hit, frozenset(cur)))
                    if st.get('k') == 'assign' and st['place']['l'] == x and not st['place']['p']:
                        cur = {didx[(bi, si)]}
                t = blk['term']
                hit = []
                def rdt(pl_, c_, hit=hit, t=t):
                    if pl_['l'] == x and pl_ is not t.get('dest'):
                        hit.append(pl_)
                _walk_places(t, rdt)
                if hit:
                    if not cur:
                        ok = False
                    uses.append((hit, frozenset(cur)))
                if not ok:
                    break
            if not ok:
                continue
            for (_h, rs) in uses:
                rs = sorted(rs)
                for a in rs[1:]:
                    ra, rb = find(rs[0]), find(a)
                    if ra != rb:
                        parent[rb] = ra
            groups = {}
            for k in range(len(dlist)):
                groups.setdefault(find(k), []).append(k)
            if len(groups) < 2:
                continue
            # rename every group but the first to a fresh local
            roots = sorted(groups)
            fresh = {roots[0]: x}
            for r in roots[1:]:
                b['locals'].append(copy.deepcopy(b['locals'][x]))
                fresh[r] = len(b['locals']) - 1
            for k, (bi, si) in enumerate(dlist):
                nl = fresh[find(k)]
                if nl == x:
                    continue
                if si == 'term':
                    blocks[bi]['term']['dest']['l'] = nl
                else:
                    blocks[bi]['stmts'][si]['place']['l'] = nl
            for (hit, rs) in uses:
                if not rs:
                    continue
                nl = fresh[find(sorted(rs)[0])]
                if nl != x:
                    for h in hit:
                        h['l'] = nl
            n_split += 1
    return n_split


def _guarded(j, notes, name, fn, default):
    """Run one normalisation step; if it crashes on an unforeseen MIR shape, put the facts back as they were and go
    on without it (the rules then see the un-normalised code, which can only make them more conservative)."""
    keys = ('instances', 'poly', 'adts', 'consts', 'fns', 'roots', 'format_args')
    snap = {k: copy.deepcopy(j.get(k)) for k in keys}
    try:
        return fn()
    except Exception as ex:   # noqa: BLE001
        import traceback
        for k in keys:
            if snap[k] is not None:
                j[k] = snap[k]
        notes.append('%s skipped: %r %s' % (name, ex, traceback.format_exc()[-400:]))
        return default


def inline_unknown(j, known):
    """Mutates facts json j. Returns dict(inlined=[paths], dropped=[paths])."""
    if known is None or j.get('crate') != 'mrecordlog':
        return {'inlined': [], 'dropped': []}
    notes = []
    known0 = known
    _set_adt_table(j)
    consts_expanded = _guarded(j, notes, 'expand_adt_consts', lambda: expand_adt_consts(j), 0)
    consts_aliased = _guarded(j, notes, 'alias_consts', lambda: alias_consts(j), {})
    n_desugared = _guarded(j, notes, 'desugar_adaptors', lambda: desugar_adaptors(j), 0)
    n_then = _guarded(j, notes, 'desugar_bool_then_some', lambda: desugar_bool_then_some(j), 0)
    n_then = (n_then or 0) + (_guarded(j, notes, 'desugar_enum_eq', lambda: desugar_enum_eq(j), 0) or 0)
    types_renamed = _guarded(j, notes, 'rename_types_back', lambda: rename_types_back(j, load_known_adts()), {})
    unwrapped = _guarded(j, notes, 'unwrap_known_wrappers', lambda: unwrap_known_wrappers(j, known), {})
    known, renamed = effective_known(j, known, forced=unwrapped)
    _guarded(j, notes, 'rename_back', lambda: rename_back(j, renamed), None)
    fields_renamed = _guarded(j, notes, 'rename_fields_back', lambda: rename_fields_back(j, load_known_adts()), {})
    res = _guarded(j, notes, 'inline_helpers', lambda: _inline_all(j, known), {'inlined': [], 'dropped': []})
    res['webs_split'] = _guarded(j, notes, 'split_webs', lambda: split_webs(j), 0) if not os.environ.get('MRL_NO_WEB') else 0
    res['reads_forwarded'] = _guarded(j, notes, 'forward_aggregate_reads', lambda: forward_aggregate_reads(j), 0) if not os.environ.get('MRL_NO_FWD') else 0
    res['sroa'] = _guarded(j, notes, 'sroa', lambda: sroa(j), {}) if not os.environ.get('MRL_NO_SROA') else {}
    res['tails_split'] = _guarded(j, notes, 'split_tails', lambda: split_tails(j), [])
    res.update({'consts_expanded': consts_expanded, 'unwrapped': unwrapped, 'renamed': renamed, 'fields_renamed': fields_renamed, 'types_renamed': types_renamed, 'adaptors_desugared': n_desugared + (n_then or 0), 'consts_aliased': consts_aliased, 'notes': notes})
    return res


def _inline_all(j, known):
    report = {'inlined': set(), 'dropped': set()}
    # instances: callee.node = id
    inst = j['instances']
    by_id = {b['id']: b for b in inst}
    def look_i(cal):
        n = cal.get('node')
        return by_id.get(n) if n is not None else None
    report['inlined'] |= _inline_family(inst, look_i, known, j.get('roots', []))
    root_ids = {r['node'] for r in j.get('roots', []) if r.get('node') is not None}
    # drop helpers nothing refers to any more (iterate: helpers of helpers)
    while True:
        refs = _referenced(inst, look_i)
        drop = [b for b in inst if _eligible(b, known) and strip_crate(b['path']) in report['inlined'] and id(b) not in refs and b['id'] not in root_ids]
        if not drop:
            break
        for b in drop:
            report['dropped'].add(strip_crate(b['path']))
            inst.remove(b)
            j.setdefault('_dropped_helpers', []).append(b)
    # poly bodies: resolve by path
    poly = j['poly']
    by_path = {}
    for b in poly:
        by_path.setdefault(b['path'], []).append(b)
    def look_p(cal):
        c = by_path.get(cal.get('path')) or by_path.get(strip_crate(cal.get('path') or ''))
        return c[0] if c and len(c) == 1 else None
    inl_p = _inline_family(poly, look_p, known, [])
    report['inlined'] |= inl_p
    while True:
        refs = _referenced(poly, look_p)
        drop = [b for b in poly if _eligible(b, known) and strip_crate(b['path']) in inl_p and id(b) not in refs]
        if not drop:
            break
        for b in drop:
            report['dropped'].add(strip_crate(b['path']))
            poly.remove(b)
    return {'inlined': sorted(report['inlined']), 'dropped': sorted(report['dropped'])}
