"""Group OPEN (§5.4): the replay loop, error discipline and termination on the recovery path."""
import re

from core import op_local, op_const_bits, op_const_named, place_fields, strip_crate, alias_paths, place_path, norm_proj, place_str
from engine import rule
from flow import flow_of
from vocab import open_bodies, api_ro, root_bodies, reachable_bodies, where, callers_of, MPR

IOERR = 'std::io::Error'


def iob_enums(ctx):
    """crate enums with a variant carrying io::Error: {adt: {variant: carries_io}}"""
    out = {}
    for p, a in ctx.f.adts.items():
        if a['kind'] != 'enum':
            continue
        m = {}
        for v in a['variants']:
            m[v['name']] = any(IOERR in f['ty'] for f in v['fields'])
        if any(m.values()):
            out[p] = m
    return out


def err_type_of(ty):
    """E of 'std::result::Result<T, E>' (top level), else None."""
    if not ty.startswith('std::result::Result<'):
        return None
    inner = ty[len('std::result::Result<'):-1]
    depth = 0
    for i, ch in enumerate(inner):
        if ch in '<([':
            depth += 1
        elif ch in '>)]':
            depth -= 1
        elif ch == ',' and depth == 0:
            return inner[i + 1:].strip()
    return None


def mayio_bodies(ctx):
    """Bodies that may produce an I/O error: call a non-local fn returning io::Result / converting an
    io::Error, or build an IOB variant; closed over local calls."""
    if hasattr(ctx, '_mayio'):
        return ctx._mayio
    iob = iob_enums(ctx)
    s = set()
    for b in ctx.f.bodies.values():
        direct = False
        for cs in b.calls:
            if cs.node is None and cs.dest is not None:
                dl = cs.dest_local()
                ty = b.local_ty(dl) if dl is not None else ''
                e = err_type_of(ty)
                if e is not None and (e == IOERR):
                    if 'FromResidual' in cs.name or '::branch' in cs.name:
                        continue
                    direct = True
        for bi, blk in enumerate(b.blocks):
            if not b.live[bi]:
                continue
            for st in blk['stmts']:
                if st['k'] == 'assign' and st['rv']['k'] == 'agg' and st['rv'].get('agg') == 'adt':
                    adt = strip_crate(st['rv']['adt'])
                    if adt in iob and iob[adt].get(st['rv']['variant']):
                        direct = True
        if direct:
            s.add(b.id)
    changed = True
    while changed:
        changed = False
        for b in ctx.f.bodies.values():
            if b.id in s:
                continue
            for cs in b.calls:
                if cs.node in s:
                    s.add(b.id)
                    changed = True
                    break
    ctx._mayio = s
    return s


def io_result_sites(ctx, b):
    """Call sites in b whose result may carry an I/O error."""
    iob = iob_enums(ctx)
    mio = mayio_bodies(ctx)
    out = []
    for cs in b.calls:
        dl = cs.dest_local()
        if cs.dest is None:
            continue
        ty = b.local_ty(cs.dest['l']) if not cs.dest['p'] else None
        if ty is None:
            continue
        e = err_type_of(ty)
        if e is None:
            continue
        if 'FromResidual' in cs.name or cs.name.endswith('::branch'):
            continue
        if cs.node is None:
            if e == IOERR and not re.match(r'^std::result::Result::<', cs.name):
                out.append(cs)
        else:
            if cs.node in mio and (e == IOERR or e in iob):
                out.append(cs)
    return out


def recovery_bodies(ctx):
    return reachable_bodies(ctx, open_bodies(ctx))


EXCEPTIONS_ERR1 = {
    # one named symbol, with the reason (see DESIGN §5.4 ERR1)
    'rolling::directory::read_block': 'maps ErrorKind::UnexpectedEof to Ok(false) after inspecting io::Error::kind (a short file yields no block); every other kind is re-raised (checked structurally below)',
}


def classify_consumption(ctx, b, cs):
    """How the io-bearing result of cs is consumed. Returns (kind, ok, explanation)."""
    iob = iob_enums(ctx)
    r = cs.dest_local()
    if r is None:
        return ('stored', False, 'result stored into a projected place')
    if r == 0:
        return ('forward', True, 'tail call: result returned as is')
    fl = flow_of(b)
    known = alias_paths(b, r)
    # (a) `?`
    for e in b.exits():
        if e['kind'] == 'err_prop' and (e.get('call') is cs or cs in e.get('calls', ())):
            return ('try', True, '`?` propagates the error')
    # moved whole to _0
    if 0 in known and () in known[0]:
        return ('return', True, 'result returned as is')
    # (b)/(c) match
    res_sw = []
    for (bi, pl, adt, edges) in b.discr_switches():
        for path in place_path(known, pl):
            res_sw.append((bi, path, adt, edges))
    top = [x for x in res_sw if x[1] == ()]
    if top:
        ety = err_type_of(b.local_ty(r))
        ety_adt = ety if ety in iob else None
        # payload flow to an Err exit
        err_exits = [e for e in b.exits() if e['kind'] in ('err',)]
        # an error handed on with `?` after a conversion (`.map_err(Ctor)?`, A-DESUGAR) leaves through an
        # err_prop exit: what is propagated is the residual handed to from_residual
        for e in b.exits():
            if e['kind'] == 'err_prop' and e.get('residual_call') is not None and e['residual_call'].args:
                err_exits.append({'point': e['point'], 'kind': 'err', 'ops': [e['residual_call'].args[0]], 'variant': None, 'adt': None})
        problems = []
        handled = False
        if ety == IOERR:
            # whole payload must flow to an Err exit on every path from the Err edge
            for (bi, path, adt, edges) in top:
                if 'Err' not in edges:
                    continue
                tgt = edges['Err'][1]
                ok_or_loop = err_region_escapes(ctx, b, tgt, cs)
                # payload flows to err exit?
                flows = False
                srcs = set()
                for l, paths in known.items():
                    if (('v', 'Err'), ('f', '0')) in paths:
                        srcs |= set(fl.local_sources(l))
                t = fl.forward(srcs)
                for e in err_exits:
                    if e['ops'] and fl.op_tainted(e['ops'][0], t):
                        flows = True
                handled = True
                if ok_or_loop:
                    problems.append('the Err arm can %s' % ok_or_loop)
                elif not flows:
                    problems.append('the io::Error payload does not flow to an Err exit')
        elif ety_adt:
            inner = [x for x in res_sw if x[1] == (('v', 'Err'), ('f', '0'))]
            for (bi, path, adt, edges) in inner:
                handled = True
                for v, carries in iob[ety_adt].items():
                    if not carries:
                        continue
                    if v not in edges:
                        problems.append('variant %s::%s (carries an io::Error) is not matched' % (ety_adt, v))
                        continue
                    tgt = edges[v][1]
                    esc = err_region_escapes(ctx, b, tgt, cs)
                    if esc:
                        problems.append('the %s arm can %s' % (v, esc))
                        continue
                    srcs = set()
                    for l, paths in known.items():
                        if (('v', 'Err'), ('f', '0'), ('v', v), ('f', '0')) in paths:
                            srcs |= set(fl.local_sources(l))
                    t = fl.forward(srcs)
                    # `Err(e @ Variant(_)) => return Err(e)`: inside this variant's arm the WHOLE error value is the io-carrying one
                    reach_v = b.reach([tgt])
                    w_srcs = set()
                    for l, paths in known.items():
                        if (('v', 'Err'), ('f', '0')) in paths:
                            w_srcs |= set(fl.local_sources(l))
                    t_whole = fl.forward(w_srcs)
                    whole_out = [e for e in err_exits if e['point'] in reach_v and e['ops'] and fl.op_tainted(e['ops'][0], t_whole) and e.get('adt') is None]
                    if whole_out:
                        t = t | t_whole
                    if not any(e['ops'] and (fl.op_tainted(e['ops'][0], t) or any(fl.op_tainted(o, t) for o in e.get('inner_ops', []))) for e in err_exits):
                        problems.append('the io::Error carried by %s does not flow to an Err exit' % v)
                    # every way out of this arm must report the I/O error itself (not a skippable error)
                    for e in b.exits():
                        if e['point'] not in reach_v:
                            continue
                        carries = e['kind'] == 'err' and ((e.get('adt') in iob and iob[e['adt']].get(e.get('variant'))) or (e['ops'] and fl.op_tainted(e['ops'][0], t) and e.get('adt') is None))
                        if e['kind'] == 'err_prop':
                            carries = True
                        if not carries:
                            problems.append('the %s arm can leave through %s (%s), which does not carry the I/O error' % (v, b.loc(e['point']), e.get('variant') or e['kind']))
                            break
            if not inner:
                # undiscriminated Err arm
                for (bi, path, adt, edges) in top:
                    if 'Err' in edges:
                        esc = err_region_escapes(ctx, b, edges['Err'][1], cs)
                        handled = True
                        if esc:
                            problems.append('the Err arm is not discriminated by variant and can %s' % esc)
                        else:
                            # whole payload must be returned
                            srcs = set()
                            for l, paths in known.items():
                                if (('v', 'Err'), ('f', '0')) in paths:
                                    srcs |= set(fl.local_sources(l))
                            t = fl.forward(srcs)
                            if not any(e['ops'] and fl.op_tainted(e['ops'][0], t) for e in err_exits):
                                problems.append('the error payload does not flow to an Err exit')
        if handled:
            return ('match', not problems, '; '.join(problems) if problems else 'match: every io-carrying variant is returned as an error')
    # passed on to something else
    users = []
    for c2 in b.calls:
        for a in c2.args:
            al = op_local(a)
            if al is not None and al in known and () in known[al]:
                users.append(c2)
    if users:
        names = [u.name.split('::<')[0] for u in users]
        return ('adaptor', False, 'result handed to %s: the I/O error can be discarded' % names)
    return ('dropped', False, 'result is never inspected: the I/O error is dropped')


def eof_edges(b, cs):
    """Edges on which the error of a `read_exact` call is known to be ErrorKind::UnexpectedEof (a short file):
    the only I/O 'error' that is an answer (no block) rather than a failure."""
    if not cs.name.endswith('read_exact'):
        return []
    out = []
    def is_eof_const(l):
        if l is None:
            return False
        for o in b.trace_local(l):
            if o[0] == 'const' and any(t == 'variant:std::io::ErrorKind::UnexpectedEof' for t in o[2].get('promoted_texts', [])):
                return True
            if o[0] == 'rv' and o[2]['k'] == 'ref':
                for o2 in b.trace_local(o[2]['place']['l']):
                    if o2[0] == 'rv' and o2[2]['k'] == 'agg' and o2[2].get('variant') == 'UnexpectedEof':
                        return True
                    if o2[0] == 'const' and any(t == 'variant:std::io::ErrorKind::UnexpectedEof' for t in o2[2].get('promoted_texts', [])):
                        return True
        return False
    def is_kind(l):
        if l is None:
            return False
        for o in b.trace_local(l):
            if o[0] == 'call' and o[1].name == 'std::io::Error::kind':
                return True
            if o[0] == 'rv' and o[2]['k'] == 'ref':
                if any(o2[0] == 'call' and o2[1].name == 'std::io::Error::kind' for o2 in b.trace_local(o[2]['place']['l'])):
                    return True
        return False
    for (bi, c, te, fe, c2) in b.switches_on_call(lambda c: re.search(r'<std::io::ErrorKind as std::cmp::PartialEq>::(eq|ne)$', c.name) is not None):
        a0, a1 = c2.arg_local(0), c2.arg_local(1)
        if (is_kind(a0) and is_eof_const(a1)) or (is_kind(a1) and is_eof_const(a0)):
            out.append(fe if c2.name.endswith('::ne') else te)
    return out


def err_region_escapes(ctx, b, tgt, cs):
    """From point tgt (entry of an error arm): can we reach an Ok exit or come back to the call?"""
    r = b.reach([tgt])
    eof = eof_edges(b, cs)
    for e in b.exits():
        if e['kind'] in ('ok', 'some', 'none', 'value') and e['point'] in r:
            if eof and e['point'] not in b.reach([tgt], avoid_edges=eof):
                continue    # only reachable through `kind() == UnexpectedEof`: a short file, not a failure
            return 'reach a success return (%s)' % b.loc(e['point'])
    if cs.point in r and (not eof or cs.point in b.reach([tgt], avoid_edges=eof)):
        return 'go round the loop and retry (%s)' % b.loc(cs.point)
    # falls off to return without setting an Err? (fn returning Result always sets _0, so fine)
    return None


@rule('ERR1', ['C11'], floor=20, template='error-not-dropped')
def err1(ctx):
    """No I/O error on the recovery path is dropped."""
    bodies = recovery_bodies(ctx)
    if not open_bodies(ctx):
        ctx.missing('open', 'no root returns Result<MultiRecordLog, _>')
    for b in bodies:
        for cs in io_result_sites(ctx, b):
            kind, ok, why = classify_consumption(ctx, b, cs)
            key = '%s:%s' % (b.path, cs.path)
            ctx.check(ok, key, where(b, cs.point), '%s: %s' % (kind, why), 'I/O error can be lost during recovery (%s): %s' % (kind, why))


@rule('ERR5', ['C11'], floor=1, template='error-not-dropped')
def err5(ctx):
    """No I/O-bearing Result is consumed as an iterator or turned into an Option on the recovery path: `Result` is
    `IntoIterator` (zero items for Err), so `iter.flat_map(|x| fallible(x))` / `.flatten()` / `for v in result` /
    `result.iter()` silently drop the error, as `.ok()` does. (ERR1 judges how a call result is consumed inside the
    body that made the call; a closure that returns it hands the question to the adaptor it is given to.)"""
    iob = iob_enums(ctx)
    def io_bearing_result(ty):
        e = err_type_of(strip_crate(ty or ''))
        return e is not None and (e == IOERR or e in iob)
    n = 0
    bodies = list(recovery_bodies(ctx))
    seen = {b.id for b in bodies}
    # closures created by those bodies (transitively)
    work = list(bodies)
    while work:
        b = work.pop()
        for (_p, fj) in b.fn_values:
            node = fj.get('node')
            cb = ctx.f.bodies.get(node) if node is not None else None
            if cb is not None and cb.id not in seen:
                seen.add(cb.id)
                bodies.append(cb)
                work.append(cb)
    bad = []
    for b in bodies:
        n += 1
        for cs in b.calls:
            nm = cs.name
            m = re.search(r'Iterator>::(flat_map|flatten)(::<(.*)>)?$', nm)
            if m:
                # flat_map::<U, F>: U is the closure's return type; flatten: Self::Item
                targs = m.group(3) or ''
                item_is_io_result = 'std::result::Result<' in targs and (IOERR in targs or any(e_ in targs for e_ in iob))
                if not item_is_io_result and m.group(1) == 'flatten':
                    recv = nm.split(' as std::iter::Iterator>')[0]
                    item_is_io_result = 'std::result::Result<' in recv and (IOERR in recv or any(e_ in recv for e_ in iob))
                if item_is_io_result:
                    bad.append('%s (%s: %s over io::Result items)' % (b.loc(cs.point), b.path, m.group(1)))
            m2 = re.match(r'^<std::result::Result<(.*)> as std::iter::IntoIterator>::into_iter$', nm) or re.match(r'^std::result::Result::<(.*)>::(iter|iter_mut|ok|unwrap_or_default)$', nm)
            if m2 and (IOERR in m2.group(1) or any(e_ in m2.group(1) for e_ in iob)) and not b.is_test:
                # `.ok()` on a non-io Result (parse::<u64>) is none of our business: the error type decides
                bad.append('%s (%s: %s)' % (b.loc(cs.point), b.path, nm[-50:]))
    ctx.check(not bad, 'no-result-as-iterator', '-', 'no io-bearing Result is flattened, iterated or option-ised in the %d bodies of the recovery path' % n,
              'an I/O error can vanish during recovery: %s -- an unreadable WAL file would be skipped and open would return a log built from a partially read WAL' % sorted(set(bad)), nontrivial=False)


@rule('ERR2', ['C10', 'C11'], floor=3, template='loop-progress')
def err2(ctx):
    """No loop on the recovery path goes round again while a result may still hold an I/O error."""
    iob = iob_enums(ctx)
    n = 0
    for b in recovery_bodies(ctx):
        loops = b.loops()
        if not loops:
            continue
        for cs in io_result_sites(ctx, b):
            inl = [L for L in loops if cs.block in L['blocks']]
            if not inl:
                continue
            n += 1
            r = cs.dest_local()
            key = '%s:%s' % (b.path, cs.path)
            if r is None:
                ctx.bad(key, where(b, cs.point), 'io-bearing result stored in a projected place inside a loop')
                continue
            known = alias_paths(b, r)
            ety = err_type_of(b.local_ty(r))
            avoid_edges = set()
            # `?`: the Continue edge of the branch on r
            for c2 in b.calls:
                if c2.name.endswith('::branch') and c2.arg_local(0) in known and () in known.get(c2.arg_local(0), ()):
                    k2 = alias_paths(b, c2.dest_local()) if c2.dest_local() is not None else {}
                    for (bi, pl, adt, edges) in b.discr_switches():
                        if place_path(k2, pl) == [()] and 'Continue' in edges:
                            avoid_edges.add(edges['Continue'])
            for (bi, pl, adt, edges) in b.discr_switches():
                for path in place_path(known, pl):
                    if path == () and 'Ok' in edges:
                        avoid_edges.add(edges['Ok'])
                    if path == (('v', 'Err'), ('f', '0')) and ety in iob:
                        for v, carries in iob[ety].items():
                            if not carries and v in edges:
                                avoid_edges.add(edges[v])
            # a short file (read_exact -> UnexpectedEof) is an answer, not a failure: going on to the next file is fine
            avoid_edges |= set(eof_edges(b, cs))
            reach = b.reach_after(cs.point, avoid_edges=avoid_edges)
            back = cs.point in reach
            ctx.check(not back, key, where(b, cs.point), 'an I/O error from this call cannot reach the loop back-edge',
                      'error path that goes round again: when this call fails with an I/O error the loop retries it (open would spin forever)',
                      detail={'cycle': b.witness(cs.point, cs.point, avoid_edges=avoid_edges)} if back else None)
    if n == 0:
        ctx.missing('loop-sites', 'no io-bearing call inside a loop on the recovery path')


def replay_sites(ctx):
    """[(open body, read_record CallSite)]: call returning Result<Option<MultiPlexedRecord>, ReadRecordError>."""
    out = []
    for b in open_bodies(ctx):
        for cs in b.calls:
            dl = cs.dest_local()
            if dl is not None and re.match(r'^std::result::Result<std::option::Option<%s' % re.escape(MPR), b.local_ty(dl)):
                out.append((b, cs))
    return out


@rule('OP2', ['C09', 'C12', 'C08'], floor=1, template='must-loop')
def op2(ctx):
    """A damaged entry is skipped: the Corruption arm of the replay loop goes back to read_record. (Stopping instead --
    "too many corruptions", "probably the end" -- is not only a C09 matter: the writer then resumes in front of valid
    older frames, and a later batch cut by a crash is completed by their tail: C12, C08.)"""
    rs = replay_sites(ctx)
    if not rs:
        ctx.missing('replay', 'no call returning Result<Option<MultiPlexedRecord>, _> in an open body')
    for (b, cs) in rs:
        known = alias_paths(b, cs.dest_local())
        starts = []
        inner_found = False
        for (bi, pl, adt, edges) in b.discr_switches():
            for path in place_path(known, pl):
                if path == (('v', 'Err'), ('f', '0')):
                    inner_found = True
                    if 'Corruption' in edges:
                        starts.append(edges['Corruption'][1])
                    else:
                        for k, e in edges.items():
                            if k == 'otherwise':
                                starts.append(e[1])
        if not inner_found:
            for (bi, pl, adt, edges) in b.discr_switches():
                for path in place_path(known, pl):
                    if path == () and 'Err' in edges:
                        starts.append(edges['Err'][1])
        if not starts:
            ctx.bad('%s:corruption-arm' % b.path, where(b, cs.point), 'no arm handles the Err/Corruption result of the record reader')
            continue
        exits = [e['point'] for e in b.exits()]
        bad = []
        for s in starts:
            r = b.reach([s], avoid=[cs.point])
            bad += [e for e in exits if e in r]
        ctx.check(not bad, '%s:corruption-arm' % b.path, where(b, cs.point), 'Corruption always loops back to the record reader (damage is skipped)',
                  'a corrupted entry can make open return (at %s) instead of skipping it' % (b.loc(bad[0]) if bad else '-'))


def conversion_calls(ctx, b):
    """reader -> writer conversion in an open body: call with may SEEK whose result type holds a RecordWriter."""
    out = []
    for cs in b.calls:
        dl = cs.dest_local()
        if cs.node is not None and dl is not None and 'recordlog::writer::RecordWriter<' in b.local_ty(dl) and ctx.E.call_may(cs, 'SEEK'):
            out.append(cs)
    return out


@rule('OP3', ['C11', 'C01'], floor=1, template='guard-dominates-use')
def op3(ctx):
    """The writer is only built after the reader reported a clean end of log (Ok(None))."""
    for (b, cs) in replay_sites(ctx):
        convs = conversion_calls(ctx, b)
        if not convs:
            ctx.missing('%s:conversion' % b.path, 'no reader->writer conversion call found')
            continue
        known = alias_paths(b, cs.dest_local())
        none_edges = []
        for (bi, pl, adt, edges) in b.discr_switches():
            for path in place_path(known, pl):
                if path == (('v', 'Ok'), ('f', '0')) and 'None' in edges:
                    none_edges.append(edges['None'])
        for cv in convs:
            ok = any(b.edge_dominates(e, cv.point) for e in none_edges)
            ctx.check(ok, '%s:%s' % (b.path, cv.path), where(b, cv.point), 'conversion dominated by the Ok(None) edge of the record reader',
                      'the writer can be built before the reader reached the end of the log (a log built from a partially read WAL)')


# ---- MI: the crate's own iterator
MR_NEXT = "<record::MultiRecord<'_> as std::iter::Iterator>::next"


@rule('MI1', ['C10', 'C12'], floor=2, template='loop-progress')
def mi1(ctx):
    """MultiRecord::next makes progress on every Some(Ok) and ends exactly at the end of the buffer."""
    bs = [b for b in ctx.f.bodies.values() if b.name == MR_NEXT]
    if not bs:
        ctx.missing('next', 'MultiRecord::next not found')
    for b in bs[:1]:
        fl = flow_of(b)
        # Some(Ok(..)) exits
        somes = [e for e in b.exits() if e['kind'] == 'some']
        ok_somes = []
        for e in somes:
            ol = op_local(e['ops'][0]) if e['ops'] else None
            if ol is None:
                continue
            for o in b.trace_local(ol):
                if o[0] == 'rv' and o[2]['k'] == 'agg' and o[2].get('variant') == 'Ok':
                    ok_somes.append(e)
        stores = [(p, pl, rv) for (p, pl, rv) in b.stores if place_fields(pl) and place_fields(pl)[-1][1] == 'byte_offset']
        prog = []
        for (p, pl, rv) in stores:
            # value flows from old byte_offset through an addition of a named header const
            t_back = fl.backward(set(n for o in ([rv.get('op')] if rv['k'] == 'use' else []) if o for n in fl.op_nodes(o)))
            adds = [st for bi, blk in enumerate(b.blocks) if b.live[bi] for st in blk['stmts'] if st['k'] == 'assign' and st['rv']['k'] == 'binop' and st['rv']['op'].startswith('Add')]
            uses_hdr = any(op_const_named(st['rv']['a']) or op_const_named(st['rv']['b']) for st in adds if ('l', st['place']['l']) in t_back or any(('lf', st['place']['l'], f) in t_back for f in ('0',)))
            from_old = ('m', 'MultiRecord.byte_offset') in t_back
            if uses_hdr and from_old:
                prog.append(p)
        for e in ok_somes:
            ok = any(b.dominates(p, e['point']) for p in prog)
            ctx.check(ok, 'some-ok:progress', where(b, e['point']), 'Some(Ok) dominated by byte_offset += HEADER_LEN + len',
                      'MultiRecord::next can return Some(Ok(..)) without advancing byte_offset: iteration would never end')
        if not ok_somes:
            ctx.missing('some-ok', 'no Some(Ok(..)) exit found in MultiRecord::next')
        # None exit dominated by Eq(byte_offset, buffer.len())
        nones = [e for e in b.exits() if e['kind'] == 'none']
        for e in nones:
            ok = False
            for bi, blk in enumerate(b.blocks):
                if not b.live[bi] or blk['term']['k'] != 'switch':
                    continue
                c = b.switch_cond(bi)
                if c and c['kind'] == 'bool':
                    for o in c['origin']:
                        if o[0] == 'rv' and o[2]['k'] == 'binop' and o[2]['op'] == 'Eq':
                            back = fl.backward(set(fl.op_nodes(o[2]['a'])) | set(fl.op_nodes(o[2]['b'])))
                            if ('m', 'MultiRecord.byte_offset') in back:
                                ed = b.bool_edges(bi)
                                if ed and b.edge_dominates(ed[0], e['point']):
                                    ok = True
            if not ok:
                # `let unread = &self.buffer[self.byte_offset..]; if unread.is_empty() { return None }`
                from vocab import emptiness_tests
                for (ee, ne, ecs) in emptiness_tests(b):
                    backc = fl.backward(set(fl.op_nodes(ecs.args[0]))) if ecs.args else set()
                    if ('m', 'MultiRecord.byte_offset') in backc and ('m', 'MultiRecord.buffer') in backc and b.edge_dominates(ee, e['point']):
                        ok = True
            ctx.check(ok, 'none:at-end', where(b, e['point']), 'None only when byte_offset == buffer.len()',
                      'MultiRecord::next can report the end of the batch before the buffer is exhausted (records silently dropped)')


@rule('MI2', ['C10', 'C08', 'C12'], floor=3, template='loop-progress')
def mi2(ctx):
    """Every consumer of the crate iterator stops at its first error."""
    n = 0
    for b in ctx.f.bodies.values():
        if b.generic_dup():
            continue
        for cs in b.calls:
            if cs.name != MR_NEXT:
                continue
            loops = [L for L in b.loops() if cs.block in L['blocks']]
            if not loops:
                continue
            n += 1
            known = alias_paths(b, cs.dest_local())
            err_starts = []
            discriminated = False
            # item = (next as Some).0 : Result<_, MultiRecordCorruption>; consumed by ? / match / unwrap
            for c2 in b.calls:
                al = c2.arg_local(0)
                if al is not None and al in known and (('v', 'Some'), ('f', '0')) in known[al]:
                    if c2.name.endswith('::branch'):
                        k2 = alias_paths(b, c2.dest_local())
                        for (bi, pl, adt, edges) in b.discr_switches():
                            if place_path(k2, pl) == [()] and 'Break' in edges:
                                err_starts.append(edges['Break'][1])
                                discriminated = True
                    elif re.search(r'Result::<.*>::(unwrap|expect)$', c2.name):
                        discriminated = True   # panics on Err: does not continue
                    elif re.search(r'Result::<.*>::(is_err|is_ok)$', c2.name):
                        # the test itself says which way an Err goes: the true edge of is_err / the false edge of is_ok
                        edges_ = [(te, fe) for (_bi, _c, te, fe, c3) in b.switches_on_call(lambda c: c is c2)]
                        if edges_:
                            for (te, fe) in edges_:
                                err_starts.append((te if c2.name.endswith('is_err') else fe)[1])
                        else:
                            err_starts.append(c2.point)
                        discriminated = True
                    elif re.search(r'Result::<.*>::(ok|unwrap_or|unwrap_or_default|unwrap_or_else)$', c2.name):
                        err_starts.append(c2.point)
                        discriminated = True
            for (bi, pl, adt, edges) in b.discr_switches():
                for path in place_path(known, pl):
                    if path == (('v', 'Some'), ('f', '0')) and 'Err' in edges:
                        err_starts.append(edges['Err'][1])
                        discriminated = True
            key = '%s:consumer' % b.path
            if not discriminated:
                ctx.bad(key, where(b, cs.point), 'the Result yielded by the batch iterator is never inspected inside the loop')
                continue
            bad = [s for s in err_starts if cs.point in b.reach([s])]
            ctx.check(not bad, key, where(b, cs.point), 'an Err item leaves the loop',
                      'the loop keeps iterating after the batch iterator yielded an error (next() rewinds on error: this can cycle forever)')
            # a VALIDATOR (a body that answers Result<MultiRecord, _>: `MultiRecord::new`) rejects the batch as a whole:
            # from an Err item no successful return is reachable ("keep the sound prefix" exposes a batch with its tail
            # missing -- C12 -- built from bytes that are known to be damaged -- C08)
            if b.ret_ty.startswith('std::result::Result<record::MultiRecord<'):
                oks = [e['point'] for e in b.exits() if e['kind'] == 'ok']
                leak = [s for s in err_starts if any(o in b.reach([s]) for o in oks)]
                ctx.check(not leak, '%s:validator-all-or-nothing' % b.path, where(b, cs.point), 'an Err item makes the validator answer Err',
                          'the batch validator can answer Ok after the iterator yielded an error (a prefix of a damaged batch is accepted): the batch would be recovered with its tail missing')
    if n == 0:
        ctx.missing('consumers', 'no loop over MultiRecord found')


# ---- LP1 loop inventory
def loop_kind(ctx, b, L):
    """('iter', call) if the loop's only exit is the None edge of a std Iterator::next; else ('open', None)"""
    nexts = [cs for cs in b.calls if cs.block in L['blocks'] and cs.name.endswith('as std::iter::Iterator>::next')]
    for n in nexts:
        if n.dest_local() is None:
            continue
        known = alias_paths(b, n.dest_local())
        for (bi, pl, adt, edges) in b.discr_switches():
            if place_path(known, pl) == [()] and 'None' in edges:
                none_tgt = b.points[edges['None'][1]][0]
                if none_tgt in L['blocks']:
                    continue   # the None edge of a nested loop's iterator stays inside this loop
                real_exits = [(x, t) for (x, t) in L['exits'] if b.blocks[t]['term']['k'] != 'unreachable' or b.blocks[t]['stmts']]
                # every exit either is the None edge or leaves the function (return path)
                others = [(x, t) for (x, t) in real_exits if t != none_tgt]
                returns_only = all(not any(bb in L['blocks'] for bb in [b.points[q][0] for q in b.reach([b.pstart[t]])]) for (x, t) in others)
                if returns_only:
                    return ('iter', n)
    return ('open', None)


@rule('LP1', ['C10'], floor=3, template='loop-progress')
def lp1(ctx):
    """Every loop of the recovery-read set and of the read accessors has a progress witness."""
    opens = open_bodies(ctx)
    ro = api_ro(ctx)
    # recovery-read set: reachable from open through call sites not dominated by the conversion
    seeds = []
    read_set = {}
    work = []
    for b in opens:
        read_set[b.id] = b
        work.append(b)
    while work:
        b = work.pop()
        convs = conversion_calls(ctx, b) if b in opens else []
        for cs in b.calls:
            if cs.node is None or cs.node in read_set:
                continue
            if any(b.dominates(cv.point, cs.point) or cv.point == cs.point for cv in convs):
                continue
            read_set[cs.node] = ctx.f.bodies[cs.node]
            work.append(ctx.f.bodies[cs.node])
        for (_p, fj) in b.fn_values:
            nn = fj.get('node')
            if nn is not None and nn not in read_set and nn in ctx.f.bodies:
                read_set[nn] = ctx.f.bodies[nn]
                work.append(ctx.f.bodies[nn])
    for b in reachable_bodies(ctx, ro):
        read_set.setdefault(b.id, b)
    # recursion check
    ids = set(read_set)
    rec = []
    for b in read_set.values():
        reach = set()
        st = [cs.node for cs in b.calls if cs.node in ids]
        while st:
            x = st.pop()
            if x in reach:
                continue
            reach.add(x)
            st += [cs.node for cs in ctx.f.bodies[x].calls if cs.node in ids]
        if b.id in reach:
            rec.append(b.path)
    ctx.check(not rec, 'no-recursion', '-', 'no recursion among the %d bodies of the recovery-read set and read accessors' % len(read_set),
              'recursion among recovery bodies (%s): termination unproven' % rec, nontrivial=False)
    fr5 = fr5_progress_bodies(ctx)
    for b in read_set.values():
        if b.generic_dup():
            continue
        for L in b.loops():
            hdr = b.pstart[L['header']]
            kind, n = loop_kind(ctx, b, L)
            key = '%s:loop@%s' % (b.path, loop_ident(b, L))
            macro = all((b.blocks[x]['term'].get('exp') or '').startswith('Macro') for x in L['blocks'] if b.blocks[x]['term']['k'] == 'call') and any(b.blocks[x]['term']['k'] == 'call' for x in L['blocks'])
            if kind == 'iter':
                if n.name == MR_NEXT:
                    ctx.ok(key, where(b, hdr), 'loop over the crate iterator MultiRecord (progress: MI1, consumers stop on error: MI2)')
                else:
                    ctx.ok(key, where(b, hdr), 'iterator-driven loop over %s' % n.name.split(' as ')[0].lstrip('<')[:80], nontrivial=False)
                continue
            # open-coded: W1 every path round the loop crosses a call that satisfies FR5 (transitively)
            cut = [cs.point for cs in b.calls if cs.block in L['blocks'] and cs.node in fr5]
            w1 = bool(cut) and not loop_cycle_avoiding(b, L, cut)
            # W2: loop var reassigned on every round from FileTracker::next(&var)-like strictly-after query
            cut2 = [cs.point for cs in b.calls if cs.block in L['blocks'] and cs.node is not None and is_strict_successor_query(ctx, ctx.f.bodies[cs.node])]
            w2 = bool(cut2) and not loop_cycle_avoiding(b, L, cut2)
            # W3: every iteration must-removes from the tracker (GC loop)
            cut3 = [cs.point for cs in b.calls if cs.block in L['blocks'] and cs.node is not None and ctx.E.call_may(cs, 'TRACK')]
            ctx.check(w1 or w2, key, where(b, hdr),
                      'open-coded loop with progress witness %s' % ('W1 (every round reads a frame: cursor advance or block quarantine, FR5)' if w1 else 'W2 (loop variable strictly increases through the tracker successor query)'),
                      'open-coded loop without a progress witness: termination on arbitrary directory content is unproven')


def loop_ident(b, L):
    """stable-ish identity of a loop: the callee names of non-macro calls in it (no line numbers)."""
    names = sorted({cs.path.split('::')[-1] for cs in b.calls if cs.block in L['blocks'] and not cs.is_macro() and cs.node is not None})
    if not names:
        names = sorted({cs.name.split('::<')[0].split('::')[-1] for cs in b.calls if cs.block in L['blocks'] and not cs.is_macro()})
    return '+'.join(names[:4]) or 'h'


def loop_cycle_avoiding(b, L, cut_points):
    """Is there a cycle through the loop header that avoids all cut points?"""
    hdr = b.pstart[L['header']]
    inside = set()
    for x in L['blocks']:
        for p in range(b.pstart[x], b.pterm[x] + 1):
            inside.add(p)
    outside = [p for p in range(len(b.points)) if p not in inside]
    r = b.reach_after(hdr, avoid=set(cut_points) | set(outside))
    return hdr in r


def is_strict_successor_query(ctx, t):
    """Body whose result comes from BTreeSet::range((Excluded(arg), Unbounded)).next()"""
    has_range = any(re.match(r'^std::collections::BTreeSet::<.*>::range', cs.name) for cs in t.calls)
    if not has_range:
        return False
    excl = False
    for bi, blk in enumerate(t.blocks):
        if not t.live[bi]:
            continue
        for st in blk['stmts']:
            if st['k'] == 'assign' and st['rv']['k'] == 'agg' and st['rv'].get('agg') == 'adt' and st['rv']['adt'].endswith('ops::Bound') and st['rv']['variant'] == 'Excluded':
                # fed by the argument
                fl = flow_of(t)
                t_arg = fl.forward(set(fl.local_sources(2))) if t.arg_count >= 2 else set()
                if st['rv']['ops'] and fl.op_tainted(st['rv']['ops'][0], t_arg):
                    excl = True
    return excl


def fr5_progress_bodies(ctx):
    """Bodies every successful/Corruption return of which made reader progress (FR5), closed upwards:
    a body qualifies if every path entry -> (Ok exit | Corruption construction) crosses a progress
    store or a call to a qualifying body."""
    from rules_rec import progress_points
    ok = set()
    changed = True
    rounds = 0
    while changed and rounds < 10:
        rounds += 1
        changed = False
        for b in ctx.f.bodies.values():
            if b.id in ok:
                continue
            pts = progress_points(ctx, b) + [cs.point for cs in b.calls if cs.node in ok]
            if not pts:
                continue
            targets = [e['point'] for e in b.exits() if e['kind'] in ('ok',)] + corruption_sites(b)
            # NotAvailable / io errors leave loops: not required to progress
            if not targets:
                continue
            r = b.reach([b.entry], avoid=pts)
            if not any(t in r and t not in pts for t in targets):
                ok.add(b.id)
                changed = True
    return ok


def corruption_sites(b):
    out = []
    for bi, blk in enumerate(b.blocks):
        if not b.live[bi]:
            continue
        for si, st in enumerate(blk['stmts']):
            if st['k'] == 'assign' and st['rv']['k'] == 'agg' and st['rv'].get('agg') == 'adt' and st['rv']['variant'] == 'Corruption':
                out.append(b.pstart[bi] + si)
    return out


@rule('ERR3', ['C11', 'C17'], floor=1, template='effect-confinement')
def err3(ctx):
    """Reading the WAL never creates files: a WAL file that cannot be opened is an error, not something to
    recreate (the only creation during recovery is the first file of an empty directory)."""
    n = 0
    for b in ctx.f.bodies.values():
        if b.generic_dup():
            continue
        if b.name.startswith('<rolling::directory::RollingReader as block_read_write::BlockRead>::next_block'):
            n += 1
            may = ctx.E.may().get(b.id, set())
            ctx.check('CREATE' not in may, '%s:no-create' % b.path, b.span, 'moving to the next block / file cannot create a file',
                      'the recovery reader can create a WAL file while reading (a listed file that went missing would be silently recreated empty instead of reported)')
    # the body that opens an existing WAL file read-write uses no creating flag
    for b in ctx.f.bodies.values():
        if b.generic_dup():
            continue
        opens = [cs for (p, e, cs) in ctx.E.direct_sites(b) if e in ('OPENRW', 'CREATE') and cs.name.startswith('std::fs::OpenOptions::open')]
        ms = ctx.E.openoptions_methods(b)
        if opens and 'read' in ms and 'write' in ms:
            n += 1
            bad = sorted(ms & {'create', 'create_new', 'truncate', 'append'})
            ctx.check(not bad, '%s:opens-existing-only' % b.path, b.span, 'existing WAL files are opened with read+write only', 'the function that opens an existing WAL file can create/truncate it (%s)' % bad, nontrivial=False)
    if n == 0:
        ctx.missing('reader', 'next_block / open_file not found')


@rule('ERR4', ['C15', 'C03', 'C06'], floor=10, template='error-not-dropped')
def err4(ctx):
    """On the write path too, no I/O error is swallowed: a mutating call whose WAL write / sync / GC / file
    removal failed reports the error (otherwise bytes are written that no outcome reports, an unsynced operation
    is acknowledged, or a dead WAL file is left behind by a call that answered Ok).  Bodies shared with recovery
    (the GC pass) are checked here as well as by ERR1: they serve both properties."""
    from vocab import api_mut
    n = 0
    for b in reachable_bodies(ctx, api_mut(ctx)):
        if b.generic_dup():
            continue
        for cs in io_result_sites(ctx, b):
            n += 1
            kind, ok, why = classify_consumption(ctx, b, cs)
            ctx.check(ok, '%s:%s' % (b.path, cs.path), where(b, cs.point), '%s: %s' % (kind, why), 'I/O error swallowed on the write path (%s): %s' % (kind, why))
    if n < 10:
        ctx.missing('sites', 'expected >= 10 io-bearing call sites in the mutating API bodies (the bodies shared with recovery are covered by ERR1)')


@rule('ERR6', ['C11', 'C10'], floor=2, template='exhaustive-exit-kind')
def err6(ctx):
    """An io::Error converted into one of the crate's error enums stays an I/O error: every `From<io::Error>` impl of
    an enum with an io-carrying variant returns THAT variant, holding the error it was given, on every path. `?` on the
    recovery path goes through these conversions: one that files some error kinds (UnexpectedEof, InvalidData) under
    `Corruption` makes a short or unreadable WAL file something the replay loop skips and retries (or reports as
    damage), which is exactly what C11 excludes."""
    iob = iob_enums(ctx)
    n = 0
    for b in ctx.f.bodies.values():
        if b.is_test or 'as std::convert::From<std::io::Error>>::from' not in b.name:
            continue
        adt = b.ret_ty
        if adt not in iob:
            continue
        n += 1
        fl = flow_of(b)
        t = fl.forward(set(fl.local_sources(1)))
        bad = []
        for e in b.exits():
            ok = e['kind'] == 'value' and e.get('adt') == adt and iob[adt].get(e.get('variant')) and e.get('ops') and fl.op_tainted(e['ops'][0], t)
            if not ok:
                bad.append('%s%s' % (e.get('variant') or e['kind'], '' if e.get('variant') else ' at ' + b.loc(e['point'])))
        ctx.check(not bad, '%s:stays-io' % adt, b.span, 'From<io::Error> for %s returns the io-carrying variant holding its argument on every path' % adt.split('::')[-1],
                  'the conversion of an io::Error into %s can yield %s instead of the io-carrying variant holding the error: an I/O failure during recovery would be taken for damage (skipped, retried) or reported as something else' % (adt.split('::')[-1], ', '.join(sorted(set(bad)))))
    if n < 2:
        ctx.missing('conversions', 'expected the From<io::Error> conversions of ReadRecordError and ReadFrameError, found %d' % n)


@rule('TAINT4', ['C10'], floor=1, template='no-panicking-primitive')
def taint4(ctx):
    """No text recovered from the WAL is cut at a byte offset: in the bodies open can reach (and in the read accessors),
    outside the file-name parser whose one cut FS5 vets, there is no `str` slicing / `split_at` -- they panic when the
    offset falls inside a multi-byte character, and queue names come back from disk (possibly damaged, possibly
    `from_utf8_lossy`-repaired into 3-byte replacement characters). Bytes are cut as bytes (`&[u8]`), which cannot panic
    that way."""
    from rules_fs import name_readers, _parser_family
    skip = set()
    for rd in name_readers(ctx):
        for x in _parser_family(ctx, rd):
            skip.add(x.id)
    bodies = {}
    for b in list(recovery_bodies(ctx)) + list(api_ro(ctx)):
        bodies[b.id] = b
    for b in list(bodies.values()):
        for x in reachable_bodies(ctx, [b]):
            bodies[x.id] = x
    bad = []
    for b in bodies.values():
        if b.id in skip or b.is_test:
            continue
        for cs in b.calls:
            if re.search(r'ops::Index(Mut)?<.*> for str>::index(_mut)?$', cs.name) or re.search(r'str::traits::<impl std::ops::Index', cs.name) or \
                    re.search(r'core::str::<impl str>::(split_at|split_at_mut|get_unchecked|slice_unchecked)$', cs.name) or \
                    re.search(r'String as std::ops::Index<', cs.name) or re.search(r'std::string::String::(truncate|split_off|insert|insert_str|remove|drain|replace_range)$', cs.name):
                bad.append('%s (%s: %s)' % (b.loc(cs.point), b.path, cs.name.split('::')[-1]))
    ctx.check(not bad, 'no-str-cut', 'src/', 'no byte-offset cut of a str / String in the %d bodies reachable from open and the read accessors (name parser excepted)' % len(bodies),
              'text is cut at a byte offset on the recovery / read path (%s): a name read back from the WAL with a multi-byte character across that offset makes open (or the accessor) panic' % sorted(set(bad)))
