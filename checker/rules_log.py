"""Group LOG (§5.1): one call, one entry, logged with its memory effect; GC10."""
import re

from core import op_local, op_const_bits, op_const_named, place_fields, strip_crate, alias_paths, place_path, mem_loc
from engine import rule
from flow import flow_of
from vocab import (api_mut, open_bodies, log_sites, log_site_kinds, kinds_written, agg_field_op, where, reachable_bodies,
                   MPR, KINDS, kinds, root_bodies)
from rules_open import replay_sites, conversion_calls
from rules_gc import position_pass_facts, in_loop


def mem_call_sites(ctx, b, exclude_gc=True):
    """Points in b with a may-MEM effect (calls or direct stores), optionally without GC-pass calls."""
    out = []
    for p in ctx.E.may_sites(b, 'MEM'):
        cs = b.call_at.get(p)
        if exclude_gc and cs is not None and cs.node is not None and ctx.E.call_may(cs, 'UNLINK'):
            continue
        out.append(p)
    return out


def mem_leaves(ctx, b, points):
    """Leaf MEM bodies (bodies with a direct MEM store/borrow) reachable from the given sites."""
    leaves = set()
    for p in points:
        cs = b.call_at.get(p)
        if cs is None or cs.node is None:
            leaves.add(b.path)
            continue
        for x in reachable_bodies(ctx, [ctx.f.bodies[cs.node]]):
            if any(e == 'MEM' for (_p, e, _d) in ctx.E.direct_sites(x)):
                leaves.add(x.path)
    return leaves


@rule('LOG1', ['C01', 'C04', 'C02'], floor=4, template='must-pass-through')
def log1(ctx):
    """Every in-memory update on a success path of a mutating call is paired with a WAL entry."""
    n = 0
    for b in api_mut(ctx):
        if b.generic_dup():
            continue
        ms = mem_call_sites(ctx, b)
        if not ms:
            continue
        logs = [cs.point for cs in log_sites(ctx, b)]
        exits = [e['point'] for e in b.ok_exits()]
        bad = []
        for m in ms:
            if m in logs:
                continue
            before = m in b.reach([b.entry], avoid=logs)
            after = any(e in b.reach_after(m, avoid=logs) for e in exits)
            if before and after:
                bad.append(m)
        n += 1
        wit = None
        if bad:
            for e in exits:
                w_ = b.witness(bad[0], e, avoid=logs)
                if w_:
                    wit = {'path_from_update_to_ok': w_, 'path_from_entry_to_update': b.witness(b.entry, bad[0], avoid=logs)}
                    break
        ctx.check(not bad, '%s:mem-logged' % b.path, where(b, (bad or ms)[0]), 'every success path through an in-memory update also writes a WAL entry',
                  'an in-memory update can reach a successful return without any WAL entry being written (lost at the next restart)', detail=wit)
        # ... and the entry comes FIRST: no in-memory update is reachable before the call's WAL entry has been written.
        # The write can fail (a roll-over that cannot create its file): an update made before it stays in memory of a
        # call that returned Err with nothing logged -- records already evicted, file pins already released, the next GC
        # unlinks the file and a restart has lost them.
        early = [m for m in ms if m not in logs and m in b.reach([b.entry], avoid=logs)] if logs else []    # a wrapper logs through its callee
        ctx.check(not early, '%s:log-before-mem' % b.path, where(b, (early or ms)[0]), 'no in-memory update happens before the WAL entry of the call is written',
                  'an in-memory update (%s) happens before the WAL entry of the call is written: if the write fails the call returns an error with memory already changed and nothing logged' % (b.loc(early[0]) if early else '-'))
    if n == 0:
        ctx.missing('api', 'no mutating API body with an in-memory update found')


def replay_arms(ctx, b, cs):
    """{kind: (edge, region points)} for the replay match in open body b on read_record result cs."""
    known = alias_paths(b, cs.dest_local())
    arms = {}
    for (bi, pl, adt, edges) in b.discr_switches():
        if adt != MPR:
            continue
        for path in place_path(known, pl):
            if path[:2] == (('v', 'Ok'), ('f', '0')):
                for k in kinds(ctx):
                    if k in edges:
                        arms[k] = (edges[k], b.reach([edges[k][1]], avoid=[cs.point]))
    return arms


MAP_MUT = ('insert', 'remove', 'get_mut', 'iter_mut', 'values_mut', 'drain', 'retain', 'clear', 'entry')


def leaf_role(ctx, path):
    """Role key of a leaf mutator: for bodies that mutate the queue map itself, the set of mutating
    map primitives they use (so `create_queue` (live) and `ack_position` (replay), which both insert a
    fresh MemQueue, are comparable without naming them); any other leaf is identified by its path."""
    bs = ctx.f.by_path.get(path, [])
    if not bs:
        return ('path', path)
    b = bs[0]
    ms = set()
    for cs in b.calls:
        m = re.search(r'HashMap::<std::string::String, mem::queue::MemQueue>::(\w+)', cs.name)
        if m and m.group(1) in MAP_MUT:
            ms.add(m.group(1))
    if 'entry' in ms and any(re.search(r'hash_map::(VacantEntry|Entry)::<.*>::(insert|insert_entry|or_insert|or_insert_with|or_insert_with_key|or_default)$', cs.name) for cs in b.calls):
        # the entry API used to insert is the insert role
        ms.discard('entry')
        ms.add('insert')
    if ms:
        return ('map', frozenset(ms))
    return ('path', path)


@rule('LOG2', ['C01'], floor=4, template='sibling-agreement')
def log2(ctx):
    """Each entry kind is replayed through the same leaf mutators the live call used."""
    rs = replay_sites(ctx)
    if not rs:
        ctx.missing('replay', 'no replay loop found')
        return
    b0, cs0 = rs[0]
    arms = replay_arms(ctx, b0, cs0)
    live = {}
    for b in api_mut(ctx):
        if b.generic_dup():
            continue
        for k in kinds_written(ctx, b):
            live.setdefault(k, set()).update(mem_leaves(ctx, b, mem_call_sites(ctx, b)))
    for k in kinds(ctx):
        if k not in arms:
            ctx.bad('kind:%s' % k, where(b0, cs0.point), 'entry kind %s has no replay arm: it is written but never applied at restart' % k)
            continue
        (edge, region) = arms[k]
        pts = [p for p in ctx.E.may_sites(b0, 'MEM') if p in region]
        rl = mem_leaves(ctx, b0, pts)
        if not rl:
            ctx.bad('kind:%s' % k, where(b0, edge[1]), 'the replay arm of %s applies nothing to memory' % k)
            continue
        lv = live.get(k, set())
        rroles = [leaf_role(ctx, x) for x in rl]
        missing = []
        for x in sorted(lv):
            if x in rl:
                continue
            rx = leaf_role(ctx, x)
            if rx[0] == 'map' and any(r[0] == 'map' and rx[1] <= r[1] for r in rroles):
                continue
            missing.append(x)
        ctx.check(not missing and bool(lv), 'kind:%s' % k, where(b0, edge[1]), 'replay(%s) reaches the live leaf mutators %s' % (k, sorted(lv)),
                  'replay of %s does not reach the leaf mutator(s) %s used by the live call (live: %s, replay: %s)' % (k, missing, sorted(lv), sorted(rl)))


@rule('LOG3', ['C02', 'C12'], floor=4, template='no-cycle')
def log3(ctx):
    """One call writes one entry of its own kind: the log site is in no loop, no second one follows."""
    n = 0
    for b in api_mut(ctx):
        if b.generic_dup():
            continue
        kw = kinds_written(ctx, b)
        for k, sites in kw.items():
            for (cs, p, rv) in sites:
                n += 1
                loops = in_loop(b, cs.point)
                others = [c2 for (c2, _p, _rv) in sites if c2 is not cs and c2.point in b.reach_after(cs.point)]
                again = cs.point in b.reach_after(cs.point)
                ctx.check(not loops and not others and not again, '%s:%s' % (b.path, k), where(b, cs.point), 'single %s entry per call, outside any loop' % k,
                          'a call can write more than one %s entry (log site in a loop or followed by another): a crash between them exposes a partial operation' % k)
    if n == 0:
        ctx.missing('log-sites', 'no log site in a mutating API body')


def payload_params(b):
    """API params that are neither self, &str nor Option<u64>: the payload iterator / buffer."""
    out = []
    for i in range(2, b.arg_count + 1):
        ty = b.local_ty(i)
        if ty.startswith('&') or ty.startswith('std::option::Option<') or ty.startswith('std::ops::'):
            continue
        out.append(i)
    return out


@rule('LOG4', ['C12'], floor=1, template='provenance')
def log4(ctx):
    """The AppendRecords entry holds the whole batch: one serialiser call fed by the payload iterator itself."""
    n = 0
    for b in api_mut(ctx):
        if b.generic_dup():
            continue
        kw = kinds_written(ctx, b)
        if 'AppendRecords' not in kw:
            continue
        pps = payload_params(b)
        if not pps:
            ctx.missing('%s:payload-param' % b.path, 'no payload parameter')
            continue
        fl = flow_of(b)
        for (cs, p, rv) in kw['AppendRecords']:
            n += 1
            rop = agg_field_op(rv, 'records')
            # consumers of the payload param
            consumers = []
            for c in b.calls:
                for i, a in enumerate(c.args):
                    al = op_local(a)
                    if al is None:
                        continue
                    tr = b.trace_local(al)
                    if any(o[0] == 'param' and o[1] in pps for o in tr):
                        direct = all(o[0] == 'param' for o in tr)
                        consumers.append((c, direct))
            key = '%s:batch' % b.path
            if len(consumers) != 1:
                ctx.bad(key, where(b, cs.point), 'the payload iterator is consumed by %d calls (expected exactly one serialiser call)' % len(consumers))
                continue
            (ser, direct) = consumers[0]
            ok = direct and not in_loop(b, ser.point)
            # buffer filled by ser: its &mut Vec<u8> argument's referent
            buf_nodes = set()
            for a in ser.args:
                al = op_local(a)
                if al is not None and b.local_ty(al).startswith('&mut std::vec::Vec<u8>'):
                    buf_nodes |= set(fl._referent_nodes(al))
            t = fl.forward(buf_nodes)
            prov = rop is not None and bool(buf_nodes) and fl.op_tainted(rop, t)
            # the serialiser must be the batch serialiser: it loops over its iterator argument
            sb = ctx.f.bodies.get(ser.node) if ser.node is not None else None
            loops_inside = False
            if sb is not None:
                for x in reachable_bodies(ctx, [sb]):
                    if x.loops():
                        loops_inside = True
            ctx.check(ok and prov and loops_inside and b.dominates(ser.point, cs.point), key, where(b, cs.point),
                      'AppendRecords.records <- buffer filled by one call of the batch serialiser fed by the payload parameter itself',
                      'the AppendRecords entry may not contain the whole batch (payload iterator adapted / serialised in pieces / records not taken from the serialised buffer)')
    if n == 0:
        ctx.missing('append', 'no API body writes AppendRecords')


@rule('LOG5', ['C01', 'C02', 'C07'], floor=3, template='must-flow')
def log5(ctx):
    """The reader hands its exact position (block start + in-block cursor) to the writer."""
    n = 0
    RW = 'rolling::directory::RollingWriter'
    # (i) body that builds a RollingWriter aggregate after a SEEK
    for b in ctx.f.bodies.values():
        aggs = [(bi, si, st) for bi, blk in enumerate(b.blocks) if b.live[bi] for si, st in enumerate(blk['stmts'])
                if st['k'] == 'assign' and st['rv']['k'] == 'agg' and st['rv'].get('agg') == 'adt' and strip_crate(st['rv']['adt']) == RW]
        if not aggs:
            continue
        fl = flow_of(b)
        seeks = [cs for (p, e, cs) in ctx.E.direct_sites(b) if e == 'SEEK']
        for (bi, si, st) in aggs:
            n += 1
            p = b.pstart[bi] + si
            off = agg_field_op(st['rv'], 'offset')
            muls = [s2 for bj, blk in enumerate(b.blocks) if b.live[bj] for s2 in blk['stmts'] if s2['k'] == 'assign' and s2['rv']['k'] == 'binop' and s2['rv']['op'].startswith('Mul')]
            good_mul = None
            for m in muls:
                a, bb = m['rv']['a'], m['rv']['b']
                named = op_const_named(a) or op_const_named(bb)
                other = bb if op_const_named(a) else a
                if not (named and named.endswith('BLOCK_NUM_BYTES')):
                    continue
                back = fl.backward(set(fl.op_nodes(other)))
                if ('m', 'RollingReader.block_id') in back or any(nn[0] == 'lf' and nn[2] == 'block_id' for nn in back):
                    good_mul = m
            ok = False
            if good_mul is not None and off is not None:
                t = fl.forward(set(fl.local_sources(good_mul['place']['l'])))
                seek_ok = any(b.dominates(s.point, p) and len(s.args) > 1 and fl.op_tainted(s.args[1], t) for s in seeks)
                ok = seek_ok and fl.op_tainted(off, t)
            ctx.check(ok, '%s:block-start' % b.path, where(b, p), 'writer offset and file seek both = block_id * BLOCK_NUM_BYTES',
                      'the writer is not positioned (seek and offset) at block_id * BLOCK_NUM_BYTES of the last block read')
    # (iii) forward: SEEK by arg and offset += same arg
    fwd = []
    for b in ctx.f.bodies.values():
        if not b.path.startswith(RW):
            continue
        st_off = [(p, pl, rv) for (p, pl, rv) in b.stores if mem_loc(pl) == 'RollingWriter.offset']
        seeks = [cs for (p, e, cs) in ctx.E.direct_sites(b) if e == 'SEEK']
        if not st_off or not seeks or b.arg_count < 2:
            continue
        fl = flow_of(b)
        t = fl.forward(set(fl.local_sources(2)))
        ok = any(len(s.args) > 1 and fl.op_tainted(s.args[1], t) for s in seeks) and any(rv['k'] == 'use' and fl.op_tainted(rv['op'], t) and ('m', 'RollingWriter.offset') in fl.backward(set(fl.op_nodes(rv['op']))) for (p, pl, rv) in st_off)
        exits = [e['point'] for e in b.ok_exits()]
        must = all(not any(e in b.reach([b.entry], avoid=[x]) for e in exits) for x in [seeks[0].point, st_off[0][0]])
        n += 1
        ctx.check(ok and must, '%s:forward' % b.path, where(b, seeks[0].point), 'forward(n): seek(Current(n)) and offset += n on every success path',
                  'forward() does not both seek by its argument and add it to the offset')
        # the amount handed over is used as it is: only additions (and casts) are applied to it
        t_loc = fl.forward(set(fl.local_sources(2)), skip_mem=True)
        bad_ops = []
        for bi, blk in enumerate(b.blocks):
            if not b.live[bi]:
                continue
            for st in blk['stmts']:
                if st['k'] == 'assign' and st['rv']['k'] == 'binop' and not st['rv']['op'].startswith('Add') and st['rv']['op'] not in ('Eq', 'Ne', 'Lt', 'Le', 'Gt', 'Ge'):
                    if fl.op_tainted(st['rv']['a'], t_loc) or fl.op_tainted(st['rv']['b'], t_loc):
                        bad_ops.append(st['rv']['op'])
        ctx.check(not bad_ops, '%s:forward-unreduced' % b.path, where(b, seeks[0].point), 'the amount handed to forward() reaches seek and offset through additions only',
                  'forward() reduces or rescales the position it is given (%s) before using it: at an exact block / file alignment (cursor = BLOCK_NUM_BYTES) the writer would resume somewhere else than where the reader stopped and overwrite stored entries' % sorted(set(bad_ops)))
        if ok and must:
            fwd.append(b.id)
    # (ii) frame reader conversion must-calls forward(cursor)
    for b in ctx.f.bodies.values():
        if not b.path.startswith('frame::reader::FrameReader') or not any('frame::writer::FrameWriter' in b.ret_ty for _ in [0]):
            continue
        if not any(cs.node is not None and ctx.E.call_may(cs, 'SEEK') for cs in b.calls):
            continue
        fl = flow_of(b)
        n += 1
        calls = [cs for cs in b.calls if cs.node in fwd]
        ok = False
        for cs in calls:
            back = fl.backward(set(fl.op_nodes(cs.args[1]))) if len(cs.args) > 1 else set()
            from_cursor = any(nn[0] == 'lf' and nn[2] == 'cursor' for nn in back) or ('m', 'FrameReader.cursor') in back
            exits = [e['point'] for e in b.ok_exits()]
            must = not any(e in b.reach([b.entry], avoid=[cs.point]) for e in exits)
            if from_cursor and must:
                ok = True
        ctx.check(ok, '%s:cursor' % b.path, where(b, (calls[0].point if calls else b.entry)), 'conversion must-calls forward(self.cursor)',
                  'the frame reader does not hand its in-block cursor to the writer: new entries would overwrite the last block from its start')
        # ... and hands over EXACTLY the cursor: the reader stopped in front of the first header it could not accept (all
        # zeros: the end of the log). Resuming anywhere else -- the start of a damaged tail, a rounded position --
        # either overwrites accepted frames or leaves zero bytes in front of the new entries, which the next replay
        # reads as the end of the log.
        for cs in calls:
            afs = b.affine_alts(cs.args[1]) if len(cs.args) > 1 else None
            if not afs:
                # not an additive expression: any other arithmetic on the way (rounding, masking, scaling) is not the cursor
                def ops_of(op, d=0, seen=None):
                    seen = set() if seen is None else seen
                    out = set()
                    if op['k'] not in ('copy', 'move') or d > 12 or op['place']['l'] in seen:
                        return out
                    seen.add(op['place']['l'])
                    for (_p, kind, data) in b.defs.get(op['place']['l'], []):
                        if kind == 'assign':
                            rv = data['rv']
                            if rv['k'] in ('binop', 'unop'):
                                out.add(rv['op'].replace('WithOverflow', ''))
                                out |= ops_of(rv['a'], d + 1, seen)
                                if 'b' in rv:
                                    out |= ops_of(rv['b'], d + 1, seen)
                            elif rv['k'] in ('use', 'cast'):
                                out |= ops_of(rv['op'], d + 1, seen)
                    return out
                ops_ = sorted(ops_of(cs.args[1])) if len(cs.args) > 1 else []
                if ops_:
                    ctx.check(False, '%s:cursor-exact' % b.path, where(b, cs.point), '',
                              'the writer resumes at a position computed from the cursor (%s), not at the cursor: accepted frames would be overwritten, or a gap of zero bytes left in front of the new entries would end the log at the next replay' % ', '.join(ops_))
                continue
            def is_cursor(af):
                return af[1] == 0 and len(af[0]) == 1 and all(cf == 1 and ((k_[0] == 'mem' and k_[1] == 'FrameReader.cursor') or (k_[0] == 'proj' and str(k_[2]).endswith('.cursor'))) for (k_, cf) in af[0].items())
            blk_len = ctx.f.const_value('BLOCK_NUM_BYTES')
            # the end of the block is the one other place the reader itself would go to (when no header fits any more);
            # whether that test is the right one is CD2's business
            bad = [af for af in afs if not is_cursor(af) and not (not af[0] and blk_len is not None and af[1] == blk_len)]
            ctx.check(not bad, '%s:cursor-exact' % b.path, where(b, cs.point), 'the amount handed to forward() is the cursor itself',
                      'the writer can resume at %s, not at the reader\'s cursor: accepted frames would be overwritten, or a gap of zero bytes left in front of the new entries would end the log at the next replay' %
                      ' / '.join(' + '.join([str(k_[-1]) for k_ in sorted(af[0], key=str)] + ([str(af[1])] if af[1] or not af[0] else [])) for af in bad))
    if n < 3:
        ctx.missing('chain', 'reader->writer hand-over chain incomplete (%d of 3 links found)' % n)


@rule('GC10', ['C01', 'C03', 'C04', 'C18'], floor=2, template='ordering')
def gc10(ctx):
    """The GC position pass snapshots the queues AFTER the call's own in-memory update."""
    n = 0
    for b in list(api_mut(ctx)) + list(open_bodies(ctx)):
        if b.generic_dup():
            continue
        gcs = [cs for cs in b.calls if cs.node is not None and ctx.E.call_may(cs, 'UNLINK')]
        if not gcs:
            continue
        ms = mem_call_sites(ctx, b)
        for g in gcs:
            n += 1
            late = [m for m in ms if m in b.reach_after(g.point)]
            ctx.check(not late, '%s:mem-before-gc' % b.path, where(b, g.point), 'no in-memory update of this call happens after its GC pass',
                      'an in-memory update (%s) happens after the GC pass has recorded queue positions: the positions logged before file deletion describe a state this call then changes (e.g. a deleted queue is re-created at restart)' % (b.loc(late[0]) if late else '-'))
            # ... and the call's OWN WAL entry is written before its GC pass: the files the pass unlinks are superseded by that
            # entry (a DeleteQueue / Truncate written after the unlinks leaves a window in which the files are gone and
            # nothing says why: a crash there recovers a queue with a hole at its head)
            own = [cs.point for cs in log_sites(ctx, b)] if b in list(api_mut(ctx)) else []
            if own:
                after_gc = [p for p in own if p in b.reach_after(g.point) and not b.dominates(p, g.point)]
                ctx.check(not after_gc, '%s:entry-before-gc' % b.path, where(b, g.point), 'the call writes its own WAL entry before its GC pass',
                          'the WAL entry of the call is written after its GC pass (%s): files are unlinked before the entry that supersedes them exists' % (b.loc(after_gc[0]) if after_gc else '-'))
    if n == 0:
        ctx.missing('gc-callers', 'no API body calls the GC pass')


@rule('LOG6', ['C01', 'C02', 'C04'], floor=2, template='sibling-agreement')
def log6(ctx):
    """What a call logs is what it does: the arguments of the WAL entry and the arguments of the in-memory mutator of
    the same call are the same values -- the queue name, and for a truncation the range itself, not a clamped,
    normalised or recomputed copy on either side (replay would then do something else than the live call did)."""
    from core import op_local
    n = 0
    def origin_ids(b, op):
        ol = op_local(op)
        if ol is None:
            return frozenset([('const', json_key(op))])
        ids = set()
        seen, work = set(), [ol]
        while work:
            l = work.pop()
            if l in seen:
                continue
            seen.add(l)
            for o in b.trace_local(l):
                if o[0] == 'param':
                    ids.add(('param', o[1]))
                elif o[0] == 'call':
                    # content-preserving views of a parameter count as the parameter
                    if o[1].name.split('::')[-1].split('<')[0] in ('deref', 'as_ref', 'borrow', 'as_str', 'clone') and o[1].arg_local(0) is not None:
                        work.append(o[1].arg_local(0))
                    else:
                        ids.add(('call', o[1].name.split('::')[-1]))
                elif o[0] == 'rv' and o[2]['k'] == 'ref' and not [e for e in o[2]['place']['p'] if e['k'] != 'deref']:
                    work.append(o[2]['place']['l'])
                elif o[0] == 'rv':
                    ids.add(('rv', o[2]['k'], o[2].get('adt') or o[2].get('op')))
                elif o[0] == 'place':
                    ids.add(('place', o[2]['l']))
                elif o[0] == 'const':
                    ids.add(('const', 0))
        return frozenset(ids)
    def json_key(op):
        return str(op.get('bits') or op.get('text'))
    for b in api_mut(ctx):
        if b.generic_dup():
            continue
        kw = kinds_written(ctx, b)
        mem_calls = [cs for cs in b.calls if cs.node is not None and ctx.E.call_may(cs, 'MEM') and ctx.f.bodies[cs.node].path.startswith('mem::')]
        for kind, sites in kw.items():
            for (cs, p, rv) in sites:
                for fname in ('truncate_range', 'queue'):
                    fop = agg_field_op(rv, fname)
                    if fop is None or op_local(fop) is None:
                        continue
                    fty = b.local_ty(op_local(fop))
                    cands = [(mc, a) for mc in mem_calls for a in mc.args[1:] if op_local(a) is not None and b.local_ty(op_local(a)) == fty]
                    if not cands:
                        continue
                    n += 1
                    want = origin_ids(b, fop)
                    ok = any(origin_ids(b, a) == want for (_mc, a) in cands) and all(i[0] == 'param' for i in want)
                    ctx.check(ok, '%s:%s:%s' % (b.path, kind, fname), where(b, p), 'the %s logged is the argument itself, and the in-memory mutator gets the same' % fname,
                              'the %s written to the WAL entry and the one applied in memory are not the same value (logged from %s): replay would not repeat what the live call did' % (fname, sorted(map(str, want))))
    if n == 0:
        ctx.missing('entries', 'no logged entry with arguments shared with an in-memory mutator found')
