#!/bin/bash
# dev: mut.sh <patch> RULE...   run rules against a patched scratch copy
P="$1"; shift
W=/verif/.work/mut.$$
/verif/checker/scratch.sh "$P" "$W" lib 2>&1 | grep -E "error|PATCH-FAILED" | head -5
python3 /verif/checker/dev.py "$W/facts/mrecordlog.facts.json" "$@" | grep -v "^  ok " 
rm -rf "$W"
