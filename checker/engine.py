"""Rule registry, result records, per-property aggregation."""
import json
import os
from collections import defaultdict

from core import Facts
from effects import Effects

RULES = {}       # rule id -> dict(fn, floor, template, doc)
PROP_RULES = defaultdict(list)   # property id -> [rule ids]


def rule(rid, props, floor=1, template='', doc=''):
    def deco(fn):
        RULES[rid] = {'fn': fn, 'floor': floor, 'template': template, 'doc': doc or (fn.__doc__ or '').strip()}
        for p in props:
            if rid not in PROP_RULES[p]:
                PROP_RULES[p].append(rid)
        return fn
    return deco


class R:
    """One evaluated rule instance."""
    __slots__ = ('rule', 'key', 'status', 'where', 'msg', 'nontrivial', 'detail')

    def __init__(self, rule, key, status, where, msg, nontrivial=True, detail=None):
        self.rule = rule
        self.key = key
        self.status = status      # 'ok' | 'violation' | 'anchor-missing'
        self.where = where
        self.msg = msg
        self.nontrivial = nontrivial
        self.detail = detail

    def fullkey(self):
        return '%s:%s' % (self.rule, self.key)

    def to_json(self):
        return {'rule': self.rule, 'key': self.key, 'status': self.status, 'where': self.where, 'msg': self.msg,
                'path_query': self.nontrivial, 'detail': self.detail}


class Ctx:
    def __init__(self, facts, cli_facts=None, test_facts=None):
        self.f = facts
        self.E = Effects(facts)
        self.cli = cli_facts
        self.test = test_facts
        self.results = []
        self.cur_rule = None

    # helpers to emit results
    def ok(self, key, where, msg, nontrivial=True, detail=None):
        self.results.append(R(self.cur_rule, key, 'ok', where, msg, nontrivial, detail))

    def bad(self, key, where, msg, detail=None):
        self.results.append(R(self.cur_rule, key, 'violation', where, msg, True, detail))

    def missing(self, key, msg):
        self.results.append(R(self.cur_rule, key, 'anchor-missing', '-', msg, False))

    def check(self, cond, key, where, okmsg, badmsg, nontrivial=True, detail=None):
        if cond:
            self.ok(key, where, okmsg, nontrivial, detail)
        else:
            self.bad(key, where, badmsg, detail)
        return cond

    # common lookups
    def fn(self, suffix):
        """Instances of the function whose def path ends with suffix."""
        bs = self.f.instances(suffix)
        if not bs:
            # the function was renamed (same parent, same signature: inline.effective_known): follow it
            for old, new in (getattr(self.f, 'inline_report', {}) or {}).get('renamed', {}).items():
                if old == suffix or old.endswith('::' + suffix):
                    bs = self.f.instances(new)
                    if bs:
                        break
        return bs

    def require_fn(self, suffix):
        bs = self.fn(suffix)
        if not bs:
            self.missing('fn:' + suffix, 'anchor function %s not found in the monomorphic call graph' % suffix)
        return bs


def run_rules(ctx, rule_ids):
    """Run the given rules; returns {rule id: [R...]} and enforces floors."""
    out = {}
    for rid in rule_ids:
        spec = RULES[rid]
        ctx.cur_rule = rid
        n0 = len(ctx.results)
        try:
            spec['fn'](ctx)
        except Exception as ex:   # a crashing rule must fail closed, never pass
            import traceback
            ctx.results.append(R(rid, 'engine-error', 'anchor-missing', '-', 'rule crashed: %r\n%s' % (ex, traceback.format_exc()[-1500:]), False))
        rs = ctx.results[n0:]
        inst = [r for r in rs if r.status in ('ok', 'violation')]
        if len(inst) < spec['floor']:
            ctx.results.append(R(rid, 'floor', 'anchor-missing', '-',
                                 'rule matched %d instance(s), fewer than the %d confirmed by hand: anchors moved or were renamed; failing closed' % (len(inst), spec['floor']), False))
        out[rid] = ctx.results[n0:]
    ctx.cur_rule = None
    return out
