"""Groups NI (C14), ISO (C18), PAST/RP (C04), NU (C08/C12), MA (C16), DU1 (C06)."""
import re

from core import method_name, op_local, op_const_bits, op_const_named, place_fields, strip_crate, alias_paths, place_path, mem_loc, mem_locs, rvalue_operands, rvalue_places
from engine import rule
from flow import flow_of
from vocab import api_mut, api_ro, open_bodies, kinds_written, where, root_bodies, reachable_bodies, log_sites, agg_field_op, MRL, MPR, KINDS, callers_of
from rules_persist import consult_bodies, BW_PERSIST
from rules_open import replay_sites
from rules_log import replay_arms, mem_call_sites
from rules_gc import yields_only_empty, in_loop, cmp_bounds
from rules_bytes import gate_calls

POLICY_TYPES = ('persist_policy::PersistAction', 'persist_policy::PersistPolicy', 'persist_policy::PersistState')
LOGICAL_PREFIX = ('MemQueues.', 'MemQueue.', 'RollingBuffer.', 'RecordMeta.', 'Directory.')
LOGICAL_EXACT = {'FileTracker.files', 'RollingWriter.offset', 'RollingWriter.file_number', 'RollingWriter.directory'}


def is_logical(loc):
    return loc.startswith(LOGICAL_PREFIX) or loc in LOGICAL_EXACT


def all_nontest_bodies(ctx):
    seen = set()
    out = []
    for b in list(ctx.f.bodies.values()) + ctx.f.poly:
        if b.is_test:
            continue
        out.append(b)
    return out


def accesses_field(b, adt_suffix, field):
    pts = []
    for bi, blk in enumerate(b.blocks):
        if not b.live[bi]:
            continue
        for si, st in enumerate(blk['stmts']):
            pls = []
            if st['k'] == 'assign':
                pls.append(st['place'])
                pls.extend(rvalue_places(st['rv']))
            for pl in pls:
                for (adt, name, deref) in place_fields(pl):
                    if name == field and adt and adt.endswith(adt_suffix):
                        pts.append(b.pstart[bi] + si)
        t = blk['term']
        pls = []
        if t['k'] == 'call':
            pls += [a['place'] for a in t['args'] if a['k'] in ('copy', 'move')]
            if t.get('dest'):
                pls.append(t['dest'])
        if t['k'] == 'drop':
            pass
        if t['k'] == 'switch' and t['discr']['k'] in ('copy', 'move'):
            pls.append(t['discr']['place'])
        for pl in pls:
            for (adt, name, deref) in place_fields(pl):
                if name == field and adt and adt.endswith(adt_suffix):
                    pts.append(b.pterm[bi])
    return pts


def in_policy_module(b):
    return b.path.startswith('persist_policy::') or b.path.startswith('<persist_policy::')


@rule('NI1', ['C14'], floor=2, template='field-confinement')
def ni1(ctx):
    """The policy state is touched only by the policy-consult body and built only by open."""
    cons = {b.path for b in consult_bodies(ctx)}
    n = 0
    seen = set()
    for b in all_nontest_bodies(ctx):
        if b.path in seen:
            continue
        pts = accesses_field(b, 'MultiRecordLog', 'next_persist')
        aggs = [p for bi, blk in enumerate(b.blocks) if b.live[bi] for si, st in enumerate(blk['stmts'])
                for p in [b.pstart[bi] + si] if st['k'] == 'assign' and st['rv']['k'] == 'agg' and st['rv'].get('agg') == 'adt' and strip_crate(st['rv']['adt']) == MRL]
        if not pts and not aggs:
            continue
        seen.add(b.path)
        if aggs:
            n += 1
            is_open = re.match(r'^std::result::Result<' + re.escape(MRL) + ',', b.ret_ty) is not None
            ctx.check(is_open, '%s:constructs' % b.path, where(b, aggs[0]), 'MultiRecordLog (and its policy state) is constructed by open only',
                      'a MultiRecordLog value is constructed outside open: the policy state could be replaced', nontrivial=False)
        if pts:
            n += 1
            # consult shape: returns io::Result<()>, effect-free apart from FLUSH/FSYNC/NOW, no logical writes
            may = ctx.E.may().get(b.id, set()) if not b.poly else None
            if b.poly:
                twin = [x for x in ctx.f.by_path.get(b.path, [])]
                may = ctx.E.may().get(twin[0].id, set()) if twin else set()
                bb = twin[0] if twin else b
            else:
                bb = b
            # no WAL / memory / tracker effect in a body that touches the policy state (its return type is
            # constrained by NI5 for the bodies the mutating API calls)
            shape = not (may & {'WRITE', 'UNLINK', 'CREATE', 'SETLEN', 'SEEK', 'MEM', 'TRACK', 'OPENRW'})
            ctx.check(shape, '%s:reads-policy' % b.path, where(b, pts[0]), 'policy state accessed in a body with only flush/fsync/clock effects',
                      'the persist policy state is read in a body that also has WAL / memory effects or returns data (%s, effects %s): the policy could influence logical behaviour' % (b.ret_ty, sorted(may)))
    if n < 2:
        ctx.missing('accesses', 'expected the consult body and the constructor to access MultiRecordLog.next_persist')


@rule('NI2', ['C14'], floor=1, template='no-flow')
def ni2(ctx):
    """open's PersistPolicy parameter flows only into the conversion that builds the policy state."""
    n = 0
    for b in open_bodies(ctx):
        pis = [i for i in range(1, b.arg_count + 1) if b.local_ty(i) == 'persist_policy::PersistPolicy']
        for pi in pis:
            n += 1
            uses = []
            aliases = alias_paths(b, pi)
            for bi, blk in enumerate(b.blocks):
                if not b.live[bi]:
                    continue
                for si, st in enumerate(blk['stmts']):
                    if st['k'] == 'assign':
                        for pl in rvalue_places(st['rv']):
                            if pl['l'] in aliases:
                                # plain copies/moves of the whole value are aliases themselves
                                if st['rv']['k'] == 'use' and not st['place']['p'] and not pl['p']:
                                    continue
                                uses.append(('stmt', b.pstart[bi] + si))
                t = blk['term']
                if t['k'] == 'call':
                    for a in t['args']:
                        if a['k'] in ('copy', 'move') and a['place']['l'] in aliases:
                            uses.append(('call', b.pterm[bi]))
                if t['k'] == 'switch' and t['discr']['k'] in ('copy', 'move') and t['discr']['place']['l'] in aliases:
                    uses.append(('switch', b.pterm[bi]))
            bad = []
            conv = None
            for (k, p) in uses:
                cs = b.call_at.get(p)
                if k == 'call' and cs is not None and (cs.name.startswith('<persist_policy::PersistPolicy as std::convert::Into<persist_policy::PersistState>>::into') or cs.name.startswith('<persist_policy::PersistState as std::convert::From<persist_policy::PersistPolicy>>::from')):
                    conv = cs
                    continue
                if k == 'call' and cs is not None and cs.node is not None and re.match(r'^std::result::Result<' + re.escape(MRL) + ',', b.local_ty(cs.dest_local() or 0) if cs.dest_local() is not None else ''):
                    continue   # forwarded to the other open
                if k == 'call' and cs is not None and cs.dest_local() == 0 and cs.node is not None:
                    continue
                bad.append(b.loc(p))
            dest_ok = True
            if conv is not None:
                fl = flow_of(b)
                t = fl.forward(set(fl.call_result_nodes(conv)))
                # the state goes into the next_persist field of the MultiRecordLog aggregate only
                dl = conv.dest_local()
                al2 = alias_paths(b, dl) if dl is not None else {}
                for bi, blk in enumerate(b.blocks):
                    if not b.live[bi]:
                        continue
                    for st in blk['stmts']:
                        if st['k'] == 'assign' and st['rv']['k'] == 'agg' and st['rv'].get('agg') == 'adt':
                            for nm, o in zip(st['rv'].get('fields', []), st['rv']['ops']):
                                if o['k'] in ('copy', 'move') and o['place']['l'] in al2 and not (strip_crate(st['rv']['adt']) == MRL and nm == 'next_persist'):
                                    dest_ok = False
                    t2 = blk['term']
                    if t2['k'] == 'call' and b.call_at[b.pterm[bi]] is not conv:
                        for a in t2['args']:
                            if a['k'] in ('copy', 'move') and a['place']['l'] in al2:
                                dest_ok = False
            ctx.check(not bad and dest_ok and (conv is not None or not uses or all(True for _ in uses)), '%s:policy-param' % b.path, b.span,
                      'the policy parameter is only converted into the policy state (or forwarded to open_with_prefs)',
                      'open inspects or uses its PersistPolicy argument outside the conversion into the policy state (at %s): recovery or logical state could depend on the policy' % bad)
    if n == 0:
        ctx.missing('policy-param', 'no open body takes a PersistPolicy')


@rule('NI3', ['C14'], floor=4, template='control-confinement')
def ni3(ctx):
    """Branches on policy-typed values and clock reads live only in persist_policy.rs, the consult
    body and the block writer's persist."""
    cons = {b.path for b in consult_bodies(ctx)}
    n = 0
    seen = set()
    for b in all_nontest_bodies(ctx):
        allowed = in_policy_module(b) or b.path in cons or b.name == BW_PERSIST or (b.poly and b.path == '<rolling::directory::RollingWriter as block_read_write::BlockWrite>::persist')
        for bi, blk in enumerate(b.blocks):
            if not b.live[bi]:
                continue
            t = blk['term']
            hits = []
            if t['k'] == 'switch':
                c = b.switch_cond(bi)
                if c and c['kind'] == 'discr' and (c.get('adt') in POLICY_TYPES):
                    hits.append('switch on %s' % c['adt'].split('::')[-1])
                if c and c['kind'] == 'bool':
                    for o in c['origin']:
                        if o[0] == 'call' and o[1].args:
                            al = o[1].arg_local(0)
                            ty = b.local_ty(al) if al is not None else ''
                            if any(pt in ty for pt in POLICY_TYPES) and o[1].dest_local() is not None and b.local_ty(o[1].dest_local()) == 'bool':
                                hits.append('branch on %s' % o[1].path.split('::')[-1])
            if t['k'] == 'call':
                cs = b.call_at.get(b.pterm[bi])
                if cs is not None and cs.name in ('std::time::Instant::now', 'std::time::SystemTime::now'):
                    hits.append('clock read')
            for h in hits:
                key = '%s:%s' % (b.path, h)
                if key in seen:
                    continue
                seen.add(key)
                n += 1
                ctx.check(allowed, key, where(b, b.pterm[bi]), '%s inside the policy module / consult body / persist implementation' % h,
                          '%s outside persist_policy.rs, the policy-consult body and the persist implementation: logical behaviour can depend on the policy or the clock' % h, nontrivial=False)
    if n == 0:
        ctx.missing('policy-branches', 'no branch on a policy-typed value found at all')


@rule('NI4', ['C14'], floor=2, template='purity')
def ni4(ctx):
    """persist() and the policy state methods have no logical effect."""
    mw = ctx.E.maywrite()
    may = ctx.E.may()
    n = 0
    for b in root_bodies(ctx):
        if b.path == MRL + '::persist':
            n += 1
            w = sorted(x for x in mw[b.id] if is_logical(x))
            e = sorted(may[b.id] & {'WRITE', 'UNLINK', 'CREATE', 'SETLEN', 'SEEK', 'MEM', 'TRACK', 'OPENRW'})
            ctx.check(not w and not e, '%s:pure' % b.path, b.span, 'persist() writes no logical field and has only flush/fsync effects',
                      'persist() has logical effects (fields %s, effects %s): calling it (or not, depending on the policy) would change behaviour' % (w, e))
    for b in consult_bodies(ctx):
        if b in open_bodies(ctx):
            continue
        n += 1
        w = sorted(x for x in mw[b.id] if is_logical(x))
        e = sorted(may[b.id] & {'WRITE', 'UNLINK', 'CREATE', 'SETLEN', 'SEEK', 'MEM', 'TRACK', 'OPENRW'})
        ctx.check(not w and not e, '%s:pure' % b.path, b.span, 'the consult body writes no logical field and has only flush/fsync/clock effects',
                  'the policy-consult body has logical effects (fields %s, effects %s)' % (w, e))
    for b in ctx.f.bodies.values():
        if b.path.startswith('persist_policy::PersistState::') and not b.is_closure:
            n += 1
            w = sorted(x for x in mw[b.id] if not x.startswith('PersistState.'))
            ctx.check(not w, '%s:confined' % b.path, b.span, 'writes only PersistState fields', 'a PersistState method writes outside PersistState: %s' % w, nontrivial=False)
    if n < 2:
        ctx.missing('persist', 'MultiRecordLog::persist / consult body not found')


@rule('NI5', ['C14'], floor=2, template='shape')
def ni5(ctx):
    """The consult body returns io::Result<()> and its callers only `?` it."""
    n = 0
    for b in consult_bodies(ctx):
        if b in open_bodies(ctx):
            continue
        for (cb, cs) in callers_of(ctx, b):
            if cb.generic_dup():
                continue
            n += 1
            tried = any(e['kind'] == 'err_prop' and (e.get('call') is cs or cs in e.get('calls', ())) for e in cb.exits())
            if not tried and cs.dest_local() is not None:
                # explicit spelling of `?`: `if let Err(e) = consult() { return Err(Conv(e)) }` -- the failure edge only
                # leads to error exits, the success edge carries no data (the payload is ())
                from core import result_edges
                re_ = result_edges(cb, cs.dest_local())
                if re_['err']:
                    tried = True
                    for ed in re_['err']:
                        r_ = cb.reach([ed[1]])
                        if any(e['point'] in r_ and e['kind'] not in ('err', 'err_prop') for e in cb.exits()):
                            tried = False
            # the Continue payload () is not used for anything
            ctx.check(tried and b.ret_ty == 'std::result::Result<(), std::io::Error>', '%s<-%s' % (b.path, cb.path), where(cb, cs.point), 'consult result is io::Result<()> consumed by `?`',
                      'the policy consult returns data or its result is inspected by the caller: the policy could steer the caller')
    if n == 0:
        ctx.missing('consult-callers', 'no caller of the policy-consult body')


@rule('NI6', ['C14'], floor=1, template='type+inventory')
def ni6(ctx):
    """Buffered bytes reach the OS when the writer is dropped: the handle stays a BufWriter<File>."""
    a = ctx.f.adts.get('rolling::directory::RollingWriter')
    if not a:
        ctx.missing('adt', 'RollingWriter not found')
        return
    ft = [f['ty'] for f in a['variants'][0]['fields'] if f['name'] == 'file']
    ctx.check(ft == ['std::io::BufWriter<std::fs::File>'], 'file-type', a['span'], 'RollingWriter.file : BufWriter<File> (Drop flushes)', 'RollingWriter.file is no longer a BufWriter<File> (%s)' % ft, nontrivial=False)
    esc = []
    for b in all_nontest_bodies(ctx):
        for (p, e, cs) in ctx.E.direct_sites(b):
            if e in ('BUFESCAPE', 'LEAK'):
                esc.append('%s@%s' % (cs.name, b.loc(p)))
    ctx.check(not esc, 'no-escape', '-', 'BufWriter::into_parts/into_inner and leak primitives are never used', 'the buffered writer can be dismantled or leaked without flushing: %s' % esc, nontrivial=False)


@rule('NI7', ['C14'], floor=2, template='inventory')
def ni7(ctx):
    """Soundness side-conditions of the write-set / flow analyses."""
    ctx.check(ctx.f.j['unsafe_blocks'] == 0, 'no-unsafe', '-', 'no unsafe block in the crate', '%d unsafe block(s): field write sets are no longer sound' % ctx.f.j['unsafe_blocks'], nontrivial=False)
    bad = []
    for p, a in ctx.f.adts.items():
        if a.get('is_test_item'):
            continue
        short = p.split('::')[-1]
        for v in a['variants']:
            for f in v['fields']:
                loc = '%s.%s' % (short, f['name'])
                if is_logical(loc) or short in ('MultiRecordLog', 'FileNumber', 'FileTracker', 'RollingWriter', 'FrameWriter', 'RecordWriter'):
                    if re.search(r'\b(Cell|RefCell|Mutex|RwLock|Atomic\w+|UnsafeCell|OnceCell|OnceLock)\b', f['ty']):
                        bad.append('%s: %s' % (loc, f['ty']))
    ctx.check(not bad, 'no-interior-mutability', '-', 'no Cell/RefCell/Mutex/Atomic in logical state', 'interior mutability in logical state: %s' % bad, nontrivial=False)


# ------------------------------------------------------------------------------------------------
# ISO

def str_origins(b, l, depth=0, seen=None):
    """Where a &str local comes from: list of ('param', i) | ('place', place) | ('call', cs) | ('other',)"""
    if seen is None:
        seen = set()
    if l in seen or depth > 10:
        return []
    seen.add(l)
    ds = b.defs.get(l, [])
    if not ds:
        return [('param', l)] if 1 <= l <= b.arg_count else [('other',)]
    out = []
    for (p, kind, data) in ds:
        if kind == 'call':
            out.append(('call', data))
        elif kind == 'assign' and not data['place']['p']:
            rv = data['rv']
            pl = None
            if rv['k'] == 'use' and rv['op']['k'] in ('copy', 'move'):
                pl = rv['op']['place']
            elif rv['k'] == 'ref':
                pl = rv['place']
            if pl is None:
                out.append(('other',))
                continue
            rest = [e for e in pl['p'] if e['k'] != 'deref']
            if not rest:
                out.extend(str_origins(b, pl['l'], depth + 1, seen))
            else:
                out.append(('place', pl))
        else:
            out.append(('other',))
    return out


def str_args(b, cs):
    return [(i, op_local(a)) for i, a in enumerate(cs.args) if op_local(a) is not None and b.local_ty(op_local(a)) == '&str']


@rule('ISO1', ['C18'], floor=10, template='provenance')
def iso1(ctx):
    """In every API body with a queue parameter, every queue-keyed operation uses that parameter."""
    n = 0
    cand = {}
    for x in list(root_bodies(ctx)) + [x for x in reachable_bodies(ctx, root_bodies(ctx)) if x.path.startswith(MRL)]:
        cand.setdefault(x.id, x)
    for b in cand.values():
        if b.generic_dup() or b.is_closure:
            continue
        qps = [i for i in range(1, b.arg_count + 1) if b.local_ty(i) == '&str']
        if len(qps) != 1:
            continue
        qp = qps[0]
        seen = {}
        for cs in b.calls:
            if cs.is_macro():
                continue
            if not (cs.path.startswith('mem::queues::MemQueues::') or cs.path.startswith(MRL)):
                continue
            for (i, al) in str_args(b, cs):
                n += 1
                org = str_origins(b, al)
                ok = bool(org) and all(o == ('param', qp) for o in org)
                k = '%s:%s' % (b.path, cs.path.split('::')[-1])
                seen[k] = seen.get(k, 0) + 1
                ctx.check(ok, '%s#%d' % (k, seen[k]), where(b, cs.point), 'keyed by the call\'s own queue argument', 'a queue-keyed operation does not use the queue argument of the call (origin: %s): it could touch another queue' % [o[0] for o in org])
        for bi, blk in enumerate(b.blocks):
            if not b.live[bi]:
                continue
            for si, st in enumerate(blk['stmts']):
                if st['k'] == 'assign' and st['rv']['k'] == 'agg' and strip_crate(st['rv'].get('adt', '')) == MPR and not (st.get('exp') or '').startswith('Macro'):
                    qo = agg_field_op(st['rv'], 'queue')
                    al = op_local(qo) if qo else None
                    if al is None:
                        continue
                    n += 1
                    org = str_origins(b, al)
                    ok = bool(org) and all(o == ('param', qp) for o in org)
                    ctx.check(ok, '%s:entry:%s' % (b.path, st['rv']['variant']), where(b, b.pstart[bi] + si), 'WAL entry names the call\'s own queue', 'a WAL entry is written for a queue other than the call\'s queue argument')
    if n == 0:
        ctx.missing('sites', 'no queue-keyed call site found')



def _origins(b, l, kind):
    """normalised origins of a local: ('param', i) | ('place', place) | ('other',)"""
    if l is None:
        return [('other',)]
    if kind == 'str':
        return [o if o[0] in ('param', 'place') else ('other',) for o in str_origins(b, l)]
    out = []
    for o in b.trace_local(l):
        if o[0] == 'param':
            out.append(('param', o[1]))
        elif o[0] == 'place':
            out.append(('place', o[2]))
        else:
            out.append(('other',))
    return out


def expand_arm_sites(ctx, b, region):
    """MemQueues call sites of a replay arm, looking one level into local helper fns that receive the
    queue map. Yields (host_body, CallSite, resolve) where resolve(local, kind) gives the origins of a
    host local expressed in the arm's body (helper parameters are mapped to the call-site arguments)."""
    for cs in b.calls:
        if cs.point not in region or cs.is_macro():
            continue
        if cs.path.startswith('mem::queues::MemQueues::'):
            yield (b, cs, (lambda l, kind, bb=b: _origins(bb, l, kind)))
        elif cs.node is not None and not cs.path.startswith('mem::') and any(op_local(a) is not None and 'mem::queues::MemQueues' in b.local_ty(op_local(a)) for a in cs.args):
            h = ctx.f.bodies[cs.node]
            for cs2 in h.calls:
                if not cs2.path.startswith('mem::queues::MemQueues::'):
                    continue

                def res(l, kind, h=h, cs=cs):
                    out = []
                    for o in _origins(h, l, kind):
                        if o[0] == 'param':
                            out.extend(_origins(b, cs.arg_local(o[1] - 1), kind))
                        else:
                            out.append(('other',))
                    return out
                yield (h, cs2, res)


@rule('ISO2', ['C18'], floor=6, template='provenance')
def iso2(ctx):
    """Replay applies each entry to the entry's own queue."""
    rs = replay_sites(ctx)
    if not rs:
        ctx.missing('replay', 'no replay loop')
        return
    b, cs0 = rs[0]
    arms = replay_arms(ctx, b, cs0)
    n = 0
    for k, (edge, region) in arms.items():
        seen = {}
        for (host, cs, res) in expand_arm_sites(ctx, b, region):
            for (i, al) in str_args(host, cs):
                n += 1
                org = res(al, 'str')
                ok = bool(org) and all(o[0] == 'place' and any(e['k'] == 'downcast' and e.get('variant') == k for e in o[1]['p']) and place_fields(o[1]) and place_fields(o[1])[-1][1] == 'queue' for o in org)
                kk = '%s:%s' % (k, cs.path.split('::')[-1])
                seen[kk] = seen.get(kk, 0) + 1
                ctx.check(ok, '%s#%d' % (kk, seen[kk]), where(host, cs.point), 'replay of %s is keyed by the entry\'s own queue field' % k,
                          'replay applies a %s entry to a queue other than the one named in the entry' % k)
    if n == 0:
        ctx.missing('sites', 'no keyed call in the replay arms')


WHOLE_MAP = r'HashMap::<.*?>::(iter|iter_mut|keys|values|values_mut|drain|retain|clear|into_iter|into_keys|into_values|extract_if)(::<.*>)?$'
KEYED = r'HashMap::<.*>::(get|get_mut|contains_key|insert|remove|entry|get_key_value|remove_entry)(::<.*>)?$'


@rule('ISO3', ['C18'], floor=5, template='keyed-access')
def iso3(ctx):
    """The queue map is accessed by key in keyed functions; whole-map walks are confined."""
    n = 0
    for b in ctx.f.bodies.values():
        if not b.path.startswith('mem::queues::MemQueues::') or b.is_closure:
            continue
        qps = [i for i in range(1, b.arg_count + 1) if b.local_ty(i) == '&str']
        seen = {}
        for cs in b.calls:
            if 'HashMap::<std::string::String, mem::queue::MemQueue>' not in cs.name and not re.search(r'hash_map::', cs.name):
                continue
            m = cs.name.split('::')[-1]
            k = '%s:%s' % (b.path, m)
            seen[k] = seen.get(k, 0) + 1
            key = '%s#%d' % (k, seen[k])
            if re.search(KEYED, cs.name):
                n += 1
                if len(cs.args) < 2:
                    continue
                al = op_local(cs.args[1])
                ok = False
                if al is not None and qps:
                    fl = flow_of(b)
                    back = fl.backward(set(fl.op_nodes(cs.args[1])))
                    others = [i for i in range(1, b.arg_count + 1) if i not in qps and ('l', i) in back and b.local_ty(i) in ('&str', 'std::string::String')]
                    ok = any(('l', q) in back for q in qps) and not others
                ctx.check(ok, key, where(b, cs.point), 'map accessed with the function\'s own queue argument as key', 'the queue map is accessed with a key that is not the function\'s queue argument')
            elif re.search(WHOLE_MAP, cs.name):
                n += 1
                mutating = re.search(r'::(iter_mut|values_mut|drain|retain|clear|into_iter|into_keys|into_values|extract_if)(::<.*>)?$', cs.name) is not None
                if qps:
                    ctx.bad(key, where(b, cs.point), 'a keyed function walks the whole queue map (%s): an operation on one queue can touch the others' % m)
                elif mutating:
                    ok, cnt = yields_only_empty(ctx, b)
                    ctx.check(ok, key, where(b, cs.point), 'mutable whole-map walk confined to the empty-queue yielder (items only under is_empty)',
                              'a mutable walk over all queues outside the empty-queue yielder')
                else:
                    ctx.ok(key, where(b, cs.point), 'read-only whole-map walk in a function without queue argument', nontrivial=False)
    if n == 0:
        ctx.missing('map-accesses', 'no access to MemQueues.queues found')


@rule('ISO4', ['C18', 'C01'], floor=1, template='guard')
def iso4(ctx):
    """The GC position pass only ever sees empty queues, through shared methods."""
    n = 0
    for y in ctx.f.bodies.values():
        if not y.path.startswith('mem::queues::MemQueues::') or y.is_closure:
            continue
        ok, cnt = yields_only_empty(ctx, y)
        if cnt == 0:
            continue
        n += 1
        ctx.check(ok, '%s:only-empty' % y.path, y.span, 'items are yielded only under the true edge of MemQueue::is_empty',
                  'the yielder can hand out non-empty queues: recording (and later replaying) their position would reset them')
        # consumers use the yielded &mut MemQueue only through &self calls
        for (cb, cs) in callers_of(ctx, y):
            fl = flow_of(cb)
            t = fl.forward(set(fl.call_result_nodes(cs)))
            bad = []
            for c2 in cb.calls:
                if c2.node is None or c2 is cs:
                    continue
                for a in c2.args:
                    al = op_local(a)
                    if al is not None and cb.local_ty(al).startswith('&mut mem::queue::MemQueue') and fl.op_tainted(a, t):
                        bad.append(c2.path)
            ctx.check(not bad, '%s:consumer:%s' % (y.path, cb.path), where(cb, cs.point), 'yielded queues are only read', 'the GC position pass mutates the queues it walks (%s)' % bad)
    if n == 0:
        ctx.missing('yielder', 'no empty-queue yielder found')


# ------------------------------------------------------------------------------------------------
# PAST / RP

@rule('PAST1', ['C04', 'C08'], floor=1, template='guard-dominates-use')
def past1(ctx):
    """A record is pushed into a queue only if its position is not below the next position."""
    n = 0
    for b in ctx.f.bodies.values():
        if b.generic_dup():
            continue
        pushes = [cs for cs in b.calls if re.search(r'Vec::<mem::queue::RecordMeta>::(push|insert|extend)', cs.name)]
        if not pushes:
            continue
        fl = flow_of(b)
        np = [c for c in b.calls if c.path.endswith('MemQueue::next_position')]
        t_next = set()
        for c in np:
            t_next |= fl.forward(set(fl.call_result_nodes(c)))
        # next_position() written out at the spot: a value fed by BOTH the position of a record meta and start_position
        t_last = fl.forward({('m', 'RecordMeta.position')})
        t_start = fl.forward({('m', 'MemQueue.start_position')})
        t_both = t_last & t_start
        for ps in pushes:
            n += 1
            ok = False
            for bi, blk in enumerate(b.blocks):
                if not b.live[bi] or blk['term']['k'] != 'switch':
                    continue
                c = b.switch_cond(bi)
                if not c or c['kind'] != 'bool':
                    continue
                for o in c['origin']:
                    if o[0] == 'rv' and o[2]['k'] == 'binop' and o[2]['op'] in ('Lt', 'Ge', 'Le', 'Gt'):
                        a, bb = o[2]['a'], o[2]['b']
                        e = b.bool_edges(bi)
                        if not e:
                            continue
                        # normalise to `target < next`
                        def is_next(x):
                            return fl.op_tainted(x, t_next) or fl.op_tainted(x, t_both)
                        if is_next(bb) and not is_next(a):
                            lt_edge, ge_edge = {'Lt': (e[0], e[1]), 'Ge': (e[1], e[0])}.get(o[2]['op'], (None, None))
                        elif is_next(a) and not is_next(bb):
                            lt_edge, ge_edge = {'Gt': (e[0], e[1]), 'Le': (e[1], e[0])}.get(o[2]['op'], (None, None))
                        else:
                            continue
                        if lt_edge is None:
                            continue
                        r = b.reach([lt_edge[1]])
                        exits = [x for x in b.exits() if x['point'] in r]
                        only_past = bool(exits) and all(x['kind'] == 'err' and x.get('variant') == 'Past' for x in exits)
                        if b.edge_dominates(ge_edge, ps.point) and only_past:
                            ok = True
            ctx.check(ok, '%s:push' % b.path, where(b, ps.point), 'push dominated by `target >= next_position()`; the other edge only returns Err(Past)',
                      'a record can be pushed at a position below the queue\'s next position (positions would regress or repeat)')
    if n == 0:
        ctx.missing('push', 'no push into Vec<RecordMeta> found')


@rule('PAST2', ['C04', 'C01', 'C02', 'C18'], floor=1, template='guard-dominates-use')
def past2(ctx):
    """append: an explicit position below the next position never reaches the WAL."""
    n = 0
    for b in api_mut(ctx):
        if b.generic_dup() or 'AppendRecords' not in kinds_written(ctx, b):
            continue
        gates = [g for g in gate_calls(ctx, b) if g['kind'] == 'past']
        logs = [cs.point for cs in log_sites(ctx, b)]
        n += 1
        ok = False
        for g in gates:
            lt_true = (g['op'] in ('Lt',) and g['pos_left']) or (g['op'] in ('Gt',) and not g['pos_left'])
            lt_false = (g['op'] in ('Ge',) and g['pos_left']) or (g['op'] in ('Le',) and not g['pos_left'])
            if not (lt_true or lt_false):
                continue
            past_edge = g['true'] if lt_true else g['false']
            r = b.reach([past_edge[1]])
            exits = [x for x in b.exits() if x['point'] in r]
            only_past = bool(exits) and all(x['kind'] == 'err' and x.get('variant') == 'Past' for x in exits)
            if only_past and not any(lp in r for lp in logs):
                ok = True
        ctx.check(ok, '%s:past-gate' % b.path, b.span, '`position < next_position` leads only to Err(Past), never to the WAL write',
                  'an append with an explicit position below the next position can be logged')
    if n == 0:
        ctx.missing('append', 'no API body writes AppendRecords')


@rule('PAST3', ['C04'], floor=1, template='provenance')
def past3(ctx):
    """The position logged and applied is the explicit one or else the queue's next position."""
    n = 0
    for b in api_mut(ctx):
        if b.generic_dup():
            continue
        kw = kinds_written(ctx, b)
        if 'AppendRecords' not in kw:
            continue
        fl = flow_of(b)
        from vocab import next_position_calls
        np_calls = next_position_calls(ctx, b)
        t_next = set()
        for cs in np_calls:
            t_next |= fl.forward(set(fl.call_result_nodes(cs)))
        opt_params = [i for i in range(1, b.arg_count + 1) if b.local_ty(i) == 'std::option::Option<u64>']
        t_pos = fl.forward({x for i in opt_params for x in fl.local_sources(i)})
        for (cs, p, rv) in kw['AppendRecords']:
            n += 1
            po = agg_field_op(rv, 'position')
            ok = po is not None and fl.op_tainted(po, t_next) and fl.op_tainted(po, t_pos)
            # and it is not a constant / something else: its definition is a call taking both
            al = op_local(po) if po else None
            via = [o for o in b.trace_local(al)] if al is not None else []
            shaped = any(o[0] == 'call' and re.search(r'Option::<u64>::(unwrap_or|unwrap_or_else|map_or|map_or_else)', o[1].name) for o in via) or \
                any(o[0] == 'place' for o in via)
            ctx.check(ok and shaped, '%s:entry-position' % b.path, where(b, p), 'entry position = position_opt.unwrap_or(next_position)',
                      'the position written to the WAL entry is not (explicit position or else the queue\'s next position)')
            # the serialiser (records) gets the same position
            sers = [c for c in b.calls if c.node is not None and any(op_local(a) is not None and b.local_ty(op_local(a)).startswith('&mut std::vec::Vec<u8>') for a in c.args) and b.dominates(c.point, cs.point)]
            same = any(any(fl.op_tainted(a, t_next) and fl.op_tainted(a, t_pos) for a in c.args if op_local(a) is not None and b.local_ty(op_local(a)) == 'u64') for c in sers)
            ctx.check(same, '%s:batch-position' % b.path, where(b, p), 'the batch serialiser numbers records from the same position', 'the records of the batch are not numbered from the entry\'s position')
    if n == 0:
        ctx.missing('append', 'no API body writes AppendRecords')


@rule('RP1', ['C04'], floor=2, template='provenance')
def rp1(ctx):
    """Replay passes the entry's own position to ack_position."""
    rs = replay_sites(ctx)
    if not rs:
        ctx.missing('replay', 'no replay loop')
        return
    b, cs0 = rs[0]
    arms = replay_arms(ctx, b, cs0)
    n = 0
    for k, (edge, region) in arms.items():
        for (host, cs, res) in expand_arm_sites(ctx, b, region):
            if cs.node is None:
                continue
            cb = ctx.f.bodies[cs.node]
            # role: MemQueues fn taking (&mut self, &str, u64) that builds a queue with_next_position
            if not (cb.path.startswith('mem::queues::MemQueues::') and cb.arg_count == 3 and cb.local_ty(3) == 'u64' and cb.ret_ty == '()'):
                continue
            n += 1
            al = cs.arg_local(2)
            org = res(al, 'val')
            ok = bool(org) and all(o[0] == 'place' and any(e['k'] == 'downcast' and e.get('variant') == k for e in o[1]['p']) and place_fields(o[1]) and place_fields(o[1])[-1][1] == 'position' for o in org)
            ctx.check(ok, '%s:%s' % (k, cs.path.split('::')[-1]), where(host, cs.point), 'position argument = the %s entry\'s own position field' % k,
                      'replay re-aligns the queue with a position that is not the one stored in the %s entry' % k)
    if n < 2:
        ctx.missing('ack-sites', 'expected 2 position re-alignment calls in the replay arms, found %d' % n)


# ------------------------------------------------------------------------------------------------
# NU

@rule('NU1', ['C08', 'C12'], floor=2, template='who-may-call')
def nu1(ctx):
    """Unchecked batch views are only built by the validating constructor and over the buffer append just serialised."""
    n = 0
    for b in all_nontest_bodies(ctx):
        if b.poly and ctx.f.by_path.get(b.path):
            continue
        for cs in b.calls:
            if not cs.path.endswith('MultiRecord::new_unchecked') and not cs.path.endswith("MultiRecord::<'_>::new_unchecked"):
                continue
            n += 1
            key = '%s:new_unchecked' % b.path
            if b.path.startswith('record::MultiRecord'):
                # validating constructor: iterates the view and leaves on the first error
                from rules_open import MR_NEXT
                validates = any(c.name == MR_NEXT for c in b.calls) and bool(b.loops())
                ctx.check(validates, key, where(b, cs.point), 'called by the validating constructor (iterates the whole batch)', 'MultiRecord builds an unchecked view without validating it')
            else:
                fl = flow_of(b)
                back = fl.backward(set(fl.op_nodes(cs.args[0])))
                sers = [c for c in b.calls if c.node is not None and c.path.endswith('MultiRecord::serialize') or (c.node is not None and "MultiRecord::<'_>::serialize" in c.path)]
                filled = False
                for c in sers:
                    for a in c.args:
                        al = op_local(a)
                        if al is not None and b.local_ty(al).startswith('&mut std::vec::Vec<u8>'):
                            if set(fl._referent_nodes(al)) & back and b.dominates(c.point, cs.point):
                                filled = True
                ctx.check(filled and b.path.startswith(MRL), key, where(b, cs.point), 'unchecked view over the buffer the batch serialiser just filled',
                          'an unchecked batch view is built over bytes that were not just produced by the batch serialiser')
    if n < 2:
        ctx.missing('sites', 'expected >= 2 call sites of MultiRecord::new_unchecked, found %d' % n)


@rule('NU2', ['C08', 'C12'], floor=1, template='provenance')
def nu2(ctx):
    """Deserialised AppendRecords entries hold a validated batch."""
    n = 0
    for b in ctx.f.bodies.values():
        if 'Serializable' not in b.name or not b.name.endswith('::deserialize') or MPR not in b.name:
            continue
        fl = flow_of(b)
        for bi, blk in enumerate(b.blocks):
            if not b.live[bi]:
                continue
            for si, st in enumerate(blk['stmts']):
                if st['k'] == 'assign' and st['rv']['k'] == 'agg' and strip_crate(st['rv'].get('adt', '')) == MPR and st['rv']['variant'] == 'AppendRecords':
                    n += 1
                    ro = agg_field_op(st['rv'], 'records')
                    back = fl.backward(set(fl.op_nodes(ro)))
                    vcalls = [c for c in b.calls if c.node is not None and c.dest_local() is not None and b.local_ty(c.dest_local()).startswith('std::result::Result<record::MultiRecord') and any(x in back for x in fl.call_result_nodes(c))]
                    unchecked = [c for c in b.calls if 'new_unchecked' in c.path and any(x in back for x in fl.call_result_nodes(c))]
                    ok = bool(vcalls) and not unchecked
                    # and only under its Ok edge: consumed through ok()? / ? / match
                    ctx.check(ok, '%s:records' % b.path, where(b, b.pstart[bi] + si), 'records <- Ok(MultiRecord::new(payload))', 'a deserialised AppendRecords entry holds a batch that was not validated as a whole')
    if n == 0:
        ctx.missing('deserialize', 'MultiPlexedRecord::deserialize / AppendRecords aggregate not found')


# ------------------------------------------------------------------------------------------------
# MA / DU

@rule('MA1', ['C16'], floor=3, template='pairing')
def ma(ctx):
    """used/allocated are built from paired len/capacity terms of the same containers."""
    qsz = ctx.fn('mem::queue::MemQueue::size')
    qcap = ctx.fn('mem::queue::MemQueue::capacity')
    if not qsz or not qcap:
        ctx.missing('queue-size', 'MemQueue::size / capacity not found')
        return
    def terms(b):
        """callee last names whose result flows to _0, with receiver field"""
        fl = flow_of(b)
        back = fl.backward({('l', 0)})
        out = []
        for cs in b.calls:
            if any(x in back for x in fl.call_result_nodes(cs)) or cs.dest_local() == 0:
                recv = None
                if cs.args:
                    al = cs.arg_local(0)
                    if al is not None:
                        for o in b.trace_local(al):
                            if o[0] == 'rv' and o[2]['k'] == 'ref':
                                f = place_fields(o[2]['place'])
                                if f:
                                    recv = f[-1][1]
                out.append((method_name(cs.name), recv, cs))
        return out
    ts, tc = terms(qsz[0]), terms(qcap[0])
    s_pairs = {(m, r) for (m, r, _c) in ts}
    c_pairs = {(m, r) for (m, r, _c) in tc}
    ok1 = ('len', 'concatenated_records') in s_pairs and ('capacity', 'concatenated_records') in c_pairs
    ok2 = ('len', 'record_metas') in s_pairs and ('capacity', 'record_metas') in c_pairs
    def meta_factor(b, tlist):
        """what the record_metas len()/capacity() term is multiplied by: ('size_of', callee name) | ('const', value)"""
        for (m, r, cs) in tlist:
            if r != 'record_metas' or m not in ('len', 'capacity') or cs.dest_local() is None:
                continue
            dl = cs.dest_local()
            for bi, blk in enumerate(b.blocks):
                if not b.live[bi]:
                    continue
                for st in blk['stmts']:
                    if st['k'] == 'assign' and st['rv']['k'] == 'binop' and st['rv']['op'].startswith('Mul'):
                        a_, b_ = st['rv']['a'], st['rv']['b']
                        for (x, y) in ((a_, b_), (b_, a_)):
                            xl = op_local(x)
                            if xl is not None and (xl == dl or any(o[0] == 'call' and o[1] is cs for o in b.trace_local(xl))):
                                if op_const_bits(y) is not None:
                                    return ('const', op_const_bits(y))
                                yl = op_local(y)
                                for o in (b.trace_local(yl) if yl is not None else []):
                                    if o[0] == 'call' and 'size_of' in o[1].name:
                                        return ('size_of', o[1].name)
                                    if o[0] == 'const' and op_const_bits(o[2]) is not None:
                                        return ('const', op_const_bits(o[2]))
        return None
    fs_, fc_ = meta_factor(qsz[0], ts), meta_factor(qcap[0], tc)
    szof_s = fs_ is not None and (fs_[0] == 'size_of' or fs_[1] > 0)
    szof_c = fc_ is not None and fs_ == fc_
    ctx.check(ok1, 'payload-pair', qsz[0].span, 'size uses concatenated_records.len(), capacity uses its capacity()', 'payload bytes are not accounted as len() in size and capacity() in capacity (size:%s capacity:%s)' % (sorted(s_pairs), sorted(c_pairs)))
    ctx.check(ok2 and szof_s and szof_c, 'metas-pair', qsz[0].span, 'size uses record_metas.len() * size_of, capacity uses record_metas.capacity() * size_of', 'record metas are not accounted as len()*size_of in size and capacity()*size_of in capacity')
    # every term of size() has its twin in capacity() and vice versa (len <-> capacity, same receiver)
    norm_s = {('capacity' if m == 'len' else m, r) for (m, r, _c) in ts if 'size_of' not in m}
    norm_c = {(m, r) for (m, r, _c) in tc if 'size_of' not in m}
    ctx.check(norm_s == norm_c, 'term-sets-agree', qsz[0].span, 'size() and capacity() are built from the same terms (len <-> capacity)',
              'size() and capacity() are not built from corresponding terms (size: %s, capacity: %s): memory_used can exceed memory_allocated' % (sorted(map(str, norm_s - norm_c)), sorted(map(str, norm_c - norm_s))))
    no_cap_in_used = not any(m == 'capacity' for (m, r, _c) in ts)
    ctx.check(no_cap_in_used, 'used-has-no-capacity', qsz[0].span, 'no capacity() term in the used figure', 'memory_used is computed from a capacity() (it would not drop when data is evicted)')
    # MemQueues::size closures: name.len()+queue.size() -> .0 ; name.capacity()+queue.capacity() -> .1
    qs = ctx.fn('mem::queues::MemQueues::size')
    if not qs:
        ctx.missing('queues-size', 'MemQueues::size not found')
        return
    b = qs[0]
    fl = flow_of(b)

    def call_terms(body, back_nodes, flb):
        out = set()
        for cs in body.calls:
            if any(x in back_nodes for x in flb.call_result_nodes(cs)) or cs.dest_local() == 0:
                if cs.name.startswith('std::string::String::') or re.search(r'^core::str::<impl str>::', cs.name):
                    out.add('String::' + method_name(cs.name))
                elif cs.path.startswith('mem::queue::MemQueue::'):
                    out.add(cs.path)
        return out

    def terms_of_nodes(back):
        """accounting terms that flow into the given flow nodes of MemQueues::size: calls made here, and calls made by
        the closures whose value (a map/fold adaptor argument) flows into them"""
        out = call_terms(b, back, fl)
        for (pp, fj) in b.fn_values:
            node = fj.get('node')
            if node not in ctx.f.bodies:
                continue
            st = b.stmt_at(pp)
            used_here = st is not None and st['k'] == 'assign' and ('l', st['place']['l']) in back
            if not used_here:
                t = b.term_at(pp)
                used_here = t is not None and t['k'] == 'call' and b.call_at.get(pp) is not None and any(x in back for x in fl.call_result_nodes(b.call_at[pp]))
            if used_here:
                cb = ctx.f.bodies[node]
                flc = flow_of(cb)
                out |= call_terms(cb, flc.backward({('l', 0)}), flc)
        return out
    ok_u = ok_c = ok_t = False
    used_key, alloc_key = '0', '1'
    U, C = {'String::len', 'mem::queue::MemQueue::size'}, {'String::capacity', 'mem::queue::MemQueue::capacity'}
    # the pair of figures: a tuple, or a two-field struct (`MemUsage { used_bytes, allocated_bytes }`), built in one
    # aggregate or filled field by field; which component is which is decided by what it is made of, not by its
    # position or name
    keys = sorted(k for k in fl.fields.get(0, ()) if '.' not in k)
    if len(keys) == 2:
        tt = [terms_of_nodes(fl.backward({('lf', 0, k)})) for k in keys]
        iu = [i for i in (0, 1) if U <= tt[i] and not (C & tt[i])]
        ic = [i for i in (0, 1) if C <= tt[i] and not (U & tt[i])]
        ok_u = len(iu) == 1
        ok_c = len(ic) == 1 and ic != iu
        ok_t = ok_u and ok_c
        if ok_t:
            used_key, alloc_key = keys[iu[0]], keys[ic[0]]
    ctx.check(ok_u and ok_c, 'name-pair', b.span, 'used adds name.len() + queue.size(); allocated adds name.capacity() + queue.capacity()', 'queue names are not accounted as len() in used and capacity() in allocated')
    # tuple order and mapping in resource_usage
    ru = [x for x in root_bodies(ctx) if x.ret_ty == 'ResourceUsage']
    if not ru:
        ctx.missing('resource_usage', 'no root returns ResourceUsage')
        return
    r = ru[0]
    flr = flow_of(r)
    okm = False
    for (p, kind, data) in r.defs.get(0, []):
        if kind == 'assign' and data['rv']['k'] == 'agg':
            agg = data['rv']
            szc = [c for c in r.calls if c.path == 'mem::queues::MemQueues::size']
            if szc:
                dl = szc[0].dest_local()
                t0 = flr.forward({('lf', dl, used_key)})
                t1 = flr.forward({('lf', dl, alloc_key)})
                u, a_ = agg_field_op(agg, 'memory_used_bytes'), agg_field_op(agg, 'memory_allocated_bytes')
                okm = u is not None and a_ is not None and flr.op_tainted(u, t0) and not flr.op_tainted(u, t1) and flr.op_tainted(a_, t1) and not flr.op_tainted(a_, t0)
                # nothing else is added to the two memory figures (they must return to the names-only baseline
                # when every queue is empty, whatever sits in write buffers)
                if okm:
                    for fo in (u, a_):
                        backf = flr.backward(set(flr.op_nodes(fo)))
                        for c in r.calls:
                            if c is not szc[0] and any(x in backf for x in flr.call_result_nodes(c)):
                                okm = False
                                extra_term = c.path
    ctx.check(okm and ok_t, 'tuple-mapping', r.span, '(used, allocated) -> memory_used_bytes, memory_allocated_bytes', 'used and allocated figures are swapped or mixed between MemQueues::size and resource_usage')


@rule('MA3', ['C16'], floor=2, template='must-call')
def ma3(ctx):
    """Emptying a queue releases its payload buffer and its metas."""
    th = ctx.fn('mem::queue::MemQueue::truncate_head')
    cl = ctx.fn('mem::rolling_buffer::RollingBuffer::clear')
    if not th or not cl:
        ctx.missing('fns', 'truncate_head / RollingBuffer::clear not found')
        return
    b = th[0]
    # the emptying path: the region where start_position is set and metas are cleared entirely
    clears = [cs for cs in b.calls if re.search(r'Vec::<mem::queue::RecordMeta>::clear$', cs.name)]
    bufclr = [cs for cs in b.calls if cs.node == cl[0].id]
    ok = bool(clears) and bool(bufclr) and all(any(b.dominates(bc.point, c.point) or b.dominates(c.point, bc.point) for bc in bufclr) for c in clears)
    ctx.check(ok, 'emptying-clears-both', b.span, 'the emptying path clears the metas and the payload buffer together', 'a queue can be emptied without releasing its payload buffer')
    c = cl[0]
    shr = [cs for cs in c.calls if re.search(r'VecDeque::<u8>::(shrink_to_fit|shrink_to)$', cs.name)]
    clr = [cs for cs in c.calls if re.search(r'VecDeque::<u8>::clear$', cs.name)]
    exits = c.return_points()
    must = bool(shr) and all(e not in c.reach([c.entry], avoid=[shr[0].point]) for e in exits) and bool(clr)
    ctx.check(must, 'clear-shrinks', c.span, 'RollingBuffer::clear = clear + shrink_to_fit', 'RollingBuffer::clear no longer releases the allocation (memory stays allocated after a queue is emptied)')


@rule('DU1', ['C06', 'C14'], floor=1, template='const-agreement')
def du1(ctx):
    """disk_used_bytes = tracked files x FILE_NUM_BYTES, the same constant files are sized with."""
    n = 0
    for b in ctx.f.bodies.values():
        if not b.path.startswith('rolling::directory::RollingWriter::') or b.ret_ty != 'usize' or b.arg_count != 1:
            continue
        fl = flow_of(b)
        muls = [st for bi, blk in enumerate(b.blocks) if b.live[bi] for st in blk['stmts'] if st['k'] == 'assign' and st['rv']['k'] == 'binop' and st['rv']['op'].startswith('Mul')]
        if not muls:
            continue
        for m in muls:
            a, bb = m['rv']['a'], m['rv']['b']
            named = op_const_named(a) or op_const_named(bb)
            other = bb if op_const_named(a) else a
            if not named:
                continue
            n += 1
            back = fl.backward(set(fl.op_nodes(other)))
            from_count = any((c.path.endswith('FileTracker::count') or (c.name.endswith('::len') and 'BTreeSet' in c.name)) and any(x in back for x in fl.call_result_nodes(c)) for c in b.calls)
            ctx.check(named.endswith('FILE_NUM_BYTES') and from_count, '%s:size' % b.path, b.span, 'size = files.count() * FILE_NUM_BYTES', 'disk usage is not (number of tracked files x FILE_NUM_BYTES)')
            # ... and nothing else: the figure is the product itself (all tracked files, each at its full size). A
            # term for "what was really written to the last file" makes the figure depend on the write cursor or, worse,
            # on the flush state of the BufWriter, i.e. on the persist policy
            prod = fl.forward({('l', m['place']['l'])}) if not m['place']['p'] else set()
            back0 = fl.backward({('l', 0)})
            extra = []
            for c in b.calls:
                if any(x in back0 for x in fl.call_result_nodes(c)) and not (c.path.endswith('FileTracker::count') or (c.name.endswith('::len') and 'BTreeSet' in c.name)) \
                        and not any(x in fl.backward(set(fl.op_nodes(other))) for x in fl.call_result_nodes(c)):
                    extra.append(method_name(c.name))
            mems = sorted(x[1] for x in back0 if x[0] == 'm' and x[1] in ('RollingWriter.offset', 'RollingWriter.file', 'RollingWriter.file_number'))
            count_adj = [st2 for bi2, blk2 in enumerate(b.blocks) if b.live[bi2] for st2 in blk2['stmts'] if st2['k'] == 'assign' and st2['rv']['k'] == 'binop' and re.match(r'^(Sub|Add)', st2['rv']['op']) and ('l', st2['place']['l']) in back0]
            ctx.check(not extra and not mems and not count_adj, '%s:size-is-the-product' % b.path, b.span, 'the disk figure is count x FILE_NUM_BYTES and nothing else',
                      'the disk figure is not just (tracked files x FILE_NUM_BYTES): it also depends on %s -- disk_used_bytes would differ from the total size of the WAL files, and with the flush state of the writer' % (extra or mems or 'an adjusted count'))
    if n == 0:
        ctx.missing('size-fn', 'no RollingWriter size function found')


@rule('RP2', ['C09', 'C04', 'C01'], floor=1, template='guard-dominates-exit')
def rp2(ctx):
    """Replaying a position record leaves an existing queue untouched only if it is empty AND already at
    exactly that position; any other state is reset (this is what makes replay tolerate a lost entry)."""
    n = 0
    for b in ctx.f.bodies.values():
        if not (b.path.startswith('mem::queues::MemQueues::') and b.arg_count == 3 and b.local_ty(3) == 'u64' and b.ret_ty == '()') or b.is_closure:
            continue
        inserts = [cs.point for cs in b.calls if re.search(r'HashMap::<.*>::insert$', cs.name)]
        if not inserts:
            continue
        n += 1
        fl = flow_of(b)
        rets = b.return_points()
        keep = [r for r in rets if r in b.reach([b.entry], avoid=inserts)]
        if not keep:
            ctx.ok('%s:keep-path' % b.path, b.span, 'every path (re)inserts the queue', nontrivial=False)
            continue
        t_next = set()
        for c in b.calls:
            if c.path.endswith('MemQueue::next_position'):
                t_next |= fl.forward(set(fl.call_result_nodes(c)), skip_mem=True)
        t_par = fl.forward(set(fl.local_sources(3)), skip_mem=True)
        eq_edges = []
        for bi, blk in enumerate(b.blocks):
            if not b.live[bi] or blk['term']['k'] != 'switch':
                continue
            c = b.switch_cond(bi)
            if c and c['kind'] == 'bool':
                for o in c['origin']:
                    if o[0] == 'rv' and o[2]['k'] == 'binop':
                        a, bb = o[2]['a'], o[2]['b']
                        rel = (fl.op_tainted(a, t_next) and fl.op_tainted(bb, t_par)) or (fl.op_tainted(bb, t_next) and fl.op_tainted(a, t_par))
                        if rel:
                            e = b.bool_edges(bi)
                            if e and o[2]['op'] == 'Eq':
                                eq_edges.append(e[0])
                            elif e and o[2]['op'] == 'Ne':
                                eq_edges.append(e[1])
        empty_edges = [te for (bi, c, te, fe, cs) in b.switches_on_call(lambda c: c.path.endswith('MemQueue::is_empty'))]
        # the keep path: reachable without any insert; it must take an equality edge and an is_empty true edge
        r_no_eq = b.reach([b.entry], avoid=inserts, avoid_edges=eq_edges)
        r_no_empty = b.reach([b.entry], avoid=inserts, avoid_edges=empty_edges)
        # the "queue does not exist" branch always inserts, so it is not in `keep`
        ok = bool(eq_edges) and bool(empty_edges) and not any(k in r_no_eq for k in keep) and not any(k in r_no_empty for k in keep)
        ctx.check(ok, '%s:keep-needs-eq-and-empty' % b.path, b.span, 'an existing queue is kept only when empty and next_position() == position',
                  'an existing queue can survive a replayed position record without being empty and exactly at that position (comparison is not an equality): a stale queue left by a lost entry is not reset and later entries fail to apply')
    if n == 0:
        ctx.missing('ack', 'no position re-alignment function (fn(&mut MemQueues, &str, u64)) with an insert found')


@rule('MA5', ['C16'], floor=2, template='pairing')
def ma5(ctx):
    """Appending stores meta and payload together; partial truncation drops metas and payload bytes together."""
    ap = ctx.fn('mem::queue::MemQueue::append_record')
    th = ctx.fn('mem::queue::MemQueue::truncate_head')
    if not ap or not th:
        ctx.missing('fns', 'MemQueue::append_record / truncate_head not found')
        return
    b = ap[0]
    push = [cs.point for cs in b.calls if re.search(r'Vec::<mem::queue::RecordMeta>::push$', cs.name)]
    ext = [cs.point for cs in b.calls if cs.node is not None and ctx.f.bodies[cs.node].path.startswith('mem::rolling_buffer::RollingBuffer::') and ctx.E.call_may(cs, 'MEM')]
    exits = [e['point'] for e in b.exits() if e['kind'] == 'ok']
    both = bool(push) and bool(ext) and all(any(b.dominates(p, e) for p in push) and any(b.dominates(p, e) for p in ext) for e in exits)
    fl = flow_of(b)
    pay = [i for i in range(1, b.arg_count + 1) if b.local_ty(i) == '&[u8]']
    flows = bool(pay) and any(cs.point in ext and len(cs.args) > 1 and ('l', pay[0]) in fl.backward(set(fl.op_nodes(cs.args[1])), skip_mem=True) for cs in b.calls)
    ctx.check(both and flows, 'append:meta-and-payload', b.span, 'Ok dominated by the meta push and by the payload being appended to the ring buffer',
              'a record can be appended without both its meta and its payload bytes being stored (accounting and reads would diverge)')
    t = th[0]
    drains = [cs.point for cs in t.calls if re.search(r'Vec::<mem::queue::RecordMeta>::drain', cs.name)]
    bufs = [cs.point for cs in t.calls if cs.node is not None and ctx.f.bodies[cs.node].path == 'mem::rolling_buffer::RollingBuffer::truncate_head']
    # every drain of the metas is accompanied by the payload cut on EVERY path: either the cut came first, or no return is
    # reached from the drain without passing it (a "not worth compacting" fast path keeps dead bytes accounted as used)
    rets_t = t.return_points()
    paired = bool(drains) and bool(bufs) and all(any(t.dominates(x, d) for x in bufs) or not any(r_ in t.reach_after(d, avoid=set(bufs)) for r_ in rets_t) for d in drains)
    rb = ctx.fn('mem::rolling_buffer::RollingBuffer::truncate_head')
    dr = bool(rb) and any(re.search(r'VecDeque::<u8>::drain', cs.name) for cs in rb[0].calls)
    must_dr = False
    if rb and dr:
        c = [cs.point for cs in rb[0].calls if re.search(r'VecDeque::<u8>::drain', cs.name)]
        must_dr = not any(e in rb[0].reach([rb[0].entry], avoid=c) for e in rb[0].return_points())
    # ... and the payload is cut exactly where the first RETAINED record starts: the amount handed to the ring
    # buffer is `record_metas[k].start_offset` read with the same k the metas are drained up to (the start of the
    # last EVICTED record, or any other derived amount, leaves evicted bytes at the head of the buffer for ever)
    def ids_of(op):
        ol = op_local(op)
        if ol is None:
            return {('const', op_const_bits(op))}
        out_ = set()
        for o in t.trace_local(ol):
            if o[0] == 'call':
                out_.add(('call', o[1].point))
            elif o[0] in ('rv', 'place', 'const'):
                out_.add((o[0], o[1]))
            elif o[0] == 'param':
                out_.add(('param', o[1]))
        return out_
    cut_ok = None
    dr_calls = [cs for cs in t.calls if re.search(r'Vec::<mem::queue::RecordMeta>::drain', cs.name)]
    bf_calls = [cs for cs in t.calls if cs.node is not None and ctx.f.bodies[cs.node].path == 'mem::rolling_buffer::RollingBuffer::truncate_head']
    if dr_calls and bf_calls:
        cut_ok = False
        def range_end(cs):
            rl = cs.arg_local(1) if len(cs.args) > 1 else None
            for o in (t.trace_local(rl) if rl is not None else []):
                if o[0] == 'rv' and o[2]['k'] == 'agg' and re.search(r'ops::RangeTo$', o[2].get('adt') or '') and o[2].get('ops'):
                    return o[2]['ops'][0]
            return None
        kd = range_end(dr_calls[0])
        kb = range_end(bf_calls[0])
        if kd is not None and kb is not None:
            k_ids = ids_of(kd)
            bl = op_local(kb)
            for o in (t.trace_local(bl) if bl is not None else []):
                # a read `metas[i].start_offset` (Index call result, then the field) or `(*metas_ptr)[i].start_offset`
                if o[0] == 'place':
                    fl_ = [e for e in o[2]['p'] if e['k'] == 'field']
                    if fl_ and fl_[-1].get('name') == 'start_offset':
                        idx_ids = set()
                        for e in o[2]['p']:
                            if e['k'] == 'index':
                                idx_ids |= ids_of({'k': 'copy', 'place': {'l': e['local'], 'p': []}})
                        for o2 in t.trace_local(o[2]['l']):
                            if o2[0] == 'call' and re.search(r'Index<usize>>::index$|::index$', o2[1].name) and len(o2[1].args) > 1:
                                idx_ids |= ids_of(o2[1].args[1])
                        if (idx_ids & k_ids) and t.dominates(o[1], dr_calls[0].point):
                            cut_ok = True
    if cut_ok is not None:
        ctx.check(cut_ok, 'truncate:cut-at-first-retained', t.span, 'the payload buffer is cut at the start offset of the first retained record (read before the drain, same index)',
                  'the amount cut from the payload buffer is not the start offset of the first retained record: bytes of evicted records stay at the head of the buffer and keep being counted as used')
    # ... and the other way round: wherever truncate_head moves start_position it has evicted (or goes on to evict) the
    # metas in front of it on every path to its return -- a "nothing stored ahead, just move forward" shortcut decided
    # on the payload OFFSET leaves the metas of empty records behind: they stay counted, and they are now indexed from
    # the wrong position
    removals_t = [cs.point for cs in t.calls if re.search(r'Vec::<mem::queue::RecordMeta>::(clear|drain|truncate|split_off)', cs.name)]
    kk = 0
    for (p, pl, rv) in t.stores:
        if mem_loc(pl) != 'MemQueue.start_position':
            continue
        kk += 1
        evicted = any(t.dominates(x, p) for x in removals_t) or not any(r_ in t.reach_after(p, avoid=set(removals_t)) for r_ in rets_t)
        ctx.check(evicted, 'truncate:every-move-evicts#%d' % kk, where(t, p), 'start_position moves only together with the eviction of the metas in front of it',
                  'truncate_head can move start_position and return without evicting the record metas in front of it: the metas left behind stay counted in memory_used and are indexed from the wrong position')
    # ... and the index the metas are drained up to is what the position look-up answered -- found (`Ok(i)`) or not
    # (`Err(i)`: the insertion point, i.e. the first record AFTER a gap in the positions). A default in its place
    # (`unwrap_or_default()`: 0) evicts nothing when the truncation point falls into a gap, while start_position moves on
    for cs in t.calls:
        if not re.search(r'Vec::<mem::queue::RecordMeta>::drain', cs.name) or len(cs.args) < 2:
            continue
        rl = op_local(cs.args[1])
        for o in (t.trace_local(rl) if rl is not None else []):
            if o[0] == 'rv' and o[2]['k'] == 'agg' and re.search(r'ops::RangeTo$', o[2].get('adt') or '') and o[2]['ops']:
                alts = t.affine_alts(o[2]['ops'][0])
                if alts is None:
                    continue
                bad_alts = [a for a in alts if not (a[1] == 0 and len(a[0]) == 1 and list(a[0].values()) == [1] and any('position_to_idx' in str(k_[1]) or 'binary_search' in str(k_[1]) for k_ in a[0] if k_[0] == 'call'))]
                ctx.check(not bad_alts, 'truncate:drain-index-is-the-look-up', where(t, cs.point), 'the metas are drained up to the index the position look-up answered (found or insertion point)',
                          'the metas can be drained up to %s instead of the index the position look-up answered: with a gap in the positions nothing (or the wrong number of records) is evicted while start_position moves on' %
                          ' / '.join(' + '.join([str(k_[-1]) for k_ in sorted(a[0], key=str)] + ([str(a[1])] if a[1] or not a[0] else [])) for a in bad_alts))
    ctx.check(paired and must_dr, 'truncate:metas-and-payload', t.span, 'partial truncation drains the metas and the payload bytes together',
              'a partial truncation can drop record metas without dropping their payload bytes (or vice versa): memory_used would not drop by what was evicted')


@rule('PAST4', ['C04'], floor=2, template='must-store')
def past4(ctx):
    """Truncation moves the queue's start position to (truncate position + 1) whenever it removes records or
    empties the queue: an emptied queue keeps handing out positions after the truncation point."""
    th = ctx.fn('mem::queue::MemQueue::truncate_head')
    if not th:
        ctx.missing('truncate_head', 'MemQueue::truncate_head not found')
        return
    b = th[0]
    fl = flow_of(b)
    t_par = fl.forward(set(fl.local_sources(2)), skip_mem=True) if b.arg_count >= 2 else set()
    moves = [p for (p, pl, rv) in b.stores if mem_loc(pl) == 'MemQueue.start_position' and rv['k'] == 'use' and fl.op_tainted(rv['op'], t_par)]
    removals = [cs for cs in b.calls if re.search(r'Vec::<mem::queue::RecordMeta>::(clear|drain|truncate|split_off)', cs.name)]
    rets = b.return_points()
    n = 0
    for cs in removals:
        n += 1
        # every path through the removal to a return also stores the new start position
        before = any(b.dominates(m, cs.point) for m in moves)
        after = not any(r in b.reach_after(cs.point, avoid=moves) for r in rets)
        ctx.check(bool(moves) and (before or after), 'removal:%s#%d' % (method_name(cs.name), n), where(b, cs.point), 'removal of records paired with start_position = truncate position + 1',
                  'records can be removed (or the queue emptied) without moving start_position past the truncation point: an emptied queue would hand out already used positions')
    if n < 2:
        ctx.missing('removals', 'expected the emptying and the partial removal of record metas in truncate_head')
    # ... and the value stored IS the truncation point + 1, whatever the path: `max(next_position, point)`, `point`,
    # `next_position()` coincide with it for every truncation inside the appended range and differ exactly when the
    # caller truncates beyond it -- the truncated-to position would be handed out again (C04)
    k = 0
    for (p, pl, rv) in b.stores:
        if mem_loc(pl) != 'MemQueue.start_position' or rv['k'] != 'use':
            continue
        alts = b.affine_alts(rv['op'])
        if not alts:
            continue        # not an expression this evaluator reads; the clauses above still apply
        k += 1
        def point_plus_one(af_):
            return af_[1] == 1 and len(af_[0]) == 1 and all(kk[0] in ('param', 'proj') and kk[1] == 2 and cf == 1 for (kk, cf) in af_[0].items())
        wrong = [af_ for af_ in alts if not point_plus_one(af_)]
        (terms, c) = wrong[0] if wrong else alts[0]
        good = not wrong
        ctx.check(good, 'new-start-is-point-plus-one#%d' % k, where(b, p), 'start_position := truncation point + 1',
                  'truncate_head stores %s into start_position, not the truncation point + 1: truncating at or beyond the last appended position would leave the truncated-to position to be handed out again' %
                  (' + '.join(['%s%s' % ('' if cf == 1 else '%d*' % cf, kk[-1] if kk[0] != 'param' else '_%d' % kk[1]) for (kk, cf) in sorted(terms.items(), key=str)] + ([str(c)] if c or not terms else []))))
    # the only way to return WITHOUT moving start_position is the `start_position > truncate position` edge:
    # an empty queue truncated at or beyond its start still moves forward (positions truncated-to are never reused)
    from rules_codec import expr_leaves
    skip_edges = []
    for bj, blk in enumerate(b.blocks):
        if not b.live[bj] or blk['term']['k'] != 'switch':
            continue
        c = b.switch_cond(bj)
        if not (c and c['kind'] == 'bool'):
            continue
        for o in c['origin']:
            if not (o[0] == 'rv' and o[2]['k'] == 'binop' and o[2]['op'] in ('Lt', 'Le', 'Gt', 'Ge')):
                continue
            a_, b_ = o[2]['a'], o[2]['b']
            def reads_start(op_):
                return any(x[0] == 'place' and mem_loc(x[2]) == 'MemQueue.start_position' for x in expr_leaves(b, op_)) and not any(x[0] in ('call',) for x in expr_leaves(b, op_))
            def plain_param(op_):
                lv = expr_leaves(b, op_)
                return fl.op_tainted(op_, t_par) and not any(x[0] == 'const' for x in lv) and not any(x[0] == 'place' and mem_loc(x[2]) == 'MemQueue.start_position' for x in lv)
            op = o[2]['op']
            if reads_start(b_) and plain_param(a_):
                a_, b_ = b_, a_
                op = {'Lt': 'Gt', 'Gt': 'Lt', 'Le': 'Ge', 'Ge': 'Le'}[op]
            if not (reads_start(a_) and plain_param(b_)):
                continue
            e = b.bool_edges(bj)
            if not e:
                continue
            if op == 'Gt':
                skip_edges.append(e[0])
            elif op == 'Le':
                skip_edges.append(e[1])
    r_ = b.reach([b.entry], avoid=moves, avoid_edges=skip_edges)
    okq = bool(skip_edges) and not any(r in r_ for r in rets)
    # the map-level truncate hands every existing queue to truncate_head: no shortcut for "nothing to evict"
    for mb in ctx.f.bodies.values():
        if mb.generic_dup() or not mb.path.startswith('mem::queues::MemQueues::') or mb.is_closure:
            continue
        ths = [c for c in mb.calls if c.node == b.id]
        if not ths or not mb.ret_ty.startswith('std::option::Option<usize'):
            continue
        somes = [e for e in mb.exits() if e['kind'] == 'some']
        flm = flow_of(mb)
        t_th = set()
        for c in ths:
            t_th |= flm.forward(set(flm.call_result_nodes(c)))
        okm = bool(somes) and all(e['ops'] and flm.op_tainted(e['ops'][0], t_th) for e in somes)
        ctx.check(okm, '%s:some-is-truncate-head' % mb.path, mb.span, 'Some(n) is only ever the result of truncate_head',
                  'the queue map can answer a truncation without handing the queue to truncate_head (a shortcut for an empty queue): the queue would not move forward to the truncation point')
    ctx.check(okq, 'no-move-only-when-behind', b.span, 'start_position stays put only on the `start_position > truncate position` edge',
              'truncate_head can return without moving start_position although the truncation point is at or beyond it (e.g. on an empty queue): positions up to the truncation point would be handed out again')


@rule('MA3b', ['C16'], floor=1, template='pairing')
def ma3b(ctx):
    """Wherever a queue's record metas are dropped wholesale (clear, truncate, mem::take/replace, field
    replaced) the payload buffer is released too, on every path: an emptied queue holds no payload bytes."""
    n = 0
    for b in list(ctx.f.bodies.values()) + list(ctx.f.dropped_helpers):
        if (b.generic_dup() if b.id in ctx.f.bodies else False) or b.is_closure or not b.path.startswith('mem::queue::MemQueue::'):
            continue

        def on_field(cs, field, argi=0):
            al = cs.arg_local(argi)
            hops = 0
            while al is not None and hops < 6:
                hops += 1
                nxt = None
                for o in b.trace_local(al):
                    if o[0] == 'rv' and o[2]['k'] == 'ref':
                        f = place_fields(o[2]['place'])
                        if f and f[-1][1] == field and f[-1][2]:
                            return True
                        if not f and all(e['k'] == 'deref' for e in o[2]['place']['p']):
                            nxt = o[2]['place']['l']
                al = nxt
            return False
        drops = []
        rel = []
        for cs in b.calls:
            if re.search(r'Vec::<mem::queue::RecordMeta>::(clear|truncate)$', cs.name) and on_field(cs, 'record_metas'):
                drops.append(cs.point)
            if re.search(r'^std::mem::(take|replace|swap)::<', cs.name):
                if on_field(cs, 'record_metas'):
                    drops.append(cs.point)
                if on_field(cs, 'concatenated_records'):
                    rel.append(cs.point)
            if cs.node is not None and ctx.f.bodies[cs.node].path == 'mem::rolling_buffer::RollingBuffer::clear' and on_field(cs, 'concatenated_records'):
                rel.append(cs.point)
        for (p, pl, rv) in b.stores:
            loc = mem_loc(pl)
            f = place_fields(pl)
            if f and f[-1][1] == 'record_metas' and len([e for e in pl['p'] if e['k'] == 'field']) == 1:
                drops.append(p)
            if f and f[-1][1] == 'concatenated_records' and len([e for e in pl['p'] if e['k'] == 'field']) == 1:
                rel.append(p)
        rets = b.return_points()
        k = 0
        for d in sorted(set(drops)):
            n += 1
            k += 1
            ok = any(b.dominates(r, d) for r in rel) or (bool(rel) and not any(x in b.reach_after(d, avoid=rel) for x in rets))
            ctx.check(ok, '%s:metas-dropped#%d' % (b.path, k), where(b, d), 'dropping all record metas is paired with releasing the payload buffer',
                      'the record metas can be dropped wholesale while the payload buffer keeps its bytes: memory_used stays inflated after the queue was emptied')
    if n == 0:
        ctx.missing('drops', 'no wholesale drop of record metas found in MemQueue')


@rule('NI8', ['C14'], floor=1, template='inventory')
def ni8(ctx):
    """Policy code has no panic site that depends on policy values (a division / remainder by a
    configured quantity would make one policy panic where the others return)."""
    n = 0
    bad = []
    bad_clock = []
    cons = {b.path for b in consult_bodies(ctx)}
    for b in all_nontest_bodies(ctx):
        if not (in_policy_module(b) or b.path in cons):
            continue
        n += 1
        for bi, blk in enumerate(b.blocks):
            if not b.live[bi]:
                continue
            t = blk['term']
            if t['k'] == 'assert' and t.get('msg') in ('DivisionByZero', 'RemainderByZero'):
                bad.append('%s (%s)' % (b.loc(b.pterm[bi]), b.path))
            if t['k'] == 'call':
                cs = b.call_at.get(b.pterm[bi])
                if cs is not None and re.search(r'(::div|::rem|::div_f32|::div_f64|::checked_div|Div<.*>>::div|Rem<.*>>::rem)$', cs.name) and 'checked' not in cs.name:
                    bad.append('%s (%s: %s)' % (b.loc(cs.point), b.path, cs.name[-40:]))
                # clock arithmetic that panics on underflow / overflow / negative input (std documents each):
                # Duration - Duration, Instant - Duration, Duration * n, from_secs_f*, mul_f*; the saturating_ /
                # checked_ forms, Instant - Instant (saturates), + and comparisons are fine
                if cs is not None and re.search(r'^<std::time::(Duration|Instant|SystemTime) as std::ops::(Sub|SubAssign)(<std::time::Duration>)?>::sub(_assign)?$'
                                                r'|^<std::time::Duration as std::ops::(Mul|MulAssign)<u32>>::mul(_assign)?$|^<u32 as std::ops::Mul<std::time::Duration>>::mul$'
                                                r'|^std::time::Duration::(from_secs_f32|from_secs_f64|mul_f32|mul_f64)$', cs.name):
                    bad_clock.append('%s (%s: %s)' % (b.loc(cs.point), b.path, cs.name[-60:]))
    ctx.check(not bad_clock, 'no-panicking-clock-arithmetic', '-', 'no Duration/Instant subtraction, scaling or float conversion that can panic in the %d policy bodies' % n,
              'policy code does clock arithmetic that panics on underflow/overflow (%s): a call panics under OnDelay where the other policies return' % sorted(set(bad_clock)), nontrivial=False)
    ctx.check(not bad, 'no-division-in-policy-code', '-', 'no division / remainder in the %d policy bodies' % n,
              'policy code divides by a run-time quantity (%s): a zero interval or similar configuration panics under one policy only' % bad, nontrivial=False)
