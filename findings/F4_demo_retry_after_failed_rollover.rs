use crate::MultiRecordLog;

#[test]
fn retry_after_failed_rollover_writes_through_symlink() {
    let tmp = tempfile::tempdir().unwrap();
    let outside = tempfile::tempdir().unwrap();
    let target = outside.path().join("precious.txt");
    std::fs::write(&target, b"precious data").unwrap();
    let mut log = MultiRecordLog::open(tmp.path()).unwrap();
    log.create_queue("q").unwrap();
    // a non-regular entry named like the next wal file
    std::os::unix::fs::symlink(&target, tmp.path().join("wal-00000000000000000001")).unwrap();
    let payload = vec![7u8; 20_000];
    let mut failed = false;
    for _ in 0..40 {
        if log.append_record("q", None, &payload[..]).is_err() {
            failed = true;
            break;
        }
    }
    assert!(failed, "roll-over should fail on the symlink (create_new)");
    assert_eq!(std::fs::read(&target).unwrap(), b"precious data");
    // the caller retries
    let _ = log.append_record("q", None, &payload[..]);
    let _ = log.append_record("q", None, &payload[..]);
    assert_eq!(
        std::fs::read(&target).unwrap().len(),
        b"precious data".len(),
        "the target of the symbolic link was resized / written by the library"
    );
}
