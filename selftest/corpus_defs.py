"""Checker self-validation corpus (DESIGN §8): edits of the real crate, as (file, old, new) text
replacements turned into patches by make_mutants.py.  Every mutant compiles; `rules` lists the
rule(s) that must report it, `props` the properties whose check must fail.
REFACTORS are behaviour-preserving and must be silent for every property."""

MRL = 'src/multi_record_log.rs'
DIR = 'src/rolling/directory.rs'
FNUM = 'src/rolling/file_number.rs'
FRD = 'src/frame/reader.rs'
FWR = 'src/frame/writer.rs'
HDR = 'src/frame/header.rs'
RRD = 'src/recordlog/reader.rs'
RWR = 'src/recordlog/writer.rs'
REC = 'src/record.rs'
QS = 'src/mem/queues.rs'
Q = 'src/mem/queue.rs'
RB = 'src/mem/rolling_buffer.rs'
PP = 'src/persist_policy.rs'

MUTANTS = [
    # ---------------- GC
    dict(name='gc_no_persist_at_all', props=['C03', 'C04', 'C02', 'C01'], rules=['GC2', 'GC2w'],
         desc='delete both the conditional persist in the position pass and the unconditional one before gc()',
         edits=[(MRL, '''        if num_bytes_written > 0 {
            // We need to fsync here! We are remove files from the FS
            // so we need to make sure our empty queue positions are properly persisted.
            self.persist(PersistAction::FlushAndFsync)?;
        }
        Ok(num_bytes_written)''', '''        Ok(num_bytes_written)'''),
                (MRL, '''            self.persist(PersistAction::FlushAndFsync)?;
            self.record_log_writer.directory().gc()?;''', '''            self.record_log_writer.directory().gc()?;''')]),
    dict(name='gc_guard_dropped_at_once', props=['C01', 'C04', 'C02'], rules=['GC3'],
         desc='`let _file_number = ..clone()` -> `let _ = ..clone()`: the guard is dropped immediately',
         edits=[(MRL, 'let _file_number = self.record_log_writer.current_file().clone();', 'let _ = self.record_log_writer.current_file().clone();')]),
    dict(name='gc_without_position_pass', props=['C01', 'C04', 'C02'], rules=['GC1'],
         desc='GC without recording the positions of the empty queues',
         edits=[(MRL, '            num_bytes_written += self.record_empty_queues_position()?;\n', '')]),
    dict(name='gc_records_last_position', props=['C04', 'C01'], rules=['GC1'],
         desc='position pass records last_position().unwrap_or(0) instead of next_position()',
         edits=[(MRL, 'let next_position = queue.next_position();', 'let next_position = queue.last_position().unwrap_or(0);')]),
    dict(name='tracker_keep_zero_files', props=['C01', 'C06', 'C02'], rules=['GC4'],
         desc='take_first_unused: `< 2` -> `< 1` (the last file can be popped)',
         edits=[(FNUM, 'if self.files.len() < 2 {', 'if self.files.len() < 1 {')]),
    dict(name='tracker_no_refcount_test', props=['C01', 'C06', 'C02'], rules=['GC4'],
         desc='take_first_unused pops without can_be_deleted()',
         edits=[(FNUM, '''        let first = self.files.first().unwrap();
        if first.can_be_deleted() {
            self.files.pop_first()
        } else {
            None
        }''', '''        self.files.pop_first()''')]),
    dict(name='delete_queue_no_gc', props=['C06'], rules=['GC7'],
         desc='delete_queue no longer runs the GC pass',
         edits=[(MRL, '''        let mut num_bytes_written = self.record_log_writer.write_record(record)?;
        self.in_mem_queues.delete_queue(queue)?;
        num_bytes_written += self.run_gc_if_necessary()?;''', '''        let num_bytes_written = self.record_log_writer.write_record(record)?;
        self.in_mem_queues.delete_queue(queue)?;''')]),
    dict(name='cached_file_number_field', props=['C06'], rules=['GC9'],
         desc='MultiRecordLog caches the FileNumber of the last append in a field',
         edits=[(MRL, '''    multi_record_spare_buffer: Vec<u8>,
}''', '''    multi_record_spare_buffer: Vec<u8>,
    last_append_file: Option<crate::rolling::FileNumber>,
}'''),
                (MRL, '''            multi_record_spare_buffer: Vec::new(),
        };''', '''            multi_record_spare_buffer: Vec::new(),
            last_append_file: None,
        };'''),
                (MRL, '''        let file_number = self.record_log_writer.current_file().clone();

        let mut multi_record_spare_buffer''', '''        let file_number = self.record_log_writer.current_file().clone();
        self.last_append_file = Some(file_number.clone());

        let mut multi_record_spare_buffer''')]),
    dict(name='gc_trigger_needs_three_files', props=['C06'], rules=['GC6'],
         desc='has_files_that_can_be_deleted requires count >= 3',
         edits=[(DIR, 'self.files.count() >= 2 && self.files.first().can_be_deleted()', 'self.files.count() >= 3 && self.files.first().can_be_deleted()')]),
    dict(name='gc_unlink_skipped_on_pop', props=['C06', 'C01'], rules=['GC5'],
         desc='gc pops a file but only unlinks it when the path exists check passes (popped files may stay)',
         edits=[(DIR, '            std::fs::remove_file(&filepath)?;', '            if filepath.exists() {\n                std::fs::remove_file(&filepath)?;\n            }')]),
    dict(name='filenumber_deep_clone', props=['C01', 'C06', 'C18'], rules=['GC8'],
         desc='hand-written Clone for FileNumber that allocates a fresh Arc',
         edits=[(FNUM, '#[derive(Clone, Default, Debug, Ord, PartialOrd, Eq, PartialEq)]\npub struct FileNumber {', '''impl Clone for FileNumber {
    fn clone(&self) -> Self {
        FileNumber::new(*self.file_number)
    }
}

#[derive(Default, Debug, Ord, PartialOrd, Eq, PartialEq)]
pub struct FileNumber {''')]),
    # ---------------- OPEN / ERR
    dict(name='replay_corruption_is_fatal', props=['C09'], rules=['OP2'],
         desc='replay: Err(Corruption) => return Err(Corruption)',
         edits=[(MRL, '''                    warn!("Detected corrupted record: some data may have been lost");
                    continue;''', '''                    warn!("Detected corrupted record: some data may have been lost");
                    return Err(ReadRecordError::Corruption);''')]),
    dict(name='multirecord_new_skips_errors', props=['C10', 'C08'], rules=['MI2'],
         desc='MultiRecord::new: `record?` -> `if record.is_err() { continue }`',
         edits=[(REC, '''        for record in mrecord {
            record?;
        }''', '''        for record in mrecord {
            if record.is_err() {
                continue;
            }
        }''')]),
    dict(name='open_file_error_swallowed', props=['C11'], rules=['ERR1'],
         desc='next_block: a next file that cannot be opened is treated as end of log',
         edits=[(DIR, '            let mut next_file: File = self.directory.open_file(&next_file_number)?;', '''            let mut next_file: File = match self.directory.open_file(&next_file_number) {
                Ok(file) => file,
                Err(_) => return Ok(false),
            };''')]),
    dict(name='go_next_io_error_as_corruption', props=['C11'], rules=['ERR1'],
         desc='go_next maps an I/O error of the frame reader to Corruption',
         edits=[(RRD, '''                Err(ReadFrameError::IoError(io_err)) => {
                    self.within_record = false;
                    return Err(ReadRecordError::IoError(io_err));
                }''', '''                Err(ReadFrameError::IoError(_io_err)) => {
                    self.within_record = false;
                    return Err(ReadRecordError::Corruption);
                }''')]),
    dict(name='writer_built_on_any_break', props=['C11', 'C01'], rules=['OP3', 'ERR1', 'ERR2'],
         desc='replay: an I/O error breaks out of the loop and the writer is built from the partial read',
         edits=[(MRL, '''                Err(ReadRecordError::IoError(io_err)) => {
                    return Err(ReadRecordError::IoError(io_err));
                }''', '''                Err(ReadRecordError::IoError(_io_err)) => {
                    break;
                }''')]),
    # ---------------- REC / FR
    dict(name='rec_no_reset_on_corruption', props=['C02', 'C08', 'C12', 'C09'], rules=['REC2'],
         desc='delete `self.within_record = false` in the Corruption arm of go_next',
         edits=[(RRD, '''                Err(ReadFrameError::Corruption) => {
                    self.within_record = false;
                    return Err(ReadRecordError::Corruption);''', '''                Err(ReadFrameError::Corruption) => {
                    return Err(ReadRecordError::Corruption);''')]),
    dict(name='rec_append_unguarded', props=['C08', 'C12', 'C02'], rules=['REC1'],
         desc='drop `if self.within_record` around extend_from_slice',
         edits=[(RRD, '''                    if self.within_record {
                        self.record_buffer.extend_from_slice(frame_payload);
                        if frame_type.is_last_frame_of_record() {
                            self.within_record = false;
                            return Ok(true);
                        }
                    }''', '''                    self.record_buffer.extend_from_slice(frame_payload);
                    if frame_type.is_last_frame_of_record() {
                        self.within_record = false;
                        return Ok(true);
                    }''')]),
    dict(name='rec_no_clear_at_start', props=['C08', 'C12', 'C02'], rules=['REC4'],
         desc='the entry buffer is not cleared when a First frame starts an entry',
         edits=[(RRD, '''                        self.within_record = true;
                        self.record_buffer.clear();''', '''                        self.within_record = true;''')]),
    dict(name='crc_failure_quarantines_block', props=['C09'], rules=['FR6', 'FR9'],
         desc='a CRC failure also sets block_corrupted',
         edits=[(FRD, '''            // but the frame length was correct.
            return Err(ReadFrameError::Corruption);''', '''            // but the frame length was correct.
            self.block_corrupted = true;
            return Err(ReadFrameError::Corruption);''')]),
    dict(name='invalid_header_no_quarantine', props=['C10'], rules=['FR5'],
         desc='an invalid header no longer sets block_corrupted',
         edits=[(FRD, '''            None => {
                self.block_corrupted = true;
                Err(ReadFrameError::Corruption)''', '''            None => {
                Err(ReadFrameError::Corruption)''')]),
    dict(name='skip_block_ignores_quarantine', props=['C10'], rules=['FR7'],
         desc='need_to_skip_block without `self.block_corrupted ||`',
         edits=[(FRD, 'let need_to_skip_block = self.block_corrupted || num_bytes_to_end_of_block < HEADER_LEN;', 'let need_to_skip_block = num_bytes_to_end_of_block < HEADER_LEN;')]),
    dict(name='crc_check_only_for_large_frames', props=['C08'], rules=['FR1'],
         desc='the CRC is only checked when the payload is non-empty... and longer than 8 bytes (an "optimisation")',
         edits=[(FRD, 'if !header.check(frame_payload) {', 'if frame_payload.len() > 8 && !header.check(frame_payload) {')]),
    dict(name='crc_without_type_byte', props=['C08', 'C12'], rules=['FR2'],
         desc='crc32 no longer hashes the frame-type byte (both sides)',
         edits=[(HDR, '''    hash.update(&[frame_type]);
    hash.update(data);''', '''    let _ = frame_type;
    hash.update(data);''')]),
    dict(name='header_type_unchecked', props=['C08'], rules=['FR3'],
         desc='Header::deserialize accepts any type byte (defaults to Full)',
         edits=[(HDR, 'let frame_type = FrameType::from_u8(data[6])?;', 'let frame_type = FrameType::from_u8(data[6]).unwrap_or(FrameType::Full);')]),
    dict(name='entry_delivered_without_last', props=['C02', 'C08', 'C12'], rules=['REC3'],
         desc='go_next returns Ok(true) for any frame once within a record when the payload is empty',
         edits=[(RRD, 'if frame_type.is_last_frame_of_record() {', 'if frame_type.is_last_frame_of_record() || frame_payload.is_empty() {')]),
]

MUTANTS += [
    # ---------------- LOG
    dict(name='truncate_early_ok_before_log', props=['C01'], rules=['LOG1'],
         desc='truncate: memory first, then an early Ok when nothing was evicted, before the WAL write',
         edits=[(MRL, '''        let mut num_bytes_written =
            self.record_log_writer
                .write_record(MultiPlexedRecord::Truncate {
                    truncate_range,
                    queue,
                })?;
        let evicted_records = self
            .in_mem_queues
            .truncate(queue, truncate_range)
            .unwrap_or(0);''', '''        let evicted_records = self
            .in_mem_queues
            .truncate(queue, truncate_range)
            .unwrap_or(0);
        if evicted_records == 0 {
            return Ok(TruncateOutcome {
                evicted_records,
                wal_bytes_written: 0,
            });
        }
        let mut num_bytes_written =
            self.record_log_writer
                .write_record(MultiPlexedRecord::Truncate {
                    truncate_range,
                    queue,
                })?;''')]),
    dict(name='replay_truncate_noop', props=['C01'], rules=['LOG2'],
         desc='replay arm of Truncate does nothing',
         edits=[(MRL, '''                        in_mem_queues.truncate(queue, truncate_range);
                    }
                    MultiPlexedRecord::RecordPosition''', '''                        let _ = (queue, truncate_range);
                    }
                    MultiPlexedRecord::RecordPosition''')]),
    dict(name='forward_cursor_dropped', props=['C01', 'C02'], rules=['LOG5'],
         desc='FrameReader::into_writer no longer forwards the in-block cursor',
         edits=[(FRD, '''        let mut rolling_writer: RollingWriter = self.reader.into_writer()?;
        rolling_writer.forward(self.cursor)?;''', '''        let rolling_writer: RollingWriter = self.reader.into_writer()?;''')]),
    dict(name='delete_queue_mem_after_gc', props=['C01', 'C04'], rules=['GC10'],
         desc='delete_queue: in-memory removal moved after the GC pass and the fsync',
         edits=[(MRL, '''        self.in_mem_queues.delete_queue(queue)?;
        num_bytes_written += self.run_gc_if_necessary()?;
        self.persist(PersistAction::FlushAndFsync)?;''', '''        num_bytes_written += self.run_gc_if_necessary()?;
        self.persist(PersistAction::FlushAndFsync)?;
        self.in_mem_queues.delete_queue(queue)?;''')]),
    dict(name='append_one_entry_per_record', props=['C12', 'C02'], rules=['LOG3', 'LOG4'],
         desc='append_records writes one AppendRecords entry per record of the batch',
         edits=[(MRL, '''        let records = MultiRecord::new_unchecked(&multi_record_spare_buffer);
        let record = MultiPlexedRecord::AppendRecords {
            position,
            queue,
            records,
        };
        let num_bytes_written = self.record_log_writer.write_record(record)?;
        self.persist_on_policy()?;
''', '''        let records = MultiRecord::new_unchecked(&multi_record_spare_buffer);
        let mut num_bytes_written = 0u64;
        let mut single = Vec::new();
        for item in records {
            let (item_position, item_payload) = item.unwrap();
            MultiRecord::serialize(std::iter::once(item_payload), item_position, &mut single);
            let record = MultiPlexedRecord::AppendRecords {
                position: item_position,
                queue,
                records: MultiRecord::new_unchecked(&single),
            };
            num_bytes_written += self.record_log_writer.write_record(record)?;
        }
        self.persist_on_policy()?;
''')]),
    # ---------------- PERSIST / ROLL / SIZE
    dict(name='truncate_no_policy_consult', props=['C03'], rules=['PS2'],
         desc='drop persist_on_policy from truncate',
         edits=[(MRL, '''        num_bytes_written += self.run_gc_if_necessary()?;
        self.persist_on_policy()?;''', '''        num_bytes_written += self.run_gc_if_necessary()?;''')]),
    dict(name='create_queue_no_persist', props=['C03'], rules=['PS1'],
         desc='create_queue persists according to policy instead of always FlushAndFsync',
         edits=[(MRL, '''        let num_bytes_written = self.record_log_writer.write_record(record)?;
        self.persist(PersistAction::FlushAndFsync)?;
        self.in_mem_queues.create_queue(queue)?;''', '''        let num_bytes_written = self.record_log_writer.write_record(record)?;
        self.persist_on_policy()?;
        self.in_mem_queues.create_queue(queue)?;''')]),
    dict(name='always_policy_is_noop', props=['C03'], rules=['PS4'],
         desc='From<PersistPolicy>: Always(_) => PersistState::NoOp',
         edits=[(PP, 'PersistPolicy::Always(action) => PersistState::OnAppend(action),', 'PersistPolicy::Always(_action) => PersistState::NoOp,')]),
    dict(name='always_fsync_answers_flush', props=['C03'], rules=['PS4'],
         desc='should_persist answers Flush for OnAppend(FlushAndFsync)',
         edits=[(PP, 'PersistState::OnAppend(action) => Some(*action),', 'PersistState::OnAppend(_action) => Some(PersistAction::Flush),')]),
    dict(name='persist_sync_before_flush', props=['C03'], rules=['PS5'],
         desc='FlushAndFsync arm: sync_data before flush',
         edits=[(DIR, '''            PersistAction::FlushAndFsync => {
                self.file.flush()?;
                self.file.get_ref().sync_data()?;
                self.directory.sync_directory()''', '''            PersistAction::FlushAndFsync => {
                self.file.get_ref().sync_data()?;
                self.file.flush()?;
                self.directory.sync_directory()''')]),
    dict(name='persist_no_dirsync', props=['C03'], rules=['PS5', 'PS1'],
         desc='FlushAndFsync arm without sync_directory',
         edits=[(DIR, '''                self.file.get_ref().sync_data()?;
                self.directory.sync_directory()
            }''', '''                self.file.get_ref().sync_data()
            }''')]),
    dict(name='policy_some_skips_small', props=['C03'], rules=['PS3'],
         desc='persist_on_policy only persists when the action is an fsync ("flush happens on drop anyway")',
         edits=[(MRL, '''        if let Some(persist_action) = self.next_persist.should_persist() {
            self.persist(persist_action)?;''', '''        if let Some(persist_action) = self.next_persist.should_persist() {
            if persist_action.is_fsync() {
                self.persist(persist_action)?;
            }''')]),
    dict(name='persist_wrapper_downgrades', props=['C03'], rules=['PS7'],
         desc='RecordWriter::persist always asks the frame writer for a plain Flush',
         edits=[(RWR, 'self.frame_writer.persist(persist_action)', '{ let _ = persist_action; self.frame_writer.persist(PersistAction::Flush) }')]),
    dict(name='rollover_without_sync', props=['C02', 'C03'], rules=['ROLL1'],
         desc='roll-over without flush + sync of the old file',
         edits=[(DIR, '''            self.file.flush()?;
            self.file.get_ref().sync_data()?;
            self.directory.sync_directory()?;

            let (file_number, file) =''', '''            let (file_number, file) =''')]),
    dict(name='create_truncates_existing', props=['C02', 'C17'], rules=['SZ1'],
         desc='create_file: create_new(true) -> create(true).truncate(true)',
         edits=[(DIR, '        .create_new(true)\n        .write(true)', '        .create(true)\n        .truncate(true)\n        .write(true)')]),
    dict(name='create_without_set_len', props=['C02'], rules=['SZ1', 'SZ2'],
         desc='create_file without set_len',
         edits=[(DIR, '    file.set_len(FILE_NUM_BYTES as u64)?;\n    file.seek(SeekFrom::Start(0))?;', '    file.seek(SeekFrom::Start(0))?;')]),
    dict(name='second_writer_in_forward', props=['C02', 'C15'], rules=['W1'],
         desc='forward() zero-fills the skipped bytes with a direct write',
         edits=[(DIR, '''        self.file.seek(SeekFrom::Current(num_bytes as i64))?;
        self.offset += num_bytes;''', '''        self.file.write_all(&vec![0u8; num_bytes])?;
        self.offset += num_bytes;''')]),
]

LIB = 'src/lib.rs'
BRW = 'src/block_read_write.rs'
MUTANTS += [
    # ---------------- BYTES
    dict(name='bytes_padding_not_counted', props=['C15'], rules=['BY1'], desc='write_frame does not count the zero padding',
         edits=[(FWR, '            num_bytes_written += num_bytes_remaining_in_block;\n', '')]),
    dict(name='bytes_gc_not_counted', props=['C15'], rules=['BY3'], desc='truncate drops the bytes written by the GC pass',
         edits=[(MRL, '        num_bytes_written += self.run_gc_if_necessary()?;\n        self.persist_on_policy()?;', '        self.run_gc_if_necessary()?;\n        self.persist_on_policy()?;'),
                (MRL, '        let mut num_bytes_written =\n            self.record_log_writer\n                .write_record(MultiPlexedRecord::Truncate {', '        let num_bytes_written =\n            self.record_log_writer\n                .write_record(MultiPlexedRecord::Truncate {')]),
    dict(name='bytes_frame_header_not_counted', props=['C15'], rules=['BY2'], desc='write_record counts payload bytes instead of what write_frame reports',
         edits=[(RWR, '            num_bytes_written += self.frame_writer.write_frame(frame_type, frame_payload)? as u64;', '            self.frame_writer.write_frame(frame_type, frame_payload)?;\n            num_bytes_written += frame_payload.len() as u64;')]),
    dict(name='offset_not_advanced_on_empty_tail', props=['C15'], rules=['BY6'], desc='block writer: offset only advanced when the write does not end the block',
         edits=[(DIR, '        self.offset += buf.len();\n        self.file.write_all(buf)?;', '        self.file.write_all(buf)?;\n        if buf.len() < self.num_bytes_remaining_in_block() {\n            self.offset += buf.len();\n        }')]),
    # ---------------- QUIET
    dict(name='truncate_logs_before_check', props=['C13'], rules=['QX1'], desc='truncate writes the Truncate entry before checking that the queue exists',
         edits=[(MRL, """        if !self.queue_exists(queue) {
            return Err(TruncateError::MissingQueue(queue.to_string()));
        }
        let mut num_bytes_written =
            self.record_log_writer
                .write_record(MultiPlexedRecord::Truncate {
                    truncate_range,
                    queue,
                })?;""", """        let mut num_bytes_written =
            self.record_log_writer
                .write_record(MultiPlexedRecord::Truncate {
                    truncate_range,
                    queue,
                })?;
        if !self.queue_exists(queue) {
            return Err(TruncateError::MissingQueue(queue.to_string()));
        }""")]),
    dict(name='create_queue_logs_before_check', props=['C13'], rules=['QX1', 'QX3'], desc='create_queue relies on MemQueues::create_queue to reject duplicates, after the WAL write',
         edits=[(MRL, """        if self.queue_exists(queue) {
            return Err(CreateQueueError::AlreadyExists);
        }
        let record = MultiPlexedRecord::RecordPosition { queue, position: 0 };""", """        let record = MultiPlexedRecord::RecordPosition { queue, position: 0 };""")]),
    dict(name='empty_batch_is_logged', props=['C13'], rules=['QX3'], desc='the empty-batch early return is removed',
         edits=[(MRL, """        if multi_record_spare_buffer.is_empty() {
            self.multi_record_spare_buffer = multi_record_spare_buffer;
            // empty transaction: don't persist it
            return Ok(AppendOutcome {
                last_position: None,
                wal_bytes_written: 0,
            });
        }
""", "")]),
    dict(name='retry_gate_removed', props=['C13'], rules=['QX3'], desc='an append retried at the last position is no longer acknowledged as a no-op (falls to Past)',
         edits=[(MRL, """            if position + 1 == next_position {
                return Ok(AppendOutcome {
                    last_position: None,
                    wal_bytes_written: 0,
                });
            } else if position < next_position {""", """            if position < next_position {""")]),
    # ---------------- NI
    dict(name='gc_skipped_when_policy_noop', props=['C14'], rules=['NI1', 'NI3'], desc='truncate skips the GC pass under DoNothing',
         edits=[(MRL, '        num_bytes_written += self.run_gc_if_necessary()?;\n        self.persist_on_policy()?;', '        if !matches!(self.next_persist, PersistState::NoOp) {\n            num_bytes_written += self.run_gc_if_necessary()?;\n        }\n        self.persist_on_policy()?;')]),
    dict(name='persist_touches_offset', props=['C14'], rules=['NI4'], desc='the Flush arm of persist realigns the write offset to the block',
         edits=[(DIR, """            PersistAction::Flush => {
                // This will flush the buffer of the BufWriter to the underlying OS.
                self.file.flush()""", """            PersistAction::Flush => {
                self.offset -= self.offset % BLOCK_NUM_BYTES;
                // This will flush the buffer of the BufWriter to the underlying OS.
                self.file.flush()""")]),
    dict(name='open_skips_gc_when_noop', props=['C14'], rules=['NI2', 'NI3'], desc='open only runs the recovery GC when the policy is not DoNothing',
         edits=[(MRL, """            next_persist: persist_policy.into(),""", """            next_persist: persist_policy.clone().into(),"""),
                (MRL, """        let _ = multi_record_log.run_gc_if_necessary()?;""", """        if !matches!(persist_policy, PersistPolicy::DoNothing) {
            let _ = multi_record_log.run_gc_if_necessary()?;
        }""")]),
    dict(name='append_is_fsync_shortcut', props=['C14'], rules=['NI3'], desc='append_records skips the in-memory spare-buffer reuse when the action is fsync (branch on is_fsync outside the policy module)',
         edits=[(MRL, """        self.multi_record_spare_buffer = multi_record_spare_buffer;
        Ok(AppendOutcome {
            last_position: Some(max_position),""", """        if !PersistAction::Flush.is_fsync() {
            self.multi_record_spare_buffer = multi_record_spare_buffer;
        }
        Ok(AppendOutcome {
            last_position: Some(max_position),""")]),
    # ---------------- ISO
    dict(name='empty_queues_yields_all', props=['C18', 'C01'], rules=['ISO4', 'GC1'], desc='empty_queues without the is_empty filter',
         edits=[(QS, """            if mem_queue.is_empty() {
                Some((queue.as_str(), mem_queue))
            } else {
                None
            }""", """            Some((queue.as_str(), mem_queue))""")]),
    dict(name='replay_truncate_fixed_key', props=['C18'], rules=['ISO2'], desc='replay applies Truncate to a fixed other key',
         edits=[(MRL, '                        in_mem_queues.truncate(queue, truncate_range);', '                        let _ = queue;\n                        in_mem_queues.truncate("default", truncate_range);')]),
    dict(name='delete_queue_prefix_retain', props=['C18'], rules=['ISO3'], desc='MemQueues::delete_queue also drops every queue whose name starts with the deleted name',
         edits=[(QS, """        if self.queues.remove(queue).is_none() {""", """        self.queues.retain(|name, _| !name.starts_with(queue) || name == queue);
        if self.queues.remove(queue).is_none() {""")]),
    dict(name='truncate_trims_key', props=['C18'], rules=['ISO1'], desc='truncate applies the in-memory truncation to queue.trim()',
         edits=[(MRL, '            .truncate(queue, truncate_range)\n            .unwrap_or(0);', '            .truncate(queue.trim(), truncate_range)\n            .unwrap_or(0);')]),
    # ---------------- PAST / RP
    dict(name='past_check_skipped_when_empty', props=['C04'], rules=['PAST1'], desc='MemQueue::append_record only rejects past positions for non-empty queues',
         edits=[(Q, '        if target_position < next_position {\n            return Err(AppendError::Past);', '        if target_position < next_position && !self.record_metas.is_empty() {\n            return Err(AppendError::Past);')]),
    dict(name='past_gate_removed', props=['C04', 'C13'], rules=['PAST2', 'QX3'], desc='append_records no longer rejects explicit positions in the past before logging',
         edits=[(MRL, """            } else if position < next_position {
                return Err(AppendError::Past);
            }""", """            }""")]),
    dict(name='implicit_position_zero', props=['C04'], rules=['PAST3'], desc='automatic position falls back to 0 instead of the next position',
         edits=[(MRL, 'let position = position_opt.unwrap_or(next_position);', 'let position = position_opt.unwrap_or(0);')]),
    dict(name='replay_position_off_by_one', props=['C04'], rules=['RP1'], desc='replay of RecordPosition acks position + 1',
         edits=[(MRL, """                    MultiPlexedRecord::RecordPosition { queue, position } => {
                        in_mem_queues.ack_position(queue, position);""", """                    MultiPlexedRecord::RecordPosition { queue, position } => {
                        in_mem_queues.ack_position(queue, position + 1);""")]),
    # ---------------- NU
    dict(name='deserialize_unchecked_batch', props=['C12', 'C08'], rules=['NU2', 'NU1'], desc='deserialize builds the batch view with new_unchecked',
         edits=[(REC, 'records: MultiRecord::new(payload).ok()?,', 'records: MultiRecord::new_unchecked(payload),')]),
    # ---------------- MA / DU
    dict(name='capacity_omits_key', props=['C16'], rules=['MA1'], desc='allocated bytes omit the queue names',
         edits=[(QS, '.map(|(name, queue)| name.capacity() + queue.capacity())', '.map(|(_name, queue)| queue.capacity())')]),
    dict(name='size_uses_metas_capacity', props=['C16'], rules=['MA1'], desc='MemQueue::size uses record_metas.capacity()',
         edits=[(Q, """        self.concatenated_records.len()
            + self.record_metas.len() * std::mem::size_of::<RecordMeta>()""", """        self.concatenated_records.len()
            + self.record_metas.capacity() * std::mem::size_of::<RecordMeta>()""")]),
    dict(name='clear_keeps_allocation', props=['C16'], rules=['MA3'], desc='RollingBuffer::clear without shrink_to_fit',
         edits=[(RB, '        self.buffer.clear();\n        self.buffer.shrink_to_fit();', '        self.buffer.clear();')]),
    dict(name='used_allocated_swapped', props=['C16'], rules=['MA1'], desc='resource_usage swaps used and allocated',
         edits=[(MRL, 'let (memory_used_bytes, memory_allocated_bytes) = self.in_mem_queues.size();', 'let (memory_allocated_bytes, memory_used_bytes) = self.in_mem_queues.size();')]),
    dict(name='disk_size_per_block', props=['C06'], rules=['DU1'], desc='RollingWriter::size multiplies by the block size',
         edits=[(DIR, 'self.directory.files.count() * FILE_NUM_BYTES', 'self.directory.files.count() * FRAME_NUM_BYTES')]),
    # ---------------- FS
    dict(name='scan_without_is_file', props=['C17'], rules=['FS3'], desc='directory scan no longer skips non-regular files',
         edits=[(DIR, """            if !dir_entry.file_type()?.is_file() {
                continue;
            }
""", "")]),
    dict(name='parser_without_digit_test', props=['C17'], rules=['FS4'], desc='filename_to_position without the ASCII digit test',
         edits=[(DIR, """    let seq_number_str = &file_name[4..];
    if !seq_number_str.as_bytes().iter().all(u8::is_ascii_digit) {
        return None;
    }
""", "")]),
    dict(name='filename_width_19', props=['C17', 'C01'], rules=['FS2'], desc='{:020} -> {:019}',
         edits=[(FNUM, 'format!("wal-{:020}", self.file_number)', 'format!("wal-{:019}", self.file_number)')]),
    dict(name='filename_prefix_changed_writer_only', props=['C17', 'C01'], rules=['FS2'], desc='writer uses the prefix "wal_"',
         edits=[(FNUM, 'format!("wal-{:020}", self.file_number)', 'format!("wal_{:020}", self.file_number)')]),
    dict(name='gc_removes_tmp_file_too', props=['C17'], rules=['FS1'], desc='gc also removes dir.join("wal-tmp")',
         edits=[(DIR, """            std::fs::remove_file(&filepath)?;
        }
        Ok(())""", """            std::fs::remove_file(&filepath)?;
        }
        let _ = std::fs::remove_file(self.dir.join("wal-tmp"));
        Ok(())""")]),
    # ---------------- CODEC / TAINT
    dict(name='writer_pads_on_le', props=['C07', 'C01'], rules=['CD2'], desc='writer pads when remaining <= HEADER_LEN',
         edits=[(FWR, 'if num_bytes_remaining_in_block < HEADER_LEN {', 'if num_bytes_remaining_in_block <= HEADER_LEN {')]),
    dict(name='block_size_128k', props=['C07'], rules=['CD1'], desc='BLOCK_NUM_BYTES = 1 << 17 (frame length no longer fits u16)',
         edits=[(BRW, 'pub const BLOCK_NUM_BYTES: usize = 32_768;', 'pub const BLOCK_NUM_BYTES: usize = 1 << 17;')]),
    dict(name='frame_type_first_last_swapped', props=['C07'], rules=['CD4'], desc='frame_type(): First and Last swapped',
         edits=[(RWR, '        (true, false) => FrameType::First,\n        (false, true) => FrameType::Last,', '        (true, false) => FrameType::Last,\n        (false, true) => FrameType::First,')]),
    dict(name='from_u8_middle_last_swapped', props=['C07'], rules=['CD4'], desc='from_u8 decodes 3 as Last and 4 as Middle',
         edits=[(HDR, '            3u8 => Some(FrameType::Middle),\n            4u8 => Some(FrameType::Last),', '            3u8 => Some(FrameType::Last),\n            4u8 => Some(FrameType::Middle),')]),
    dict(name='batch_len_written_as_u16', props=['C07', 'C01'], rules=['CD3'], desc='serialize_with_pos writes the record length as u16, the reader still reads u32',
         edits=[(REC, 'output.extend_from_slice(&(record_payload.remaining() as u32).to_le_bytes());', 'output.extend_from_slice(&(record_payload.remaining() as u16).to_le_bytes());')]),
    dict(name='queue_len_assert_removed', props=['C07'], rules=['CD7'], desc='record::serialize no longer asserts queue.len() <= u16::MAX',
         edits=[(REC, '    assert!(queue.len() <= u16::MAX as usize);\n    buffer.push(record_type as u8);', '    buffer.push(record_type as u8);')]),
    dict(name='alloc_before_length_check', props=['C10', 'C08'], rules=['TAINT1'], desc='MultiRecord::next allocates a scratch Vec sized by the decoded length before checking it',
         edits=[(REC, """        let buffer = &buffer[HEADER_LEN..];

        if buffer.len() < len {""", """        let buffer = &buffer[HEADER_LEN..];
        let scratch: Vec<u8> = Vec::with_capacity(len);
        drop(scratch);

        if buffer.len() < len {""")]),
    dict(name='frame_sliced_before_bounds_check', props=['C10', 'C08'], rules=['TAINT1'], desc='read_frame slices the payload before checking that it fits the block',
         edits=[(FRD, """        if self.cursor + header.len() > BLOCK_NUM_BYTES {
            // The number of bytes for this frame would span over
            // the next block.
            // This is a corruption for which we need to drop the entire block.
            self.block_corrupted = true;
            return Err(ReadFrameError::Corruption);
        }
        let frame_payload = &self.reader.block()[self.cursor..][..header.len()];""", """        let frame_payload = &self.reader.block()[self.cursor..][..header.len()];
        if self.cursor + header.len() > BLOCK_NUM_BYTES {
            // The number of bytes for this frame would span over
            // the next block.
            // This is a corruption for which we need to drop the entire block.
            self.block_corrupted = true;
            return Err(ReadFrameError::Corruption);
        }""")]),
    # ---------------- from the seeded round (DESIGN §8.3)
    dict(name='reader_moves_before_read', props=['C02', 'C01', 'C07'], rules=['NB1'], desc='next_block assigns file / file_number / block_id before the first block of the next file was read',
         edits=[(DIR, """            let mut next_file: File = self.directory.open_file(&next_file_number)?;
            let success = read_block(&mut next_file, &mut self.block)?;
            if success {
                self.block_id = 0;
                self.file = next_file;
                self.file_number = next_file_number;
                return Ok(true);
            }
""", """            self.file = self.directory.open_file(&next_file_number)?;
            self.file_number = next_file_number.clone();
            self.block_id = 0;
            let success = read_block(&mut self.file, &mut self.block)?;
            if success {
                return Ok(true);
            }
""")]),
    dict(name='deleted_queue_kept_across_gc', props=['C06'], rules=['GC11'], desc='delete_queue keeps the removed MemQueue alive across the GC pass',
         edits=[(QS, """    pub fn delete_queue(&mut self, queue: &str) -> Result<(), MissingQueue> {
        info!(queue = queue, "deleting queue");
        if self.queues.remove(queue).is_none() {
            warn!(queue = queue, "attempted to remove a non-existing queue");
            return Err(MissingQueue(queue.to_string()));
        }
        Ok(())
    }""", """    pub fn delete_queue(&mut self, queue: &str) -> Result<MemQueue, MissingQueue> {
        info!(queue = queue, "deleting queue");
        match self.queues.remove(queue) {
            Some(mem_queue) => Ok(mem_queue),
            None => {
                warn!(queue = queue, "attempted to remove a non-existing queue");
                Err(MissingQueue(queue.to_string()))
            }
        }
    }"""),
                (MRL, """        self.in_mem_queues.delete_queue(queue)?;
        num_bytes_written += self.run_gc_if_necessary()?;
        self.persist(PersistAction::FlushAndFsync)?;
        Ok(DeleteQueueOutcome {""", """        let deleted_queue = self.in_mem_queues.delete_queue(queue)?;
        num_bytes_written += self.run_gc_if_necessary()?;
        self.persist(PersistAction::FlushAndFsync)?;
        debug!(released_bytes = deleted_queue.size(), "queue deleted");
        Ok(DeleteQueueOutcome {""")]),
]

REFACTORS = [
    dict(name='rename_private_fns', desc='rename run_gc_if_necessary / record_empty_queues_position',
         edits=[(MRL, 'fn run_gc_if_necessary(&mut self)', 'fn maybe_collect_garbage(&mut self)'),
                (MRL, 'let _ = multi_record_log.run_gc_if_necessary()?;', 'let _ = multi_record_log.maybe_collect_garbage()?;'),
                (MRL, '        num_bytes_written += self.run_gc_if_necessary()?;\n        self.persist(PersistAction::FlushAndFsync)?;', '        num_bytes_written += self.maybe_collect_garbage()?;\n        self.persist(PersistAction::FlushAndFsync)?;'),
                (MRL, '        num_bytes_written += self.run_gc_if_necessary()?;\n        self.persist_on_policy()?;', '        num_bytes_written += self.maybe_collect_garbage()?;\n        self.persist_on_policy()?;'),
                (MRL, 'fn record_empty_queues_position(&mut self)', 'fn log_positions_of_empty_queues(&mut self)'),
                (MRL, 'num_bytes_written += self.record_empty_queues_position()?;', 'num_bytes_written += self.log_positions_of_empty_queues()?;')]),
    dict(name='let_else_to_match', desc='replay loop: `if let Some(record) = record {..} else {break}` unchanged, corruption arm via nested match',
         edits=[(MRL, '''            let record = match record_reader.read_record::<MultiPlexedRecord>() {
                Ok(record) => record,
                // io errors are non-recoverable: retrying would fail the same way forever.
                Err(ReadRecordError::IoError(io_err)) => {
                    return Err(ReadRecordError::IoError(io_err));
                }
                Err(ReadRecordError::Corruption) => {
                    warn!("Detected corrupted record: some data may have been lost");
                    continue;
                }
            };''', '''            let record = match record_reader.read_record::<MultiPlexedRecord>() {
                Ok(record) => record,
                Err(err) => match err {
                    ReadRecordError::IoError(io_err) => return Err(ReadRecordError::IoError(io_err)),
                    ReadRecordError::Corruption => {
                        warn!("Detected corrupted record: some data may have been lost");
                        continue;
                    }
                },
            };''')]),
    dict(name='question_mark_to_match', desc='create_file: `?` replaced by explicit match / return Err(e.into())',
         edits=[(DIR, '    file.set_len(FILE_NUM_BYTES as u64)?;\n    file.seek(SeekFrom::Start(0))?;\n    Ok(file)', '''    match file.set_len(FILE_NUM_BYTES as u64) {
        Ok(()) => {}
        Err(e) => return Err(e),
    }
    file.seek(SeekFrom::Start(0))?;
    Ok(file)''')]),
    dict(name='or_to_nested_ifs', desc='go_to_next_block_if_necessary: `a || b` bound to a let -> nested ifs',
         edits=[(FRD, '''        let need_to_skip_block = self.block_corrupted || num_bytes_to_end_of_block < HEADER_LEN;
        if !need_to_skip_block {
            return Ok(());
        }''', '''        if !self.block_corrupted {
            if num_bytes_to_end_of_block >= HEADER_LEN {
                return Ok(());
            }
        }''')]),
    dict(name='extra_tracing_and_accessor', desc='add a tracing call and a read-only public accessor',
         edits=[(MRL, '''    pub fn queue_exists(&self, queue: &str) -> bool {''', '''    /// Number of queues currently known.
    pub fn num_queues(&self) -> usize {
        self.in_mem_queues.list_queues().count()
    }

    pub fn queue_exists(&self, queue: &str) -> bool {'''),
                (MRL, '''        let position = self.in_mem_queues.next_position(queue)?;
        let record = MultiPlexedRecord::DeleteQueue { queue, position };''', '''        let position = self.in_mem_queues.next_position(queue)?;
        debug!(position = position, "deleting queue at position");
        let record = MultiPlexedRecord::DeleteQueue { queue, position };''')]),
    dict(name='inline_queue_exists', desc='create_queue/truncate call in_mem_queues.contains_queue directly',
         edits=[(MRL, '        if self.queue_exists(queue) {\n            return Err(CreateQueueError::AlreadyExists);', '        if self.in_mem_queues.contains_queue(queue) {\n            return Err(CreateQueueError::AlreadyExists);'),
                (MRL, '        if !self.queue_exists(queue) {\n            return Err(TruncateError::MissingQueue', '        if !self.in_mem_queues.contains_queue(queue) {\n            return Err(TruncateError::MissingQueue')]),
    dict(name='extract_write_and_persist_helper', desc='append_records: write_record + persist_on_policy extracted into a helper',
         edits=[(MRL, '''        let num_bytes_written = self.record_log_writer.write_record(record)?;
        self.persist_on_policy()?;

        let mem_queue''', '''        let num_bytes_written = self.log_and_persist(record)?;

        let mem_queue'''),
                (MRL, '''    /// Flush if the policy says it should be done
    fn persist_on_policy''', '''    fn log_and_persist(&mut self, record: MultiPlexedRecord) -> io::Result<u64> {
        let num_bytes_written = self.record_log_writer.write_record(record)?;
        self.persist_on_policy()?;
        Ok(num_bytes_written)
    }

    /// Flush if the policy says it should be done
    fn persist_on_policy''')]),
    dict(name='magic_24_named_const', desc='filename_to_position: 24 and 4 become named consts',
         edits=[(DIR, '''fn filename_to_position(file_name: &str) -> Option<u64> {
    if file_name.len() != 24 {''', '''const WAL_PREFIX_LEN: usize = 4;
const WAL_FILENAME_LEN: usize = WAL_PREFIX_LEN + 20;

fn filename_to_position(file_name: &str) -> Option<u64> {
    if file_name.len() != WAL_FILENAME_LEN {'''),
                (DIR, '    let seq_number_str = &file_name[4..];', '    let seq_number_str = &file_name[WAL_PREFIX_LEN..];'),
                (DIR, '    file_name[4..].parse::<u64>().ok()', '    file_name[WAL_PREFIX_LEN..].parse::<u64>().ok()')]),
    dict(name='needs_padding_helper', desc='HEADER_LEN comparisons hoisted into fn needs_padding(remaining) used by writer and reader',
         edits=[(HDR, 'pub const HEADER_LEN: usize = 4 + 2 + 1;', '''pub const HEADER_LEN: usize = 4 + 2 + 1;

/// True when a block tail of `remaining` bytes cannot hold a frame header.
pub(crate) fn needs_padding(remaining: usize) -> bool {
    remaining < HEADER_LEN
}'''),
                (FWR, 'if num_bytes_remaining_in_block < HEADER_LEN {', 'if crate::frame::header::needs_padding(num_bytes_remaining_in_block) {'),
                (FRD, 'let need_to_skip_block = self.block_corrupted || num_bytes_to_end_of_block < HEADER_LEN;', 'let need_to_skip_block = self.block_corrupted || crate::frame::header::needs_padding(num_bytes_to_end_of_block);')]),
]

REFACTORS += [
    dict(name='rename_more_private_fns', desc='rename go_next, filepath, take_first_unused, empty_queues, ack_position, read_block',
         edits=[(RRD, 'let has_record = self.go_next()?;', 'let has_record = self.advance_to_next_record()?;'),
                (RRD, 'pub fn go_next(&mut self)', 'pub fn advance_to_next_record(&mut self)'),
                (DIR, 'pub(crate) fn filepath(dir: &Path, file_number: &FileNumber) -> PathBuf {', 'pub(crate) fn wal_file_path(dir: &Path, file_number: &FileNumber) -> PathBuf {'),
                (DIR, '    let new_filepath = filepath(dir_path, file_number);', '    let new_filepath = wal_file_path(dir_path, file_number);'),
                (DIR, '            let filepath = filepath(&self.dir, &file);', '            let filepath = wal_file_path(&self.dir, &file);'),
                (DIR, '        let filepath = filepath(&self.dir, file_number);', '        let filepath = wal_file_path(&self.dir, file_number);'),
                (FNUM, 'pub fn take_first_unused(&mut self)', 'pub fn pop_oldest_if_unreferenced(&mut self)'),
                (DIR, 'while let Some(file) = self.files.take_first_unused() {', 'while let Some(file) = self.files.pop_oldest_if_unreferenced() {'),
                (QS, 'pub fn empty_queues(&mut self)', 'pub fn drained_queues(&mut self)'),
                (MRL, 'in self.in_mem_queues.empty_queues() {', 'in self.in_mem_queues.drained_queues() {'),
                (QS, 'pub fn ack_position(&mut self, queue_name: &str, next_position: u64) {', 'pub fn realign(&mut self, queue_name: &str, next_position: u64) {'),
                (MRL, '                            in_mem_queues.ack_position(queue, position);\n                        }\n                        for record in records {', '                            in_mem_queues.realign(queue, position);\n                        }\n                        for record in records {'),
                (MRL, '                    MultiPlexedRecord::RecordPosition { queue, position } => {\n                        in_mem_queues.ack_position(queue, position);', '                    MultiPlexedRecord::RecordPosition { queue, position } => {\n                        in_mem_queues.realign(queue, position);'),
                ]),
    dict(name='parser_strip_prefix', desc='filename_to_position rewritten with strip_prefix (same language accepted)',
         edits=[(DIR, """    if !file_name.starts_with("wal-") {
        return None;
    }
    let seq_number_str = &file_name[4..];
    if !seq_number_str.as_bytes().iter().all(u8::is_ascii_digit) {
        return None;
    }
    file_name[4..].parse::<u64>().ok()""", """    let seq_number_str = file_name.strip_prefix("wal-")?;
    if !seq_number_str.as_bytes().iter().all(u8::is_ascii_digit) {
        return None;
    }
    seq_number_str.parse::<u64>().ok()""")]),
    dict(name='gc_loop_as_loop_match', desc='Directory::gc: while let -> loop { match }',
         edits=[(DIR, """        while let Some(file) = self.files.take_first_unused() {
            let filepath = filepath(&self.dir, &file);
            info!(file=%filepath.display(), "gc remove file");
            std::fs::remove_file(&filepath)?;
        }
        Ok(())""", """        loop {
            match self.files.take_first_unused() {
                Some(file) => {
                    let filepath = filepath(&self.dir, &file);
                    info!(file=%filepath.display(), "gc remove file");
                    std::fs::remove_file(&filepath)?;
                }
                None => return Ok(()),
            }
        }""")]),
    dict(name='create_queue_mem_then_persist', desc='create_queue: in-memory insert before the fsync (both still before Ok)',
         edits=[(MRL, """        self.persist(PersistAction::FlushAndFsync)?;
        self.in_mem_queues.create_queue(queue)?;
        Ok(CreateQueueOutcome {""", """        self.in_mem_queues.create_queue(queue)?;
        self.persist(PersistAction::FlushAndFsync)?;
        Ok(CreateQueueOutcome {""")]),
    dict(name='persist_arms_via_if', desc='RollingWriter::persist: match -> flush first, then `if is_fsync`',
         edits=[(DIR, """        match persist_action {
            PersistAction::FlushAndFsync => {
                self.file.flush()?;
                self.file.get_ref().sync_data()?;
                self.directory.sync_directory()
            }
            PersistAction::Flush => {
                // This will flush the buffer of the BufWriter to the underlying OS.
                self.file.flush()
            }
        }""", """        // This will flush the buffer of the BufWriter to the underlying OS.
        self.file.flush()?;
        match persist_action {
            PersistAction::FlushAndFsync => {
                self.file.get_ref().sync_data()?;
                self.directory.sync_directory()
            }
            PersistAction::Flush => Ok(()),
        }""")]),
    dict(name='go_next_if_let_chain', desc='go_next: match on frame replaced by let-else for the error path + nested match',
         edits=[(RRD, """            let frame = self.frame_reader.read_frame();
            match frame {
                Ok((frame_type, frame_payload)) => {""", """            let frame = self.frame_reader.read_frame();
            #[allow(clippy::match_single_binding)]
            match frame {
                Ok((frame_type, frame_payload)) => {""")]),
    dict(name='header_len_via_local', desc='read_frame binds header.len() to a local used by check and slice',
         edits=[(FRD, """        self.cursor += HEADER_LEN;
        if self.cursor + header.len() > BLOCK_NUM_BYTES {""", """        self.cursor += HEADER_LEN;
        let payload_len = header.len();
        if self.cursor + payload_len > BLOCK_NUM_BYTES {"""),
                (FRD, """        let frame_payload = &self.reader.block()[self.cursor..][..header.len()];
        self.cursor += header.len();""", """        let frame_payload = &self.reader.block()[self.cursor..][..payload_len];
        self.cursor += payload_len;""")]),
    dict(name='outcome_built_in_helper_fn', desc='truncate builds its outcome through a local variable and early computes bytes',
         edits=[(MRL, """        Ok(TruncateOutcome {
            evicted_records,
            wal_bytes_written: num_bytes_written,
        })""", """        let outcome = TruncateOutcome {
            evicted_records,
            wal_bytes_written: num_bytes_written,
        };
        Ok(outcome)""")]),
    dict(name='size_const_reordered', desc='RollingWriter::size: FILE_NUM_BYTES * count',
         edits=[(DIR, 'self.directory.files.count() * FILE_NUM_BYTES', 'FILE_NUM_BYTES * self.directory.files.count()')]),
    dict(name='tracker_len_ge_form', desc='take_first_unused: `if len < 2 {return None}` -> positive form',
         edits=[(FNUM, """        if self.files.len() < 2 {
            return None;
        }

        let first = self.files.first().unwrap();
        if first.can_be_deleted() {
            self.files.pop_first()
        } else {
            None
        }""", """        if self.files.len() >= 2 {
            let first = self.files.first().unwrap();
            if first.can_be_deleted() {
                return self.files.pop_first();
            }
        }
        None""")]),
]

REFACTORS += [
    dict(name='extract_roll_over_helper', desc='roll-over code of RollingWriter::write moved verbatim into a private helper',
         edits=[(DIR, """        if self.offset + buf.len() > FILE_NUM_BYTES {
            self.file.flush()?;
            self.file.get_ref().sync_data()?;
            self.directory.sync_directory()?;

            let (file_number, file) =
                if let Some(next_file_number) = self.directory.files.next(&self.file_number) {
                    let file = self.directory.open_file(&next_file_number)?;
                    // This file may be the empty leftover of a crash that happened between its
                    // creation and its sizing: make sure it is fully sized before writing to it.
                    file.set_len(FILE_NUM_BYTES as u64)?;
                    (next_file_number, file)
                } else {
                    let next_file_number = self.directory.files.inc(&self.file_number);
                    let file = match create_file(&self.directory.dir, &next_file_number) {
                        Ok(file) => file,
                        Err(io_err) => {
                            // The file was not created: stop tracking its number, so that a retry
                            // goes through the exclusive creation again instead of opening
                            // whatever happens to bear that name.
                            self.directory.files.untrack(&next_file_number);
                            return Err(io_err);
                        }
                    };
                    (next_file_number, file)
                };

            self.file = BufWriter::with_capacity(FRAME_NUM_BYTES, file);
            self.file_number = file_number;
            self.offset = 0;
        }""", """        if self.offset + buf.len() > FILE_NUM_BYTES {
            self.roll_over()?;
        }"""),
                (DIR, """impl BlockWrite for RollingWriter {""", """impl RollingWriter {
    fn roll_over(&mut self) -> io::Result<()> {
        self.file.flush()?;
        self.file.get_ref().sync_data()?;
        self.directory.sync_directory()?;

        let (file_number, file) =
            if let Some(next_file_number) = self.directory.files.next(&self.file_number) {
                let file = self.directory.open_file(&next_file_number)?;
                file.set_len(FILE_NUM_BYTES as u64)?;
                (next_file_number, file)
            } else {
                let next_file_number = self.directory.files.inc(&self.file_number);
                let file = match create_file(&self.directory.dir, &next_file_number) {
                    Ok(file) => file,
                    Err(io_err) => {
                        self.directory.files.untrack(&next_file_number);
                        return Err(io_err);
                    }
                };
                (next_file_number, file)
            };

        self.file = BufWriter::with_capacity(FRAME_NUM_BYTES, file);
        self.file_number = file_number;
        self.offset = 0;
        Ok(())
    }
}

impl BlockWrite for RollingWriter {""")]),
]

MUTANTS += [
    dict(name='size_counts_handles_capacity_does_not', props=['C16'], rules=['MA1'], desc='MemQueue::size adds 24 bytes per retained FileNumber handle; capacity() is not updated',
         edits=[(Q, """        self.concatenated_records.len()
            + self.record_metas.len() * std::mem::size_of::<RecordMeta>()""", """        self.concatenated_records.len()
            + self.record_metas.len() * std::mem::size_of::<RecordMeta>()
            + self.record_metas.iter().filter(|meta| meta.file_number.is_some()).count() * 24""")]),
    dict(name='taint_guard_inverted', props=['C10', 'C08'], rules=['TAINT1'], desc='MultiRecord::next: the length check is inverted',
         edits=[(REC, '        if buffer.len() < len {\n            self.byte_offset = buffer.len();', '        if !(buffer.len() < len) {\n            self.byte_offset = buffer.len();')]),
    dict(name='padding_condition_inverted', props=['C07'], rules=['CD2'], desc='write_frame pads when there IS room for a header',
         edits=[(FWR, 'if num_bytes_remaining_in_block < HEADER_LEN {', 'if !(num_bytes_remaining_in_block < HEADER_LEN) {')]),
    dict(name='retry_gate_inverted', props=['C13'], rules=['QX3'], desc='the retry no-op is returned when the position is NOT the last one',
         edits=[(MRL, 'if position + 1 == next_position {', 'if position + 1 != next_position {')]),
    dict(name='replay_realigns_known_queue', props=['C01', 'C09'], rules=['RP3'], desc='replay of an append re-aligns the queue when it IS known',
         edits=[(MRL, '                        if !in_mem_queues.contains_queue(queue) {\n                            in_mem_queues.ack_position(queue, position);', '                        if in_mem_queues.contains_queue(queue) {\n                            in_mem_queues.ack_position(queue, position);')]),
    dict(name='frame_header_not_consumed', props=['C07', 'C08'], rules=['FR5b'], desc='read_frame no longer advances the cursor past the header',
         edits=[(FRD, '        self.cursor += HEADER_LEN;\n        if self.cursor + header.len() > BLOCK_NUM_BYTES {', '        if self.cursor + HEADER_LEN + header.len() > BLOCK_NUM_BYTES {')]),
    dict(name='rollover_keeps_file_number', props=['C02', 'C06'], rules=['ROLL2'], desc='roll-over replaces the handle but not the file number',
         edits=[(DIR, '            self.file_number = file_number;\n            self.offset = 0;', '            let _ = file_number;\n            self.offset = 0;')]),
    dict(name='next_file_block_id_not_reset', props=['C01', 'C02'], rules=['NB2'], desc='next_block does not reset block_id when moving to the next file',
         edits=[(DIR, '                self.block_id = 0;\n                self.file = next_file;', '                self.file = next_file;')]),
    dict(name='minted_file_not_tracked', props=['C06', 'C01'], rules=['GC12'], desc='FileTracker::inc no longer inserts the new file number',
         edits=[(FNUM, '        self.files.insert(new_file_number.clone());\n        new_file_number', '        new_file_number')]),
    dict(name='entry_queue_name_not_encoded', props=['C07', 'C01'], rules=['CD8'], desc='record::serialize no longer appends the queue name bytes',
         edits=[(REC, '    buffer.extend_from_slice(queue.as_bytes());\n', '')]),
    dict(name='truncate_keeps_payload_bytes', props=['C16'], rules=['MA5'], desc='partial truncation drains the metas but not the payload buffer',
         edits=[(Q, '        self.concatenated_records\n            .truncate_head(..start_offset_to_keep);\n', '')]),
    dict(name='end_of_log_test_inverted', props=['C08'], rules=['FR3z'], desc='get_frame_header reports NotAvailable for non-zero headers',
         edits=[(FRD, 'if header_bytes == [0u8; HEADER_LEN] {', 'if header_bytes != [0u8; HEADER_LEN] {')]),
    dict(name='tracker_keeps_three_files', props=['C06'], rules=['GC6'], desc='take_first_unused keeps at least 3 files while the trigger fires at 2',
         edits=[(FNUM, 'if self.files.len() < 2 {', 'if self.files.len() <= 2 {')]),
    dict(name='read_record_availability_inverted', props=['C02', 'C08', 'C12'], rules=['REC5'], desc='read_record deserialises when go_next said no record is available',
         edits=[(RRD, '        if has_record {\n            let record = self.record()', '        if !has_record {\n            let record = self.record()')]),
]

MUTANTS += [
    dict(name='rollover_without_file_fsync', props=['C02', 'C03'], rules=['ROLL1'], desc='roll-over flushes and syncs the directory but no longer fdatasyncs the old file',
         edits=[(DIR, """            self.file.flush()?;
            self.file.get_ref().sync_data()?;
            self.directory.sync_directory()?;

            let (file_number, file) =""", """            self.file.flush()?;
            self.directory.sync_directory()?;

            let (file_number, file) =""")]),
    dict(name='persist_without_file_fsync', props=['C03'], rules=['PS5', 'PS1'], desc='FlushAndFsync flushes and syncs the directory but not the file',
         edits=[(DIR, """                self.file.flush()?;
                self.file.get_ref().sync_data()?;
                self.directory.sync_directory()
            }""", """                self.file.flush()?;
                self.directory.sync_directory()
            }""")]),
]

MUTANTS += [
    dict(name='frame_fits_test_ge', props=['C07', 'C01'], rules=['CD9'], desc='read_frame rejects frames ending exactly at the block end (> -> >=)',
         edits=[(FRD, 'if self.cursor + header.len() > BLOCK_NUM_BYTES {', 'if self.cursor + header.len() >= BLOCK_NUM_BYTES {')]),
    dict(name='file_full_test_ge', props=['C07', 'C01'], rules=['CD9'], desc='the block writer rolls over when a write would exactly fill the file (> -> >=)',
         edits=[(DIR, 'if self.offset + buf.len() > FILE_NUM_BYTES {', 'if self.offset + buf.len() >= FILE_NUM_BYTES {')]),
    dict(name='file_full_test_inverted', props=['C02', 'C07'], rules=['ROLL3'], desc='roll-over condition inverted',
         edits=[(DIR, 'if self.offset + buf.len() > FILE_NUM_BYTES {', 'if !(self.offset + buf.len() > FILE_NUM_BYTES) {')]),
    dict(name='write_skipped_when_nonempty', props=['C15'], rules=['BY6'], desc='the block writer returns early for NON-empty buffers',
         edits=[(DIR, '        if buf.is_empty() {\n            return Ok(());\n        }\n        assert!', '        if !buf.is_empty() {\n            return Ok(());\n        }\n        assert!')]),
    dict(name='frame_loop_payload_not_advanced', props=['C07', 'C12'], rules=['WR1'], desc='write_record no longer re-slices the remaining payload',
         edits=[(RWR, '            payload = &payload[frame_payload_len..];\n            let is_last_frame = payload.is_empty();', '            let is_last_frame = payload[frame_payload_len..].is_empty();')]),
    dict(name='frame_loop_first_flag_kept', props=['C07', 'C12'], rules=['WR1'], desc='is_first_frame is never cleared',
         edits=[(RWR, '            is_first_frame = false;\n', '')]),
    dict(name='emptied_queue_keeps_start', props=['C04'], rules=['PAST4'], desc='truncate_head no longer moves start_position when it empties the queue',
         edits=[(Q, '            self.start_position = truncate_up_to_pos + 1;\n            self.concatenated_records.clear();', '            self.concatenated_records.clear();')]),
    dict(name='reader_first_block_not_read', props=['C01'], rules=['RO1'], desc='RollingReader::open no longer reads the first block',
         edits=[(DIR, '        file.read_exact(&mut *block)?;\n        Ok(RollingReader {', '        Ok(RollingReader {')]),
    dict(name='header_type_byte_not_written', props=['C07', 'C01'], rules=['CD8'], desc='Header::serialize no longer writes the frame-type byte',
         edits=[(HDR, '        dest[6] = self.frame_type.to_u8();\n', '')]),
    dict(name='frame_payload_not_copied', props=['C07', 'C01'], rules=['CD8'], desc='write_frame no longer copies the payload into the frame buffer',
         edits=[(FWR, '        buffer_record.copy_from_slice(payload);\n', '        let _ = buffer_record;\n')]),
    dict(name='max_writable_condition_inverted', props=['C07'], rules=['CD2b'], desc='max_writable_frame_length subtracts on the wrong branch',
         edits=[(FWR, 'if available_num_bytes_in_block >= HEADER_LEN {', 'if !(available_num_bytes_in_block >= HEADER_LEN) {')]),
]

MUTANTS += [
    dict(name='entry_header_length_test_inverted', props=['C10', 'C08'], rules=['TAINT3'], desc='deserialize splits the header off before/without knowing the buffer is long enough',
         edits=[(REC, '        if buffer.len() < HEADER_LEN {\n            error!(buffer=?buffer, "multiplexed record buffer too short");', '        if !(buffer.len() < HEADER_LEN) {\n            error!(buffer=?buffer, "multiplexed record buffer too short");')]),
    dict(name='batch_header_length_test_removed', props=['C10', 'C08'], rules=['TAINT3'], desc='MultiRecord::next no longer checks that 12 header bytes remain',
         edits=[(REC, """        if buffer.len() < HEADER_LEN {
            // too short: corrupted
            self.byte_offset = buffer.len();
            return Some(Err(MultiRecordCorruption));
        }
""", "")]),
]

REFACTORS += [
    dict(name='frame_loop_split_at', desc='write_record takes prefix and remainder with one split_at',
         edits=[(RWR, """            let frame_payload = &payload[..frame_payload_len];
            payload = &payload[frame_payload_len..];""", """            let (frame_payload, remaining_payload) = payload.split_at(frame_payload_len);
            payload = remaining_payload;""")]),
    dict(name='next_block_match_style', desc='next_block: `if success` replaced by match on the bool',
         edits=[(DIR, """        let success = read_block(&mut self.file, &mut self.block)?;
        if success {
            self.block_id += 1;
            return Ok(true);
        }
""", """        match read_block(&mut self.file, &mut self.block)? {
            true => {
                self.block_id += 1;
                return Ok(true);
            }
            false => {}
        }
""")]),
    dict(name='write_new_offset_local', desc='RollingWriter::write computes the new offset once',
         edits=[(DIR, """        if self.offset + buf.len() > FILE_NUM_BYTES {""", """        let end_offset = self.offset + buf.len();
        if end_offset > FILE_NUM_BYTES {""")]),
    dict(name='skip_block_positive_form', desc='go_to_next_block_if_necessary: positive-form if around the skip instead of early return',
         edits=[(FRD, """        if !need_to_skip_block {
            return Ok(());
        }
        if !self.reader.next_block()? {
            return Err(ReadFrameError::NotAvailable);
        }

        self.cursor = 0;
        self.block_corrupted = false;
        Ok(())""", """        if need_to_skip_block {
            if !self.reader.next_block()? {
                return Err(ReadFrameError::NotAvailable);
            }
            self.cursor = 0;
            self.block_corrupted = false;
        }
        Ok(())""")]),
    dict(name='consult_as_match', desc='persist_on_policy: if let -> match',
         edits=[(MRL, """        if let Some(persist_action) = self.next_persist.should_persist() {
            self.persist(persist_action)?;
            self.next_persist.update_persisted();
        }
        Ok(())""", """        match self.next_persist.should_persist() {
            Some(persist_action) => {
                self.persist(persist_action)?;
                self.next_persist.update_persisted();
                Ok(())
            }
            None => Ok(()),
        }""")]),
    dict(name='truncate_head_start_first', desc='truncate_head: start_position assigned before the removals; shared tail',
         edits=[(Q, """        if truncate_up_to_pos + 1 >= self.next_position() {
            self.start_position = truncate_up_to_pos + 1;
            self.concatenated_records.clear();
            let record_count = self.record_metas.len();
            self.record_metas.clear();
            return record_count;
        }""", """        if truncate_up_to_pos + 1 >= self.next_position() {
            let record_count = self.record_metas.len();
            self.record_metas.clear();
            self.concatenated_records.clear();
            self.start_position = truncate_up_to_pos + 1;
            return record_count;
        }""")]),
    dict(name='header_check_inlined_len', desc='read_frame computes end = cursor + len after the header advance and compares end',
         edits=[(FRD, """        self.cursor += HEADER_LEN;
        if self.cursor + header.len() > BLOCK_NUM_BYTES {""", """        self.cursor += HEADER_LEN;
        let frame_end = self.cursor + header.len();
        if frame_end > BLOCK_NUM_BYTES {""")]),
    dict(name='deserialize_match_on_len', desc='MultiPlexedRecord::deserialize: length tests as early-return matches on checked split',
         edits=[(REC, """        if body.len() < queue_len {
            error!(
                queue_len = queue_len,
                body_len = body.len(),
                "record body too short"
            );
            return None;
        }
        let (queue_bytes, payload) = body.split_at(queue_len);""", """        if queue_len > body.len() {
            error!(
                queue_len = queue_len,
                body_len = body.len(),
                "record body too short"
            );
            return None;
        }
        let (queue_bytes, payload) = body.split_at(queue_len);""")]),
    dict(name='create_file_seek_rewind', desc='create_file uses rewind() instead of seek(Start(0))',
         edits=[(DIR, '    file.set_len(FILE_NUM_BYTES as u64)?;\n    file.seek(SeekFrom::Start(0))?;', '    file.set_len(FILE_NUM_BYTES as u64)?;\n    file.rewind()?;')]),
    dict(name='replay_arms_helper', desc='replay: the AppendRecords arm body moved to a local closure-free helper fn',
         edits=[(MRL, """                        if !in_mem_queues.contains_queue(queue) {
                            in_mem_queues.ack_position(queue, position);
                        }
                        for record in records {""", """                        ensure_queue(&mut in_mem_queues, queue, position);
                        for record in records {"""),
                (MRL, """pub struct MultiRecordLog {""", """fn ensure_queue(in_mem_queues: &mut mem::MemQueues, queue: &str, position: u64) {
    if !in_mem_queues.contains_queue(queue) {
        in_mem_queues.ack_position(queue, position);
    }
}

pub struct MultiRecordLog {""")]),
]

REFACTORS += [
    dict(name='scan_metadata_is_file', desc='directory scan tests dir_entry.metadata()?.is_file() (lstat semantics, same as file_type)',
         edits=[(DIR, 'if !dir_entry.file_type()?.is_file() {', 'if !dir_entry.metadata()?.is_file() {')]),
]

MUTANTS += [
    dict(name='scan_skips_empty_files', props=['C02', 'C17', 'C01'], rules=['FS6'], desc='the scan ignores zero-length WAL files (crash leftovers stay untracked)',
         edits=[(DIR, """            if !dir_entry.file_type()?.is_file() {
                continue;
            }""", """            if !dir_entry.file_type()?.is_file() {
                continue;
            }
            if dir_entry.metadata()?.len() == 0 {
                continue;
            }""")]),
    dict(name='scan_follows_symlinks', props=['C17'], rules=['FS3'], desc='the scan uses Path::is_file (follows symlinks)',
         edits=[(DIR, 'if !dir_entry.file_type()?.is_file() {', 'if !dir_entry.path().is_file() {')]),
    dict(name='gc_unlinks_newest_first', props=['C02', 'C01'], rules=['GC5'], desc='gc collects the unused files first and unlinks them newest-first',
         edits=[(DIR, """        while let Some(file) = self.files.take_first_unused() {
            let filepath = filepath(&self.dir, &file);""", """        let mut unused_files: Vec<FileNumber> = Vec::new();
        while let Some(file) = self.files.take_first_unused() {
            unused_files.push(file);
        }
        while let Some(file) = unused_files.pop() {
            let filepath = filepath(&self.dir, &file);""")]),
]

REFACTORS += [
    dict(name='add_policy_setter_api', desc='new public API to change the persist policy at run time (timing only)',
         edits=[(MRL, """    /// Flush and optionnally fsync data
    pub fn persist(""", """    /// Replace the persist policy.
    pub fn set_persist_policy(&mut self, persist_policy: PersistPolicy) {
        self.next_persist = persist_policy.into();
    }

    /// Flush and optionnally fsync data
    pub fn persist(""")]),
]

MUTANTS += [
    dict(name='record_handle_always_taken', props=['C01', 'C06'], rules=['FH1'], desc='append_record moves the previous record\'s handle to the new record even when the file differs',
         edits=[(Q, """            if record_meta.file_number.as_ref() == Some(file_number) {
                record_meta.file_number.take().unwrap()
            } else {
                file_number.clone()
            }""", """            record_meta.file_number.take().unwrap_or_else(|| file_number.clone())""")]),
    dict(name='frame_reader_swallows_corruption', props=['C08', 'C02', 'C12'], rules=['FR8b'], desc='read_frame loops to the next block when the header is unparseable instead of reporting Corruption',
         edits=[(FRD, """        self.go_to_next_block_if_necessary()?;
        let header = self.get_frame_header()?;
        self.cursor += HEADER_LEN;""", """        let header = loop {
            self.go_to_next_block_if_necessary()?;
            match self.get_frame_header() {
                Err(ReadFrameError::Corruption) => continue,
                header_res => break header_res?,
            }
        };
        self.cursor += HEADER_LEN;""")]),
    dict(name='valid_first_frame_reported_as_corruption', props=['C02', 'C09', 'C03'], rules=['REC6'], desc='go_next returns Corruption when a First frame arrives while an entry is open (the valid frame is dropped)',
         edits=[(RRD, """                    if frame_type.is_first_frame_of_record() {
                        self.within_record = true;""", """                    if frame_type.is_first_frame_of_record() {
                        if self.within_record {
                            self.within_record = false;
                            return Err(ReadRecordError::Corruption);
                        }
                        self.within_record = true;""")]),
    dict(name='io_error_downgraded_when_assembling', props=['C11'], rules=['ERR1'], desc='go_next reports an I/O error as Corruption when it hits while an entry is being assembled',
         edits=[(RRD, """                Err(ReadFrameError::IoError(io_err)) => {
                    self.within_record = false;
                    return Err(ReadRecordError::IoError(io_err));""", """                Err(ReadFrameError::IoError(io_err)) => {
                    if self.within_record {
                        self.within_record = false;
                        return Err(ReadRecordError::Corruption);
                    }
                    return Err(ReadRecordError::IoError(io_err));""")]),
    dict(name='open_file_creates_missing', props=['C11', 'C17'], rules=['ERR3'], desc='open_file opens with create(true): a listed file that went missing is recreated empty',
         edits=[(DIR, 'OpenOptions::new().read(true).write(true).open(filepath)?;', 'OpenOptions::new().read(true).write(true).create(true).truncate(false).open(filepath)?;')]),
]

MUTANTS += [
    dict(name='metas_taken_buffer_kept', props=['C16'], rules=['MA3b'], desc='truncate beyond the end drops the metas with mem::take but keeps the payload buffer',
         edits=[(Q, """        if truncate_up_to_pos + 1 >= self.next_position() {
            self.start_position = truncate_up_to_pos + 1;
            self.concatenated_records.clear();
            let record_count = self.record_metas.len();
            self.record_metas.clear();
            return record_count;
        }""", """        if truncate_up_to_pos >= self.next_position() {
            self.start_position = truncate_up_to_pos + 1;
            return std::mem::take(&mut self.record_metas).len();
        }
        if truncate_up_to_pos + 1 >= self.next_position() {
            self.start_position = truncate_up_to_pos + 1;
            self.concatenated_records.clear();
            let record_count = self.record_metas.len();
            self.record_metas.clear();
            return record_count;
        }""")]),
    dict(name='policy_division_by_interval', props=['C14'], rules=['NI8'], desc='update_persisted advances the deadline by whole intervals (divides by the interval)',
         edits=[(PP, '            } => *next_persist = Instant::now() + *interval,', """            } => {
                let late_by = Instant::now().saturating_duration_since(*next_persist);
                let missed_ticks = (late_by.as_nanos() / interval.as_nanos()) as u32;
                *next_persist += *interval * (missed_ticks + 1);
            }""")]),
    dict(name='gc_bytes_assigned_not_added', props=['C15'], rules=['BY7'], desc='the position pass overwrites the running byte count instead of adding to it',
         edits=[(MRL, '            num_bytes_written += self.record_log_writer.write_record(record)?;\n        }\n        if num_bytes_written > 0 {', '            num_bytes_written = self.record_log_writer.write_record(record)?;\n        }\n        if num_bytes_written > 0 {')]),
    dict(name='truncate_swallows_gc_error', props=['C15', 'C03'], rules=['ERR4'], desc='truncate logs and ignores an error of the GC pass',
         edits=[(MRL, '        num_bytes_written += self.run_gc_if_necessary()?;\n        self.persist_on_policy()?;', """        match self.run_gc_if_necessary() {
            Ok(gc_num_bytes) => num_bytes_written += gc_num_bytes,
            Err(io_err) => warn!(error=?io_err, "gc failed"),
        }
        self.persist_on_policy()?;""")]),
]

MUTANTS += [
    dict(name='batch_payload_bytes_not_appended', props=['C01', 'C07'], rules=['CD8'], desc='the batch encoder writes position and length of each payload but not its bytes',
         edits=[(REC, '                output.extend_from_slice(record_payload.chunk());\n', '')]),
    dict(name='queue_len_check_rejects_equal', props=['C01', 'C07'], rules=['CD10'], desc='the queue-name length check rejects a name that ends exactly at the end of the entry (every entry without payload)',
         edits=[(REC, '        if body.len() < queue_len {', '        if body.len() <= queue_len {')]),
    dict(name='batch_item_len_check_rejects_equal', props=['C01', 'C07'], rules=['CD10'], desc='the batch item length check rejects the last record of every batch',
         edits=[(REC, '        if buffer.len() < len {', '        if buffer.len() <= len {')]),
    dict(name='spare_buffer_not_cleared', props=['C01', 'C07'], rules=['CD11'], desc='the batch encoder no longer clears the reused spare buffer',
         edits=[(REC, '        output.clear();\n        for (position, mut record_payload) in record_payloads {', '        for (position, mut record_payload) in record_payloads {')]),
    dict(name='writer_buffer_never_cleared', props=['C01', 'C07'], rules=['CD11'], desc='neither the record writer nor the entry encoder clears the reused scratch buffer',
         edits=[(RWR, '        self.buffer.clear();\n', ''), (REC, '    fn serialize(&self, buffer: &mut Vec<u8>) {\n        buffer.clear();\n        match *self {', '    fn serialize(&self, buffer: &mut Vec<u8>) {\n        match *self {')]),
]

REFACTORS += [
    dict(name='writer_clear_only_in_encoder', desc='the record writer relies on the encoder clearing the scratch buffer',
         edits=[(RWR, '        self.buffer.clear();\n', '')]),
    dict(name='encoder_clear_only_in_writer', desc='the entry encoder relies on the record writer clearing the scratch buffer',
         edits=[(REC, '    fn serialize(&self, buffer: &mut Vec<u8>) {\n        buffer.clear();\n        match *self {', '    fn serialize(&self, buffer: &mut Vec<u8>) {\n        match *self {')]),
    dict(name='spare_buffer_cleared_by_caller', desc='append_records clears the spare buffer itself, the batch encoder no longer does',
         edits=[(REC, '        output.clear();\n        for (position, mut record_payload) in record_payloads {', '        for (position, mut record_payload) in record_payloads {'),
                (MRL, '        MultiRecord::serialize(payloads, position, &mut multi_record_spare_buffer);', '        multi_record_spare_buffer.clear();\n        MultiRecord::serialize(payloads, position, &mut multi_record_spare_buffer);')]),
    dict(name='queue_name_split_at_checked', desc='the queue name is cut with split_at_checked instead of an explicit comparison',
         edits=[(REC, """        if body.len() < queue_len {
            error!(
                queue_len = queue_len,
                body_len = body.len(),
                "record body too short"
            );
            return None;
        }
        let (queue_bytes, payload) = body.split_at(queue_len);""", """        let Some((queue_bytes, payload)) = body.split_at_checked(queue_len) else {
            error!(
                queue_len = queue_len,
                body_len = body.len(),
                "record body too short"
            );
            return None;
        };""")]),
    dict(name='batch_item_len_gt_form', desc='the batch item length check written as `len > buffer.len()`',
         edits=[(REC, '        if buffer.len() < len {', '        if len > buffer.len() {')]),
]

MUTANTS += [
    dict(name='mem_create_rejects_when_absent', props=['C13'], rules=['QX4'], desc='the queue map rejects create_queue when the queue is NOT there (and overwrites it when it is)',
         edits=[(QS, '        if self.queues.contains_key(queue) {\n            return Err(AlreadyExists);', '        if !self.queues.contains_key(queue) {\n            return Err(AlreadyExists);')]),
    dict(name='mem_delete_rejects_when_present', props=['C13'], rules=['QX4'], desc='the queue map reports MissingQueue when the removal found the queue',
         edits=[(QS, '        if self.queues.remove(queue).is_none() {', '        if self.queues.remove(queue).is_some() {')]),
]

REFACTORS += [
    dict(name='mem_create_via_entry', desc='the queue map creates through the entry API',
         edits=[(QS, """        if self.queues.contains_key(queue) {
            return Err(AlreadyExists);
        }
        self.queues.insert(queue.to_string(), MemQueue::default());
        Ok(())""", """        match self.queues.entry(queue.to_string()) {
            std::collections::hash_map::Entry::Occupied(_) => Err(AlreadyExists),
            std::collections::hash_map::Entry::Vacant(vacant) => {
                vacant.insert(MemQueue::default());
                Ok(())
            }
        }""")]),
    dict(name='mem_delete_via_match', desc='the queue map deletes with a match on the removal result',
         edits=[(QS, """        if self.queues.remove(queue).is_none() {
            warn!(queue = queue, "attempted to remove a non-existing queue");
            return Err(MissingQueue(queue.to_string()));
        }
        Ok(())""", """        match self.queues.remove(queue) {
            Some(_) => Ok(()),
            None => {
                warn!(queue = queue, "attempted to remove a non-existing queue");
                Err(MissingQueue(queue.to_string()))
            }
        }""")]),
]

MUTANTS += [
    dict(name='tracker_built_when_empty', props=['C10', 'C01'], rules=['FT1'], desc='from_file_numbers returns None for a non-empty list and an empty tracker for an empty one',
         edits=[(FNUM, '        if file_numbers.is_empty() {\n            return None;', '        if !file_numbers.is_empty() {\n            return None;')]),
]

REFACTORS += [
    dict(name='tracker_new_literal', desc='FileTracker::new builds the one-file set directly; from_file_numbers tests len() == 0',
         edits=[(FNUM, '        FileTracker::from_file_numbers(vec![0]).unwrap()', '        let mut files = BTreeSet::new();\n        files.insert(FileNumber::new(0));\n        FileTracker { files }'),
                (FNUM, '        if file_numbers.is_empty() {\n            return None;', '        if file_numbers.len() == 0 {\n            return None;')]),
]

REFACTORS += [
    dict(name='rename_anchor_methods', desc='private/crate methods that rules name are renamed (same signatures): Header::check, FileNumber::can_be_deleted, MemQueue::truncate_head, PersistState::should_persist, FrameType::is_first_frame_of_record',
         edits=[(HDR, '    pub fn check(&self, payload: &[u8]) -> bool {', '    pub fn matches_payload(&self, payload: &[u8]) -> bool {'),
                (FRD, '        if !header.check(frame_payload) {', '        if !header.matches_payload(frame_payload) {'),
                (FNUM, '    pub fn can_be_deleted(&self) -> bool {', '    pub fn is_unreferenced(&self) -> bool {'),
                (FNUM, '        if first.can_be_deleted() {', '        if first.is_unreferenced() {'),
                (DIR, 'self.files.count() >= 2 && self.files.first().can_be_deleted()', 'self.files.count() >= 2 && self.files.first().is_unreferenced()'),
                (FNUM, '        assert!(file.can_be_deleted());', '        assert!(file.is_unreferenced());'),
                (FNUM, '        assert!(!file.can_be_deleted());', '        assert!(!file.is_unreferenced());'),
                (FNUM, '        assert!(!file_clone.can_be_deleted());', '        assert!(!file_clone.is_unreferenced());'),
                (FNUM, '        assert!(file_clone.can_be_deleted());', '        assert!(file_clone.is_unreferenced());'),
                (Q, '    pub fn truncate_head(&mut self, truncate_range: RangeToInclusive<u64>) -> usize {', '    pub fn evict_up_to(&mut self, truncate_range: RangeToInclusive<u64>) -> usize {'),
                (QS, '            Some(queue.truncate_head(position))', '            Some(queue.evict_up_to(position))'),
                (HDR, '    pub fn is_first_frame_of_record(&self) -> bool {', '    pub fn starts_entry(&self) -> bool {'),
                (RRD, '                    if frame_type.is_first_frame_of_record() {', '                    if frame_type.starts_entry() {'),
                ]),
]


# ---- mutants for the rules / clauses added after the fourth seeded round (DESIGN §12)
MUTANTS += [
    dict(name='name_parser_hand_rolled_fold', props=['C10', 'C17'], rules=['FS7'], desc='parse::<u64>().ok() replaced by a digit fold that overflows on 20 digits',
         edits=[(DIR, '    file_name[4..].parse::<u64>().ok()', "    Some(file_name[4..].bytes().fold(0u64, |acc, digit| acc * 10 + (digit - b'0') as u64))")]),
    dict(name='tracker_dense_range', props=['C17', 'C01'], rules=['FT3'], desc='tracker rebuilt as min..=max of the scanned numbers',
         edits=[(FNUM, '        let files = file_numbers.into_iter().map(FileNumber::new).collect();',
                 '        let lo = *file_numbers.iter().min()?;\n        let hi = *file_numbers.iter().max()?;\n        let files = (lo..=hi).map(FileNumber::new).collect();')]),
    dict(name='queue_name_clamped_in_wal', props=['C18', 'C01'], rules=['ISO5'], desc='the encoder writes a clamped prefix of an over-long queue name instead of asserting',
         edits=[(REC, '    assert!(queue.len() <= u16::MAX as usize);\n', '    let queue = &queue[..queue.len().min(u16::MAX as usize)];\n')]),
    dict(name='policy_deadline_subtracts_overshoot', props=['C14'], rules=['NI8'], desc='next deadline = now + (interval - overshoot): Duration subtraction panics on a long idle gap',
         edits=[(PP, '            } => *next_persist = Instant::now() + *interval,', '            } => *next_persist = Instant::now() + (*interval - next_persist.elapsed()),')]),
    dict(name='replay_skips_known_positions', props=['C12'], rules=['RP4'], desc='replay skips a record whose position is below the next position instead of failing the open',
         edits=[(MRL, '                            let (position, payload) = record?;\n', '                            let (position, payload) = record?;\n                            if position < in_mem_queues.next_position(queue).unwrap_or(0) {\n                                continue;\n                            }\n')]),
    dict(name='padding_counted_as_header_len', props=['C15'], rules=['BY1'], desc='padding counted as zero_bytes.len() (always 7) instead of the bytes written',
         edits=[(FWR, '            num_bytes_written += num_bytes_remaining_in_block;', '            num_bytes_written += zero_bytes.len();')]),
    dict(name='empty_queue_scan_gated_by_flag', props=['C01', 'C04', 'C18'], rules=['ISO4', 'GC1'], desc='the empty-queue yielder leaves empty queues out when a flag says so',
         edits=[(QS, '        self.queues.iter_mut().filter_map(|(queue, mem_queue)| {\n            if mem_queue.is_empty() {', '        let many = self.queues.len() > 1000;\n        self.queues.iter_mut().filter_map(move |(queue, mem_queue)| {\n            if !many && mem_queue.is_empty() {')]),
    dict(name='position_pass_skips_some_queues', props=['C01', 'C04'], rules=['GC1'], desc='the position pass skips queues whose next position is 0',
         edits=[(MRL, '            let next_position = queue.next_position();\n            let record = MultiPlexedRecord::RecordPosition {', '            let next_position = queue.next_position();\n            if next_position == 0 {\n                continue;\n            }\n            let record = MultiPlexedRecord::RecordPosition {')]),
    dict(name='map_truncate_fast_path_for_empty', props=['C04'], rules=['PAST4'], desc='MemQueues::truncate answers Some(0) for an empty queue without calling truncate_head',
         edits=[(QS, '        if let Ok(queue) = self.get_queue_mut(queue) {\n            Some(queue.truncate_head(position))', '        if let Ok(queue) = self.get_queue_mut(queue) {\n            if queue.is_empty() {\n                return Some(0);\n            }\n            Some(queue.truncate_head(position))')]),
    dict(name='replay_position_only_for_unknown_queue', props=['C09', 'C01'], rules=['RP5'], desc='RecordPosition replayed only for queues replay does not know yet',
         edits=[(MRL, '                    MultiPlexedRecord::RecordPosition { queue, position } => {\n                        in_mem_queues.ack_position(queue, position);', '                    MultiPlexedRecord::RecordPosition { queue, position } => {\n                        if !in_mem_queues.contains_queue(queue) {\n                            in_mem_queues.ack_position(queue, position);\n                        }')]),
    dict(name='end_of_log_on_checksum_word', props=['C07', 'C08'], rules=['FR3z'], desc='end of log decided on the 4 checksum bytes only',
         edits=[(FRD, '        if header_bytes == [0u8; HEADER_LEN] {', '        if header_bytes[..4] == [0u8; 4] {')]),
]

REFACTORS += [
    dict(name='padding_in_counted_helper', desc='end-of-block padding moved to a helper that returns the number of bytes it wrote',
         edits=[(FWR, '''        let mut num_bytes_written = 0;
        let num_bytes_remaining_in_block = self.wrt.num_bytes_remaining_in_block();

        if num_bytes_remaining_in_block < HEADER_LEN {
            let zero_bytes = [0u8; HEADER_LEN];
            self.wrt
                .write(&zero_bytes[..num_bytes_remaining_in_block])?;
            num_bytes_written += num_bytes_remaining_in_block;
        }
''', '''        let mut num_bytes_written = self.pad_block_if_needed()?;
'''),
                (FWR, '''    /// Flush the buffered writer used in the FrameWriter.''', '''    fn pad_block_if_needed(&mut self) -> io::Result<usize> {
        let num_bytes_remaining_in_block = self.wrt.num_bytes_remaining_in_block();
        if num_bytes_remaining_in_block >= HEADER_LEN {
            return Ok(0);
        }
        let padding = [0u8; HEADER_LEN];
        self.wrt.write(&padding[..num_bytes_remaining_in_block])?;
        Ok(num_bytes_remaining_in_block)
    }

    /// Flush the buffered writer used in the FrameWriter.''')]),
    dict(name='tracker_first_checked_with_question_mark', desc='from_file_numbers tests emptiness through `first()?`',
         edits=[(FNUM, '        if file_numbers.is_empty() {\n            return None;\n        }\n', '        let _first = file_numbers.first()?;\n')]),
]

# ---- mutants for the rules / clauses added after the fifth seeded round (DESIGN §12)
MUTANTS += [
    dict(name='replay_delete_unknown_queue_is_fatal', props=['C01', 'C18'], rules=['RP6'], desc='replaying a DeleteQueue for a queue replay does not know fails the open',
         edits=[(MRL, '                        let _ = in_mem_queues.delete_queue(queue);', '                        in_mem_queues\n                            .delete_queue(queue)\n                            .map_err(|_| ReadRecordError::Corruption)?;')]),
    dict(name='gc_gate_counts_candidates', props=['C06'], rules=['GC6'], desc='GC gate rewritten as count() - 1 > 1 (three files needed)',
         edits=[(DIR, '        self.files.count() >= 2 && self.files.first().can_be_deleted()', '        let num_candidates = self.files.count() - 1;\n        num_candidates > 1 && self.files.first().can_be_deleted()')]),
    dict(name='header_rejected_for_zero_checksum', props=['C09'], rules=['FR9'], desc='Header::deserialize rejects a header whose checksum is zero',
         edits=[(HDR, '        let frame_type = FrameType::from_u8(data[6])?;\n', '        let frame_type = FrameType::from_u8(data[6])?;\n        if checksum == 0u32 {\n            return None;\n        }\n')]),
    dict(name='partial_truncate_keeps_small_prefix', props=['C16'], rules=['MA5'], desc='the payload bytes of a partial truncation are cut only when at least 512 bytes are reclaimed',
         edits=[(Q, '''        for record_meta in &mut self.record_metas {
            record_meta.start_offset -= start_offset_to_keep;
        }
        self.concatenated_records
            .truncate_head(..start_offset_to_keep);''', '''        if start_offset_to_keep >= 512 {
            for record_meta in &mut self.record_metas {
                record_meta.start_offset -= start_offset_to_keep;
            }
            self.concatenated_records
                .truncate_head(..start_offset_to_keep);
        }''')]),
    dict(name='recycled_queue_on_create', props=['C01', 'C04'], rules=['MQ1'], desc='create_queue re-uses the MemQueue of the last deleted queue',
         edits=[(QS, '        self.queues.insert(queue.to_string(), MemQueue::default());', '        let mem_queue = self.queues.remove("").unwrap_or_default();\n        self.queues.insert(queue.to_string(), mem_queue);')]),
]

# ---- mutants for the rules / clauses added after the sixth seeded round
MUTANTS += [
    dict(name='disk_usage_counts_written_bytes', props=['C06', 'C14'], rules=['DU1'], desc='disk usage = full files + what the BufWriter handed to the OS for the last one',
         edits=[(DIR, '        self.directory.files.count() * FILE_NUM_BYTES\n', '        (self.directory.files.count() - 1) * FILE_NUM_BYTES + (self.offset - self.file.buffer().len())\n')]),
    dict(name='truncate_entry_range_clamped', props=['C01', 'C02', 'C04'], rules=['LOG6'], desc='the Truncate entry records a range clamped to the last position, memory uses the caller range',
         edits=[(MRL, '''                .write_record(MultiPlexedRecord::Truncate {
                    truncate_range,
                    queue,
                })?;''', '''                .write_record(MultiPlexedRecord::Truncate {
                    truncate_range: ..=truncate_range.end.min(self.in_mem_queues.last_position(queue)?.unwrap_or(truncate_range.end)),
                    queue,
                })?;''')]),
    dict(name='empty_frame_accepted_unchecked', props=['C08', 'C12'], rules=['FR10'], desc='Header::check accepts frames with len == 0 without comparing the checksum',
         edits=[(HDR, '        crc32(payload, self.frame_type as u8) == self.checksum\n', '        if self.len == 0 {\n            return payload.is_empty();\n        }\n        crc32(payload, self.frame_type as u8) == self.checksum\n')]),
    dict(name='queue_emptiness_by_payload_bytes', props=['C01', 'C04', 'C18'], rules=['MQ2'], desc='MemQueue::is_empty tests the payload buffer instead of the metas',
         edits=[(Q, '        self.record_metas.is_empty()\n    }\n\n    pub(crate) fn first_file_number', '        self.concatenated_records.len() == 0\n    }\n\n    pub(crate) fn first_file_number')]),
    dict(name='replay_file_clone_refreshed_late', props=['C06', 'C01'], rules=['FH3'], desc='the replay loop refreshes its file clone after applying a record (skipped by the Corruption arm)',
         edits=[(MRL, '        loop {\n            let file_number = record_reader.read().current_file().clone();\n', '        let mut file_number = record_reader.read().current_file().clone();\n        loop {\n'),
                (MRL, '            } else {\n                break;\n            }\n        }\n        // io errors are non-recoverable\n', '            } else {\n                break;\n            }\n            file_number = record_reader.read().current_file().clone();\n        }\n        drop(file_number);\n        // io errors are non-recoverable\n')]),
]

# ---- mutants / refactors for the rules and clauses added after the seventh seeded round
MUTANTS += [
    dict(name='wrap_window_right_half_unshifted', props=['C01', 'C08'], rules=['RB1'], desc='get_range, wrap-around case: the second piece is cut at `end`, not at `end - len(first half)`',
         edits=[(RB, '            let end = end - left_part_of_queue.len();\n            res.extend_from_slice(&right_part_of_queue[..end]);', '            res.extend_from_slice(&right_part_of_queue[..end.min(right_part_of_queue.len())]);')]),
    dict(name='second_half_window_start_unshifted', props=['C01', 'C08'], rules=['RB1'], desc='get_range, second-half case: only the end is shifted by the length of the first half',
         edits=[(RB, '            let start = start - left_part_of_queue.len();\n            let end = end - left_part_of_queue.len();\n\n            Cow::Borrowed(&right_part_of_queue[start..end])',
                 '            let end = end - left_part_of_queue.len();\n\n            Cow::Borrowed(&right_part_of_queue[start.min(end)..end])')]),
    dict(name='replay_truncate_guarded_by_position', props=['C01', 'C04', 'C09'], rules=['RP5'], desc='replay applies a Truncate entry only when it is ahead of the queue start',
         edits=[(MRL, '                        in_mem_queues.truncate(queue, truncate_range);', '                        if in_mem_queues.next_position(queue).map_or(true, |next| truncate_range.end < next) {\n                            in_mem_queues.truncate(queue, truncate_range);\n                        }')]),
    dict(name='evict_all_restarts_at_point', props=['C04'], rules=['PAST4'], desc='evict-all path: start_position = truncate_up_to_pos (the truncated-to position is handed out again)',
         edits=[(Q, '            self.start_position = truncate_up_to_pos + 1;\n            self.concatenated_records.clear();', '            self.start_position = truncate_up_to_pos.max(self.next_position());\n            self.concatenated_records.clear();')]),
    dict(name='rebuilt_queue_off_by_one', props=['C01', 'C04'], rules=['MQ3'], desc='with_next_position starts the queue one position late',
         edits=[(Q, '            start_position: next_position,\n            record_metas: Vec::new(),', '            start_position: next_position + 1,\n            record_metas: Vec::new(),')]),
    dict(name='end_of_log_inside_entry_is_corruption', props=['C10', 'C07', 'C11'], rules=['REC8'], desc='NotAvailable inside an entry is answered Corruption (sticky: replay spins)',
         edits=[(RRD, '                Err(ReadFrameError::NotAvailable) => {\n                    return Ok(false);', '                Err(ReadFrameError::NotAvailable) => {\n                    if self.within_record {\n                        return Err(ReadRecordError::Corruption);\n                    }\n                    return Ok(false);')]),
    dict(name='fresh_tracker_file_by_exists', props=['C17', 'C02'], rules=['FS8'], desc='file 0 of a fresh tracker is created only if the path does not exist()',
         edits=[(DIR, '            let file_number = files.first();\n            create_file(dir_path, file_number)?;', '            let file_number = files.first();\n            if !filepath(dir_path, file_number).exists() {\n                create_file(dir_path, file_number)?;\n            }')]),
    dict(name='file_full_test_subtracts_offset', props=['C10'], rules=['ROLL5'], desc='roll-over test written `len > FILE_NUM_BYTES - offset` (underflows on an over-long file)',
         edits=[(DIR, '        if self.offset + buf.len() > FILE_NUM_BYTES {', '        if buf.len() > FILE_NUM_BYTES - self.offset {')]),
    dict(name='writer_resumes_past_cursor', props=['C01', 'C02', 'C07'], rules=['LOG5'], desc='into_writer forwards to the next multiple of 8 after the cursor',
         edits=[(FRD, '        rolling_writer.forward(self.cursor)?;', '        rolling_writer.forward((self.cursor + 7) / 8 * 8)?;')]),
    dict(name='offset_zero_fast_path_keeps_metas', props=['C16'], rules=['MA5'], desc='partial truncation returns early when the first retained record starts at offset 0, metas not drained',
         edits=[(Q, '        self.record_metas.drain(..first_record_to_keep);', '        if start_offset_to_keep == 0 {\n            self.start_position = truncate_up_to_pos + 1;\n            return 0;\n        }\n        self.record_metas.drain(..first_record_to_keep);')]),
    dict(name='middle_frame_wiped_after_append', props=['C07', 'C09', 'C12'], rules=['REC7'], desc='the record buffer is cleared after appending a non-last frame of an open entry when the frame is a Middle one',
         edits=[(RRD, '                    if self.within_record {\n                        self.record_buffer.extend_from_slice(frame_payload);', '                    if self.within_record {\n                        self.record_buffer.extend_from_slice(frame_payload);\n                        if !frame_type.is_first_frame_of_record() && !frame_type.is_last_frame_of_record() && frame_payload.len() > 32_000 {\n                            self.record_buffer.clear();\n                        }')]),
]

REFACTORS += [
    dict(name='wrap_window_by_iterator', desc='get_range wrap-around case through iter().skip(start).take(end - start)',
         edits=[(RB, '''            let mut res = Vec::with_capacity(end - start);
            res.extend_from_slice(&left_part_of_queue[start..]);
            let end = end - left_part_of_queue.len();
            res.extend_from_slice(&right_part_of_queue[..end]);
''', '''            let res: Vec<u8> = self.buffer.iter().skip(start).take(end - start).copied().collect();
''')]),
    dict(name='wrap_window_split_point_named', desc='get_range: the length of the first half read once into a local, pieces cut with it',
         edits=[(RB, '''            let mut res = Vec::with_capacity(end - start);
            res.extend_from_slice(&left_part_of_queue[start..]);
            let end = end - left_part_of_queue.len();
            res.extend_from_slice(&right_part_of_queue[..end]);
''', '''            let split = left_part_of_queue.len();
            let mut res = Vec::with_capacity(end - start);
            res.extend_from_slice(&left_part_of_queue[start..split]);
            res.extend_from_slice(&right_part_of_queue[..end - split]);
''')]),
    dict(name='replay_delete_only_known_queue', desc='replay: DeleteQueue applied under contains_queue (the skipped case was a no-op)',
         edits=[(MRL, '                        let _ = in_mem_queues.delete_queue(queue);', '                        if in_mem_queues.contains_queue(queue) {\n                            let _ = in_mem_queues.delete_queue(queue);\n                        }')]),
    dict(name='new_start_named_once', desc='truncate_head: truncate_up_to_pos + 1 computed once into a local',
         edits=[(Q, '        if truncate_up_to_pos + 1 >= self.next_position() {\n            self.start_position = truncate_up_to_pos + 1;', '        let new_start = truncate_up_to_pos + 1;\n        if new_start >= self.next_position() {\n            self.start_position = new_start;')]),
    dict(name='rebuilt_queue_via_default', desc='with_next_position: Default + field store',
         edits=[(Q, '''        MemQueue {
            concatenated_records: RollingBuffer::new(),
            start_position: next_position,
            record_metas: Vec::new(),
        }
    }

    pub fn summary''', '''        let mut queue = MemQueue::default();
        queue.start_position = next_position;
        queue
    }

    pub fn summary''')]),
    dict(name='end_of_log_drops_partial_entry', desc='NotAvailable: the partial entry is dropped (buffer cleared, flag reset) before answering Ok(false)',
         edits=[(RRD, '                Err(ReadFrameError::NotAvailable) => {\n                    return Ok(false);', '                Err(ReadFrameError::NotAvailable) => {\n                    if self.within_record {\n                        self.within_record = false;\n                        self.record_buffer.clear();\n                    }\n                    return Ok(false);')]),
    dict(name='into_writer_cursor_named', desc='into_writer: cursor read into a local before the reader is consumed',
         edits=[(FRD, '        let mut rolling_writer: RollingWriter = self.reader.into_writer()?;\n        rolling_writer.forward(self.cursor)?;', '        let resume_at: usize = self.cursor;\n        let mut rolling_writer: RollingWriter = self.reader.into_writer()?;\n        rolling_writer.forward(resume_at)?;')]),
]

MUTANTS += [
    dict(name='next_position_from_first_meta', props=['C04', 'C01'], rules=['MQ4'], desc='next_position() reads the FIRST record meta',
         edits=[(Q, '        self.record_metas\n            .last()\n            .map(|record| record.position + 1)\n            .unwrap_or(self.start_position)', '        self.record_metas\n            .first()\n            .map(|record| record.position + 1)\n            .unwrap_or(self.start_position)')]),
    dict(name='next_position_is_last_position', props=['C04', 'C01'], rules=['MQ4'], desc='next_position() answers the last position itself',
         edits=[(Q, '            .map(|record| record.position + 1)\n            .unwrap_or(self.start_position)', '            .map(|record| record.position)\n            .unwrap_or(self.start_position)')]),
    dict(name='meta_offset_after_extend', props=['C04', 'C01'], rules=['MQ4'], desc='append_record extends the payload buffer before reading its length for the meta',
         edits=[(Q, '        let record_meta = RecordMeta {\n            start_offset: self.concatenated_records.len(),', '        self.concatenated_records.extend(payload);\n        let record_meta = RecordMeta {\n            start_offset: self.concatenated_records.len(),'),
                (Q, '        self.record_metas.push(record_meta);\n        self.concatenated_records.extend(payload);', '        self.record_metas.push(record_meta);')]),
]

REFACTORS += [
    dict(name='next_position_match_form', desc='next_position() as a match on record_metas.last()',
         edits=[(Q, '        self.record_metas\n            .last()\n            .map(|record| record.position + 1)\n            .unwrap_or(self.start_position)', '        match self.record_metas.last() {\n            Some(record) => 1 + record.position,\n            None => self.start_position,\n        }')]),
    dict(name='meta_offset_named_local', desc='append_record reads the buffer length into a local before building the meta',
         edits=[(Q, '        let record_meta = RecordMeta {\n            start_offset: self.concatenated_records.len(),', '        let start_offset = self.concatenated_records.len();\n        let record_meta = RecordMeta {\n            start_offset,')]),
]

MUTANTS += [
    dict(name='record_window_ends_two_metas_on', props=['C01', 'C08'], rules=['RB2'], desc='range(): the end of a record window is read from the meta two places on',
         edits=[(Q, 'if let Some(next_record_meta) = self.record_metas.get(idx + 1) {', 'if let Some(next_record_meta) = self.record_metas.get(idx + 2) {')]),
    dict(name='record_window_starts_at_next_meta', props=['C01', 'C08'], rules=['RB2'], desc='range(): the window starts at the offset of the next meta whenever there is one',
         edits=[(Q, '''                let payload = if let Some(next_record_meta) = self.record_metas.get(idx + 1) {
                    let end_offset = next_record_meta.start_offset;
                    self.concatenated_records
                        .get_range(start_offset..end_offset)''', '''                let payload = if let Some(next_record_meta) = self.record_metas.get(idx + 1) {
                    let end_offset = next_record_meta.start_offset;
                    self.concatenated_records
                        .get_range(start_offset.max(end_offset)..end_offset)''')]),
    dict(name='last_record_cut_at_first_meta', props=['C01', 'C08'], rules=['RB2'], desc='last_record(): payload cut from the start offset of the first meta',
         edits=[(Q, '            payload: self.concatenated_records.get_range(record.start_offset..),', '            payload: self\n                .concatenated_records\n                .get_range(self.record_metas.first().map_or(0, |first| first.start_offset)..),')]),
]

REFACTORS += [
    dict(name='record_window_match_form', desc='range(): the next meta looked up with a match, bounds named',
         edits=[(Q, '''                let payload = if let Some(next_record_meta) = self.record_metas.get(idx + 1) {
                    let end_offset = next_record_meta.start_offset;
                    self.concatenated_records
                        .get_range(start_offset..end_offset)
                } else {
                    self.concatenated_records.get_range(start_offset..)
                };''', '''                let next_idx = idx + 1;
                let payload = match self.record_metas.get(next_idx) {
                    None => self.concatenated_records.get_range(start_offset..),
                    Some(next_record_meta) => self
                        .concatenated_records
                        .get_range(start_offset..next_record_meta.start_offset),
                };''')]),
]

MUTANTS += [
    dict(name='revert_fix4_failed_creation_stays_tracked', props=['C17', 'C06'], rules=['GC13'], desc='revert of fix b18ff6e: the number minted for the next file stays tracked when create_file fails',
         edits=[(DIR, '''                    let file = match create_file(&self.directory.dir, &next_file_number) {
                        Ok(file) => file,
                        Err(io_err) => {
                            // The file was not created: stop tracking its number, so that a retry
                            // goes through the exclusive creation again instead of opening
                            // whatever happens to bear that name.
                            self.directory.files.untrack(&next_file_number);
                            return Err(io_err);
                        }
                    };''', '''                    let file = create_file(&self.directory.dir, &next_file_number)?;''')]),
    dict(name='untrack_on_every_roll_over', props=['C01', 'C02', 'C03', 'C06'], rules=['GC4'], desc='the number of the CURRENT file is un-tracked after a successful roll-over (removal by key outside the failed-creation arm)',
         edits=[(DIR, '            self.file = BufWriter::with_capacity(FRAME_NUM_BYTES, file);\n            self.file_number = file_number;', '            self.file = BufWriter::with_capacity(FRAME_NUM_BYTES, file);\n            self.directory.files.untrack(&self.file_number);\n            self.file_number = file_number;')]),
]

REFACTORS += [
    dict(name='failed_creation_untracks_via_map_err', desc='the un-tracking of fix b18ff6e written with map_err and ?',
         edits=[(DIR, '''                    let file = match create_file(&self.directory.dir, &next_file_number) {
                        Ok(file) => file,
                        Err(io_err) => {
                            // The file was not created: stop tracking its number, so that a retry
                            // goes through the exclusive creation again instead of opening
                            // whatever happens to bear that name.
                            self.directory.files.untrack(&next_file_number);
                            return Err(io_err);
                        }
                    };''', '''                    let files = &mut self.directory.files;
                    let file = create_file(&self.directory.dir, &next_file_number).map_err(|io_err| {
                        files.untrack(&next_file_number);
                        io_err
                    })?;''')]),
]

# ---- mutants for the clauses added after the eighth seeded round
MUTANTS += [
    dict(name='mint_first_plus_count', props=['C17', 'C01', 'C06'], rules=['GC12'], desc='inc mints first + count instead of curr + 1',
         edits=[(FNUM, '        let new_number = *curr.file_number + 1u64;', '        let new_number = *self.first().file_number + self.files.len() as u64;')]),
    dict(name='mint_without_lookup', props=['C18', 'C06', 'C01'], rules=['GC12'], desc='inc mints curr + 1 without looking the successor up in the tracked set',
         edits=[(FNUM, '''        if let Some(file) = self
            .files
            .range((Excluded(*curr.file_number), Unbounded))
            .next()
        {
            return file.clone();
        }
        let new_number''', '''        let _ = (Excluded(0u64), Unbounded::<u64>);
        let new_number''')]),
    dict(name='batch_encoder_skips_empty_items', props=['C12', 'C07', 'C01'], rules=['CD8'], desc='serialize_with_pos continues past items with an empty payload, header included',
         edits=[(REC, '            let record_payload = &mut record_payload;\n            output.extend_from_slice(&position.to_le_bytes());', '            let record_payload = &mut record_payload;\n            if !record_payload.has_remaining() {\n                continue;\n            }\n            output.extend_from_slice(&position.to_le_bytes());')]),
    dict(name='lossy_name_cut_at_byte_10', props=['C10'], rules=['TAINT4'], desc='the non-UTF-8 name log slices a lossy String at byte 10',
         edits=[(REC, '            let truncated_len = queue_bytes.len().min(10);', '            let lossy_name = String::from_utf8_lossy(queue_bytes);\n            let _name_start: &str = &lossy_name[..lossy_name.len().min(10)];\n            let truncated_len = queue_bytes.len().min(10);')]),
    dict(name='position_pass_with_budget', props=['C01', 'C04', 'C18'], rules=['GC1'], desc='the position pass stops after a byte budget',
         edits=[(MRL, '            num_bytes_written += self.record_log_writer.write_record(record)?;\n        }\n        if num_bytes_written > 0 {', '            num_bytes_written += self.record_log_writer.write_record(record)?;\n            if num_bytes_written > 1_000_000 {\n                break;\n            }\n        }\n        if num_bytes_written > 0 {')]),
    dict(name='position_pass_tidies_queues', props=['C01', 'C04', 'C18'], rules=['GC1'], desc='the position pass calls a &mut method of the queues it walks',
         edits=[(MRL, '            let next_position = queue.next_position();\n            let record = MultiPlexedRecord::RecordPosition {', '            let _ = queue.truncate_head(..=0u64);\n            let next_position = queue.next_position();\n            let record = MultiPlexedRecord::RecordPosition {')]),
    dict(name='created_queue_starts_at_map_size', props=['C01', 'C04'], rules=['MQ1'], desc='create_queue builds the queue for a position read from the map',
         edits=[(QS, '        self.queues.insert(queue.to_string(), MemQueue::default());', '        let position = self.queues.len() as u64;\n        self.queues.insert(queue.to_string(), MemQueue::with_next_position(position));')]),
    dict(name='open_refuses_after_the_loop', props=['C09', 'C01'], rules=['RP6'], desc='open returns a Corruption of its own after the replay loop',
         edits=[(MRL, '        // io errors are non-recoverable\n        let record_log_writer', '        if in_mem_queues.list_queues().next().is_none() && in_mem_queues.contains_queue("?") {\n            return Err(ReadRecordError::Corruption);\n        }\n        // io errors are non-recoverable\n        let record_log_writer')]),
    dict(name='buffer_len_counts_capacity_share', props=['C16'], rules=['MA6'], desc='RollingBuffer::len adds a share of the capacity',
         edits=[(RB, '    pub fn len(&self) -> usize {\n        self.buffer.len()\n    }', '    pub fn len(&self) -> usize {\n        self.buffer.len() + self.buffer.capacity() / 1024\n    }')]),
    dict(name='undecodable_header_not_quarantined', props=['C08'], rules=['FR3'], desc='an undecodable header no longer sets block_corrupted',
         edits=[(FRD, '            None => {\n                self.block_corrupted = true;\n                Err(ReadFrameError::Corruption)', '            None => {\n                self.cursor += HEADER_LEN;\n                Err(ReadFrameError::Corruption)')]),
]

# ---- re-classified after seeded round 9 (DESIGN 12, round 9): was listed among the refactors
MUTANTS += [
    dict(name='truncate_mem_before_log', props=['C02', 'C01', 'C04'], rules=['LOG1'], desc='truncate: the in-memory update moved before the WAL write. Kept as a REFACTOR ("fault-free equivalent") until seeded change r9_C02_B demonstrated the difference: when the write fails (a roll-over that cannot create its file) the call returns Err with records already evicted and pins released, the next GC unlinks the file, a restart has lost records no successful call removed',
         edits=[(MRL, '''        let mut num_bytes_written =
            self.record_log_writer
                .write_record(MultiPlexedRecord::Truncate {
                    truncate_range,
                    queue,
                })?;
        let evicted_records = self
            .in_mem_queues
            .truncate(queue, truncate_range)
            .unwrap_or(0);''', '''        let evicted_records = self
            .in_mem_queues
            .truncate(queue, truncate_range)
            .unwrap_or(0);
        let mut num_bytes_written =
            self.record_log_writer
                .write_record(MultiPlexedRecord::Truncate {
                    truncate_range,
                    queue,
                })?;''')]),
]

# ---- mutants for the rules and clauses added after the ninth seeded round
MUTANTS += [
    dict(name='truncate_quiet_ok_for_max_position', props=['C04', 'C01', 'C13'], rules=['QX5'], desc='truncate answers Ok without a WAL entry for one special position',
         edits=[(MRL, '        let mut num_bytes_written =\n            self.record_log_writer\n                .write_record(MultiPlexedRecord::Truncate {', '        if truncate_range.end == u64::MAX {\n            return Ok(TruncateOutcome {\n                evicted_records: 0,\n                wal_bytes_written: 0,\n            });\n        }\n        let mut num_bytes_written =\n            self.record_log_writer\n                .write_record(MultiPlexedRecord::Truncate {')]),
    dict(name='position_pass_counts_running_total', props=['C15'], rules=['BY8'], desc='the GC position loop adds the running total to itself',
         edits=[(MRL, '            num_bytes_written += self.record_log_writer.write_record(record)?;\n        }\n        if num_bytes_written > 0 {', '            num_bytes_written += num_bytes_written + self.record_log_writer.write_record(record)?;\n        }\n        if num_bytes_written > 0 {')]),
    dict(name='first_file_clone_across_gc', props=['C06'], rules=['GC3b'], desc='a clone of the first file number is kept across the unlink loop',
         edits=[(MRL, '            let _file_number = self.record_log_writer.current_file().clone();', '            let _file_number = self.record_log_writer.current_file().clone();\n            let _first_before_gc = self.record_log_writer.directory().first_file_number().clone();')]),
    dict(name='drain_index_defaults_to_zero', props=['C16'], rules=['MA5'], desc='truncate_head: position_to_idx(..).unwrap_or_default()',
         edits=[(Q, '            .position_to_idx(truncate_up_to_pos + 1)\n            .unwrap_or_else(std::convert::identity);', '            .position_to_idx(truncate_up_to_pos + 1)\n            .unwrap_or_default();')]),
    dict(name='untrack_only_when_unreferenced', props=['C17', 'C06'], rules=['GC13'], desc='untrack returns early unless can_be_deleted() (never true for the handle the caller holds)',
         edits=[(FNUM, '    pub fn untrack(&mut self, file_number: &FileNumber) {\n        self.files.remove(file_number);', '    pub fn untrack(&mut self, file_number: &FileNumber) {\n        if !file_number.can_be_deleted() {\n            return;\n        }\n        self.files.remove(file_number);')]),
]
