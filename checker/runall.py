"""Run every rule on one fact file; print JSON {violated: {rule: [keys]}, missing: [...], props_failed: [...]}."""
import sys, os, json, glob, importlib
sys.path.insert(0, os.path.dirname(os.path.abspath(__file__)))
from core import Facts
from engine import Ctx, run_rules, RULES, PROP_RULES
for m in sorted(glob.glob(os.path.join(os.path.dirname(os.path.abspath(__file__)), 'rules_*.py'))):
    importlib.import_module(os.path.basename(m)[:-3])
f = Facts(sys.argv[1])
ctx = Ctx(f)
out = run_rules(ctx, list(RULES))
viol = {}
miss = []
for rid, rs in out.items():
    for r in rs:
        if r.status == 'violation':
            viol.setdefault(rid, []).append(r.key + ' :: ' + r.msg[:160])
        elif r.status == 'anchor-missing':
            miss.append('%s:%s %s' % (rid, r.key, r.msg[:200]))
if os.environ.get('MRL_PRE_FIX4') == '1':
    # the scratch tree is the parent of the fourth repair (see scratch.sh): its one known finding is not the patch's doing
    viol.pop('GC13', None)
failed_rules = set(viol) | {m.split(':')[0] for m in miss}
props_failed = sorted(p for p, rids in PROP_RULES.items() if failed_rules & set(rids))
print(json.dumps({'violated': viol, 'missing': miss, 'props_failed': props_failed}))
