#!/usr/bin/env python3
"""Copies verified seeded changes from the agents' output (/tmp/seed_out) into /verif/seeded/<id>_<X>/ and
writes meta.json (property, what it needs to manifest, what I ran, which rules catch it on the current checker)."""
import json, os, shutil, sys
HERE = os.path.dirname(os.path.abspath(__file__))
VERIF = os.path.dirname(HERE)
sys.path.insert(0, HERE)
from run import analyse

SRC = sys.argv[1] if len(sys.argv) > 1 else '/tmp/seed_out'
VS = sys.argv[2] if len(sys.argv) > 2 else '/tmp/vs'

DESC = {
 'C01_A': ('multi_record_log.rs run_gc_if_necessary', 'GC guard clone of the current file taken after the position pass instead of before', 'a GC pass whose empty-queue position records straddle a WAL file boundary, nothing else live in the first of the two files, then a restart'),
 'C01_B': ('multi_record_log.rs delete_queue', 'in-memory delete moved after the GC pass and the fsync ("memory only once durable")', 'deleting an EMPTY queue in a call that also triggers GC (>= 2 files, oldest unreferenced), then a restart: the queue reappears'),
 'C02_A': ('rolling/directory.rs RollingReader::next_block', 'reader state (file, file_number, block_id) assigned before the first block of the next file is read', 'a crash between create_new and set_len of the next file (0-byte last file), recovery, an append, another restart'),
 'C02_B': ('recordlog/reader.rs go_next', 'reassembly restructured: a First/Full frame arriving while an entry is open no longer clears the buffer', 'a crash between two frames of a multi-block entry, recovery, one more entry, restart'),
 'C03_A': ('rolling/directory.rs RollingWriter write/persist', '`dirty` flag lets persist(FlushAndFsync) return early; the first write of a new file is never marked dirty', 'an operation whose last frame rolls over to a new file, persisted via FlushAndFsync, then a crash'),
 'C03_B': ('multi_record_log.rs truncate', 'GC and persist_on_policy only when evicted_records > 0', 'Always policy, truncate of an empty queue past its end, crash right after the call'),
 'C04_A': ('multi_record_log.rs run_gc_if_necessary', 'same mechanism as C01_A found independently (guard after the pass)', 'idle empty queues + position records rolling over during GC + restart'),
 'C04_B': ('multi_record_log.rs truncate', 'memory truncate first, Truncate entry only written when evicted_records > 0', 'truncate of an empty queue to a future position, restart, automatic-position append'),
 'C06_A': ('multi_record_log.rs truncate', 'GC pass only when evicted_records > 0', 'all queues drained, WAL rolled by bookkeeping records only, one more no-evict truncate'),
 'C06_B': ('mem/queues.rs + multi_record_log.rs delete_queue', 'delete_queue returns the removed MemQueue which the caller keeps alive across the GC pass', 'several queues, roll-over, deleting the queue that alone pins the oldest file'),
 'C07_A': ('rolling/directory.rs RollingReader::next_block', 'same mechanism as C02_A found independently', '0-byte trailing WAL file, reopen, append, reopen'),
 'C07_B': ('recordlog/reader.rs go_next', 'record_buffer.clear() hoisted to the top of go_next', 'multi-block entry torn by a crash (non-default policy), reopen, append, reopen'),
 'C08_A': ('recordlog/reader.rs go_next', 'within_record = false dropped in the Corruption arm', 'entries crossing a block boundary + damage killing the tail of X and the First frame of Y with matching lengths'),
 'C08_B': ('frame/reader.rs get_frame_header/read_frame', 'invalid header quarantines the block and silently continues with the next block (no Corruption reported)', 'an invalid frame-type byte while a multi-frame entry is open; another entry starting in the damaged block'),
 'C09_A': ('recordlog/reader.rs go_next', 'on Corruption, frames are consumed until a Last frame ("skip the rest of the entry")', 'payload damage in the LAST fragment of a multi-block entry followed by another entry'),
 'C09_B': ('mem/queues.rs ack_position', '`next_position() != p` weakened to `< p` ("only move forward")', 'queue emptied, deleted and re-created, with frame damage on the DeleteQueue entry'),
 'C10_A': ('frame/reader.rs read_frame', 'frame_end computed before the cursor moves past the header: bounds check 7 bytes too lenient', 'a header with a length in the 7-value window at the end of a block'),
 'C10_B': ('rolling/directory.rs filename_to_position', 'split_at(4) before the prefix check', 'a stray 24-byte file name with a multi-byte character across byte 4'),
 'C11_A': ('rolling/directory.rs next_block', 'NotFound when opening the next WAL file treated as end of log', 'a second-or-later WAL file that cannot be opened (NotFound)'),
 'C11_B': ('recordlog/reader.rs go_next', 'IoError and Corruption arms collapsed into Corruption', 'any I/O error on a later block/file during replay (open spins or silently skips)'),
 'C12_A': ('recordlog/reader.rs go_next', 'match flattened into early returns, within_record reset lost in both error arms', 'a batch of >= 3 frames with CRC damage in a non-first frame and aligned item boundaries'),
 'C12_B': ('frame/header.rs crc32 / for_payload / check', 'checksum no longer covers the frame-type byte (both sides)', 'single-byte damage turning First->Full or Middle->Last in a multi-frame batch'),
 'C13_A': ('multi_record_log.rs append_records', 'retry/past guards compare with last_record() (None once the queue is empty) instead of next_position', 'a fully truncated queue + an append with an explicit position at or before the old last position'),
 'C13_B': ('multi_record_log.rs append_records', 'an extra persist_on_policy() at the top of the function, before every check', 'OnDelay policy, buffered appends, deadline elapsed, then a rejected / no-op append'),
 'C14_A': ('multi_record_log.rs persist_on_policy/truncate/append_records', 'GC pass moved into persist_on_policy (control-dependent on should_persist)', 'non-default policy + roll-over + a truncate freeing the first file'),
 'C14_B': ('rolling/directory.rs write/persist + roll_over helper', 'persist(FlushAndFsync) rolls over immediately when the file is exactly full', 'a WAL file filled to its last byte when an fsync-level persist is issued'),
 'C15_A': ('frame/writer.rs write_frame', 'padding moved into a helper returning (); write_frame returns header + payload only', 'a frame starting with 1..6 bytes left in the block'),
 'C15_B': ('multi_record_log.rs delete_queue', 'bytes returned by the GC pass no longer added to the outcome', 'a delete_queue that itself triggers GC with another queue empty'),
 'C16_A': ('mem/queue.rs truncate_head', 'emptying branch split; the future-position branch no longer clears the payload buffer', 'non-empty queue truncated strictly beyond its last record'),
 'C16_B': ('mem/queue.rs size', 'size() adds 24 bytes per retained FileNumber handle, capacity() does not', 'exact-fit alignment of record count and buffer capacity'),
 'C17_A': ('rolling/directory.rs Directory::open', 'dir_entry.file_type()?.is_file() -> dir_entry.path().is_file() (follows symlinks)', 'a symlink named wal-<20 digits> pointing at a regular file'),
 'C17_B': ('rolling/directory.rs filename_to_position', 'strip_prefix + parse, ASCII digit test dropped as redundant', 'a foreign file named wal-+<19 digits>'),
 'C18_A': ('recordlog/reader.rs go_next', 'same mechanism as C07_B found independently', 'torn multi-block append on q2 under DoNothing, recovery, append on q1, restart'),
 'C18_B': ('multi_record_log.rs run_gc_if_necessary', '`let _file_number = ..` -> `let _ = ..` (guard dropped at once)', '40 idle empty queues whose position records straddle a file boundary during a GC triggered by another queue'),
}


DESC2 = {
 'C01_A': ('multi_record_log.rs run_gc_if_necessary', 'guard clone taken after the position pass (third independent rediscovery)', 'all queues empty, position records straddling a file boundary during GC, restart'),
 'C01_B': ('multi_record_log.rs truncate', 'memory truncate first, early return without writing the Truncate entry when nothing was evicted', 'truncate of an empty queue into the future, clean restart before any GC'),
 'C01_C': ('multi_record_log.rs delete_queue', 'in-memory delete moved after GC + fsync', 'deleting an empty queue while a GC is pending, restart'),
 'C02_A': ('rolling/directory.rs Directory::open', 'the scan skips zero-length WAL files as crash leftovers (they stay on disk, untracked)', 'crash between create_new and set_len, restart, writes up to the next roll-over: create_new fails forever'),
 'C02_B': ('rolling/directory.rs Directory::gc', 'unused files collected first, then unlinked newest-first', 'a GC removing >= 2 files with a crash between the two unlinks: a hole instead of a suffix'),
 'C02_C': ('recordlog/reader.rs go_next', 'record_buffer.clear() at the top of go_next (fourth rediscovery)', 'crash between two frames of a block-spanning entry, recovery, one more entry, restart'),
 'C03_A': ('rolling/directory.rs RollingWriter persist (+ synced_offset field)', 'persist(FlushAndFsync) skipped when offset == synced_offset; offset resets at roll-over, synced_offset does not', 'un-fsynced writes totalling an exact multiple of the file size between two fsync-level persists'),
 'C03_B': ('multi_record_log.rs run_gc_if_necessary', '`let _file_number` -> `let _` (guard dropped at once)', 'all queues empty, cursor within one position record of the file end during GC'),
 'C03_C': ('recordlog/reader.rs go_next', 'a First/Full frame seen while an entry is open returns Err(Corruption) (the valid frame is consumed and dropped)', 'lazy policy, crash between frames of a multi-frame append, recovery, a persisted operation, restart'),
 'C04_A': ('multi_record_log.rs run_gc_if_necessary', 'guard clone after the position pass (rediscovery)', 'idle empty queues, position records straddling a boundary, restart'),
 'C04_B': ('multi_record_log.rs truncate', 'Truncate entry only written when the in-memory queue is non-empty', 'empty queue truncated ahead of its head, restart, automatic-position append'),
 'C04_C': ('mem/queue.rs truncate_head', 'start_position set from next_position() instead of truncate position + 1 in the evict-everything branch', 'a truncate strictly beyond the last appended position, then an automatic-position append'),
 'C06_A': ('multi_record_log.rs truncate', 'GC only when evicted_records > 0', 'roll-over while every later truncate is a no-op'),
 'C06_B': ('multi_record_log.rs open_with_prefs', 'per-iteration FileNumber clone hoisted out of the replay loop: alive during the recovery GC', 'last read crossing into an all-zero following file with nothing retained in the previous one'),
 'C06_C': ('mem/queues.rs + multi_record_log.rs delete_queue', 'removed MemQueue returned and kept alive across the GC pass (rediscovery)', 'deleting the queue that alone pins the oldest files'),
 'C07_A': ('frame/writer.rs + frame/reader.rs', 'header-only frames no longer emitted/read when exactly HEADER_LEN bytes remain (both sides changed, empty entries differ)', 'an empty WAL entry starting with exactly 7 bytes left in a block'),
 'C07_B': ('recordlog/reader.rs go_next', 'record_buffer.clear() at the top of go_next (rediscovery; needs a crash, not a fault-free C07 violation)', 'DoNothing policy, torn multi-block append, reopen, append, reopen'),
 'C07_C': ('frame/reader.rs get_frame_header', 'end-of-log test on the checksum word only ("a CRC is never 0")', 'a payload crafted so that the frame CRC is 0'),
 'C08_A': ('frame/reader.rs read_frame', 'an unparseable header makes read_frame loop to the next block instead of returning Corruption (the quarantine is swallowed by the caller)', 'multi-frame entry in flight across the damaged block with lost bytes cancelling out'),
 'C08_B': ('frame/header.rs crc32/for_payload/check', 'checksum covers the len field instead of the frame-type byte', 'a one-bit flip of a non-first frame type plus a payload containing entry-looking bytes at that boundary'),
 'C08_C': ('recordlog/reader.rs go_next', 'match flattened into early returns, within_record resets lost', 'entry of >= 3 frames, payload damage in a middle frame, aligned item stride'),
 'C09_A': ('frame/reader.rs read_frame (+ is_at_tail helper)', 'a CRC mismatch is treated as a torn tail (NotAvailable, end of log) when the rest of the block is zero', 'damaged frame that is the last of its block with valid blocks after it'),
 'C09_B': ('mem/queues.rs ack_position', 'reset in place with truncate_head (cannot rewind) instead of remove + insert', 'queue deleted and re-created with damage exactly on the DeleteQueue frame'),
 'C09_C': ('recordlog/reader.rs go_next + read_record', 'two cooperating hunks: reset dropped on Corruption; undecodable entry reported as IoError(InvalidData)', 'entry of >= 3 frames with damage in a middle fragment: open fails'),
 'C10_A': ('frame/reader.rs read_frame', 'frame-fits test done before cursor += HEADER_LEN through num_bytes_to_end_of_block() (7 bytes too generous)', 'a header whose length ends the frame 1..=7 bytes past the block end'),
 'C10_B': ('rolling/directory.rs read_block', 'read_exact replaced by a hand-written read loop whose EOF arm only fires with nothing read: spins on a file ending mid-block', 'a WAL file whose length is not a multiple of 32 KiB, reached by replay'),
 'C10_C': ('rolling/directory.rs filename_to_position', 'split_at(4) before the prefix test (rediscovery)', 'a 24-byte stray name with a multi-byte character across byte 4'),
 'C11_A': ('rolling/directory.rs next_block', 'any open error on the LAST listed WAL file is treated as a crash leftover (end of log)', 'a multi-file WAL and an open error exactly on the newest file'),
 'C11_B': ('recordlog/reader.rs go_next', 'an I/O error hitting while an entry is being assembled is reported as Corruption', 'entry spanning a boundary and a transient I/O error when loading its tail'),
 'C11_C': ('rolling/directory.rs open_file + roll-over', 'open_file opens with create(true): a listed file that went missing is silently recreated empty', 'a non-first WAL file disappearing between listing and replay'),
 'C12_A': ('frame/header.rs crc32', 'one-shot crc32fast::hash(payload): frame type no longer under the CRC (rediscovery)', 'type byte damaged into another valid type in a multi-block batch with aligned items'),
 'C12_B': ('recordlog/reader.rs go_next', 'flattened match loses the within_record resets (rediscovery)', 'CRC damage in a non-first frame of a >= 3 frame batch'),
 'C12_C': ('frame/reader.rs get_frame_header', 'an undecodable header skips to the next block and returns that block\'s header instead of Corruption', 'type byte of a non-first frame damaged to an unknown value'),
 'C13_A': ('multi_record_log.rs append_records', 'retry/past guard compares with last_record() (None for an emptied queue) (rediscovery)', 'fully truncated queue + append with an explicit position in the past'),
 'C13_B': ('multi_record_log.rs append_records', 'empty-batch test moved before serialisation using size_hint().1 == Some(0)', 'an empty batch from an iterator with an inexact size hint'),
 'C13_C': ('multi_record_log.rs delete_queue', 'next_position(queue)? lookup dropped (position unused on replay): the only existence check before the WAL write', 'delete_queue on a missing queue: a DeleteQueue entry is written before the call is rejected'),
 'C14_A': ('rolling/directory.rs persist + roll_to_next_file helper', 'persist(FlushAndFsync) rolls over when the file is exactly full', 'a record ending exactly at the file end with an fsync-level persist at that moment'),
 'C14_B': ('multi_record_log.rs truncate', 'persist_on_policy inlined, GC only when the policy says persist', 'non-default policy + roll-over + a truncate freeing the oldest file'),
 'C14_C': ('persist_policy.rs update_persisted', 'next deadline advanced by whole intervals: divides by the interval', 'OnDelay with a zero interval: panic after the WAL write'),
 'C15_A': ('recordlog/writer.rs write_record', 'per-frame count computed as HEADER_LEN + payload instead of what write_frame returns (padding lost)', 'previous entry ending 1..6 bytes before a block boundary'),
 'C15_B': ('multi_record_log.rs truncate', 'an error of the GC pass is logged and ignored ("best effort")', 'an I/O fault in the unlink/fsync phase after position entries were appended'),
 'C15_C': ('multi_record_log.rs record_empty_queues_position', '`num_bytes_written = n` instead of `+=` while adding a trace line', 'a GC pass with two or more empty queues'),
 'C16_A': ('mem/queue.rs truncate_head', 'beyond-the-end branch drops the metas with mem::take and keeps the payload buffer', 'non-empty queue truncated strictly beyond its last record'),
 'C16_B': ('mem/queues.rs ack_position + MemQueue::reset', 'existing queue reset in place: metas cleared, payload buffer kept', 'a lost Truncate entry followed by a surviving RecordPosition at reopen'),
 'C16_C': ('mem/rolling_buffer.rs truncate_head + mem/queue.rs', 'buffer returns released bytes with an off-by-one bounds guard; queue rebases on it', 'a partial truncation after which every retained record has an empty payload'),
 'C17_A': ('rolling/directory.rs Directory::open', 'dir_entry.path().is_file() (follows symlinks) (rediscovery)', 'a symlink named like a WAL file'),
 'C17_B': ('rolling/directory.rs roll-over + open_or_create_file helper', 'roll-over unified through a helper opening with create(true): exclusive creation lost', 'a foreign (dangling) symlink named exactly as the next WAL file'),
 'C17_C': ('rolling/directory.rs filename_to_position', 'strip_prefix + parse without the ASCII digit test (rediscovery)', 'a foreign file named wal-+<19 digits>'),
 'C18_A': ('recordlog/reader.rs go_next', 'record_buffer.clear() hoisted to the top of go_next (rediscovery)', 'DoNothing policy, torn multi-frame append on queue a, recovery, append on b, restart'),
 'C18_B': ('multi_record_log.rs delete_queue', 'run_gc_if_necessary inlined as directory().gc(): the position pass is lost', 'deleting the queue that alone pins the oldest files while other queues are empty, restart'),
 'C18_C': ('multi_record_log.rs run_gc_if_necessary', 'guard clone taken after the position pass (rediscovery)', 'all queues empty, position records straddling a file boundary, restart'),
}

DESC3 = {
 'C01_A': ('multi_record_log.rs truncate', 'memory truncate first; Truncate entry and GC skipped when nothing was evicted', 'truncate of an empty queue to a future position, clean restart'),
 'C01_B': ('multi_record_log.rs run_gc_if_necessary', 'guard clone of the current file taken after the position pass', 'position records straddling a file boundary during a GC pass, restart'),
 'C01_C': ('rolling/file_number.rs take_all_unused + rolling/directory.rs gc_unused + delete_queue', 'delete_queue reclaims EVERY unreferenced file (filter), not only the oldest prefix', 'an older file still pinned while a newer non-last file holding only bookkeeping entries is unreferenced'),
 'C02_A': ('multi_record_log.rs run_gc_if_necessary', 'guard clone scoped around the position pass: dropped before gc()', 'position records straddling a file boundary, crash/restart'),
 'C02_B': ('rolling/directory.rs RollingReader::next_block + new helper load_first_block', 'helper sets block_id = 0 before it knows a first block can be read', 'crash between create_new and set_len of the next file, reopen, append, reopen'),
 'C02_C': ('recordlog/reader.rs go_next', 'record_buffer.clear() hoisted to the top of go_next under !within_record', 'crash between two frames of a block-spanning entry, reopen, one more entry, reopen'),
 'C03_A': ('rolling/directory.rs RollingWriter::persist + needs_persist + flushed/synced offsets', 'persist skipped when the offset equals the offset of the last flush; offsets not reset at roll-over', 'same offset reached in the next file after a roll-over, then a process crash'),
 'C03_B': ('multi_record_log.rs delete_queue', 'in-memory delete moved after GC and persist', 'deleting an empty queue in a call that also triggers GC, then recovery'),
 'C03_C': ('recordlog/reader.rs go_next', 'record_buffer.clear() moved to the top of go_next', 'torn two-frame append under DoNothing, recovery, persisted append, second crash'),
 'C04_A': ('mem/queue.rs truncate_head', 'early return widened to `is_empty() || start > pos`: an empty queue no longer moves forward', 'truncate of an empty queue at/after its next position, automatic append'),
 'C04_B': ('multi_record_log.rs run_gc_if_necessary / record_empty_queues_position', 'guard clone moved into the position pass (dropped before gc())', 'position records rolling over during GC, restart'),
 'C04_C': ('mem/queues.rs empty_queue_positions (new) + record_empty_queues_position', 'GC records `summary.end.unwrap_or(start)` = last position instead of next position', 'queue emptied at p > 0, files reclaimed, restart, automatic append'),
 'C06_A': ('multi_record_log.rs truncate', 'GC pass only when evicted_records > 0', 'dead older file + a truncate that evicts nothing'),
 'C06_B': ('mem/queues.rs delete_queue + multi_record_log.rs delete_queue', 'the removed MemQueue is returned and kept alive across the GC pass', 'deleting the queue that alone pins older files'),
 'C06_C': ('rolling/directory.rs remove_unused_file (new) used by gc', 'unlink failure only warned about (best-effort GC)', 'an I/O fault on unlink during a GC pass'),
 'C07_A': ('frame/reader.rs into_writer + resume_cursor (new)', 'resume position moved to the block end when remaining <= HEADER_LEN (writer/reader use <)', 'last entry before a reopen leaves exactly 7 bytes in its block'),
 'C07_B': ('recordlog/reader.rs go_next', 'a Middle frame arriving with an empty buffer resets within_record', 'an entry longer than a block starting exactly 7 bytes before a block end (empty First frame)'),
 'C07_C': ('rolling/directory.rs RollingWriter::forward', 'absolute seek at block_start + cursor % BLOCK_NUM_BYTES', 'a WAL file exactly full at reopen (cursor = BLOCK_NUM_BYTES wraps to 0)'),
 'C08_A': ('recordlog/reader.rs go_next + into_read_record_error (new)', 'error handling moved into a helper, within_record reset lost', 'damage in a middle frame of a two-payload batch with matching alignment'),
 'C08_B': ('mem/queue.rs append_record + end_position (new)', 'Past guard compares with start_position + len instead of last position + 1', 'a queue with a position gap, deleted and recreated, with the DeleteQueue/RecordPosition entries damaged'),
 'C08_C': ('frame/header.rs crc32', 'checksum = crc32fast::hash(payload): the frame type is no longer covered', 'damage rewriting exactly a frame-type byte'),
 'C09_A': ('frame/reader.rs read_frame + is_torn_tail (new)', 'CRC mismatch followed by zeros to the block end treated as end of log', 'payload damage in the last frame of a block with entries after it'),
 'C09_B': ('mem/queues.rs ack_position + MemQueue::fast_forward (new)', 'existing queue fast-forwarded with truncate_head instead of reset', 'delete + re-create + append with the DeleteQueue entry damaged'),
 'C09_C': ('recordlog/reader.rs go_next + skip_remaining_fragments (new)', 'on CRC failure frames are consumed up to the next record end', 'damage in the LAST fragment of a multi-block entry followed by another entry'),
 'C10_A': ('rolling/directory.rs filename_to_position + split_wal_file_name (new)', 'split_at(prefix len) before the prefix comparison', 'a stray 24-byte name with a multi-byte character across byte 4'),
 'C10_B': ('mem/queues.rs ack_position', 'stale queue handled with truncate_head(..=next_position - 1)', 'a position record 0 replayed over a queue holding records (duplicated block / lost delete)'),
 'C10_C': ('frame/reader.rs read_frame', 'length check against the bytes-to-end captured before the header was consumed', 'a damaged length making the frame end 1..7 bytes past its block'),
 'C11_A': ('rolling/directory.rs RollingReader::open + read_first_block (new)', 'a first WAL file shorter than a block is read as an all-zero block', 'first WAL file truncated below 32 KiB'),
 'C11_B': ('frame/reader.rs go_to_next_block_if_necessary', 'an I/O error of next_block() while the block is quarantined becomes NotAvailable', 'corrupted last block of a file + failure to open the next file'),
 'C11_C': ('multi_record_log.rs open_with_prefs + MAX_REPLAY_IO_ATTEMPTS', 'retry counter decremented in a shadowing binding: retries forever', 'any persistent I/O error inside the replay loop'),
 'C12_A': ('recordlog/reader.rs go_next + corruption_reported field', 'report-once flag also skips the within_record reset for later corrupt frames', 'two damaged spots: before the batch and in a middle frame of it'),
 'C12_B': ('frame/reader.rs read_frame + skip_rest_of_block (new)', 'an invalid header skips to the next block silently (no Corruption)', 'damage to the type byte of a middle frame of a multi-block batch'),
 'C12_C': ('multi_record_log.rs open_with_prefs AppendRecords arm', 'AppendError::Past skipped during replay ("idempotent")', 'batch X, delete, create, batch Y with the delete/create entries damaged'),
 'C13_A': ('record.rs is_empty_batch (new) + append_records', 'empty-batch test on size_hint before serialisation; the test on the serialised buffer removed', 'an empty batch whose iterator has an inexact size_hint'),
 'C13_B': ('mem/queues.rs cmp_with_last_position (new) + append_records', 'retry/past gates compare with last_record() (None on a drained queue)', 'a fully truncated queue + an explicit stale/retry position'),
 'C13_C': ('rolling/directory.rs roll_to_next_file/file_for_next_write + current_file() callers', 'current_file() rolls over eagerly when the file is exactly full', 'offset == FILE_NUM_BYTES then an empty batch'),
 'C14_A': ('multi_record_log.rs persist_on_policy', 'GC pass run after a policy-driven FlushAndFsync', 'an fsync policy + first file unreferenced at append time'),
 'C14_B': ('frame/writer.rs persist + pad_block (new)', 'fsync pads the block when exactly HEADER_LEN bytes remain', 'fsync policy + an operation ending BLOCK - 7 into a block'),
 'C14_C': ('rolling/directory.rs RollingWriter::write / forward', 'padding shorter than a header skipped through forward(), which seeks the File under the BufWriter', 'lazy policy with buffered bytes + a record ending 1..6 bytes before a block end'),
 'C15_A': ('frame/writer.rs write_frame + cursor_advance (new)', 'byte count taken from the block-cursor delta modulo BLOCK', 'a frame filling a whole block'),
 'C15_B': ('recordlog/writer.rs write_record', 'single-frame fast path returns HEADER_LEN + payload.len(), dropping write_frame\'s count', 'previous record ending 1..6 bytes before a block boundary'),
 'C15_C': ('multi_record_log.rs truncate', 'error of the GC pass logged instead of propagated', 'an I/O error in remove_file during GC with an empty queue present'),
 'C16_A': ('mem/queue.rs size + num_records (new)', 'records counted as next_position - start_position', 'a gap in positions'),
 'C16_B': ('mem/queues.rs ack_position + MemQueue::reset (new)', 'stale queue reset in place: metas cleared, payload buffer kept', 'lost Truncate entry followed by a surviving RecordPosition'),
 'C16_C': ('multi_record_log.rs resource_usage + num_buffered_bytes accessors', 'unflushed BufWriter bytes added to both memory figures', 'a lazy persist policy'),
 'C17_A': ('rolling/directory.rs Directory::open', 'dir_entry.path().is_file() (follows symlinks)', 'a symlink named wal-<20 digits>'),
 'C17_B': ('rolling/file_number.rs FileTracker::next', 'successor looked up as get(curr + 1)', 'a gap in the file numbers at open'),
 'C17_C': ('rolling/mod.rs parse_wal_filename (new) + filename_to_position', 'digit test lost in the "one place" refactor', 'a stray file named wal-+<19 digits>'),
 'C18_A': ('multi_record_log.rs delete_queue + prepare_gc (new)', 'position pass decided while the deleted queue still pins its files; gc() runs after the in-memory delete', 'an idle empty queue whose position lives only in files pinned by the deleted queue'),
 'C18_B': ('recordlog/reader.rs go_next', 'a First/Full frame arriving inside an unfinished entry returns Corruption (the valid frame is dropped)', 'torn multi-frame append on another queue, recovery, append on mine, restart'),
 'C18_C': ('multi_record_log.rs run_gc_if_necessary / record_empty_queues_position', 'guard clone moved into the position pass', 'a position record straddling two files during a GC triggered by another queue'),
}

DESC4 = {
 'C01_A': ('frame/reader.rs go_to_next_block_if_necessary', 'cursor / block_corrupted reset moved before next_block(): at the end of the last file the cursor is 0 while the block reader still sits on the last block', 'a clean reopen followed by an append (the writer resumes at the START of the last block) and another restart'),
 'C01_B': ('mem/queue.rs + mem/queues.rs empty_queues', '"position already recorded" cache: an idle empty queue is not yielded again as long as its position is unchanged', 'an idle empty queue whose only RecordPosition sits in a file that a later GC removes, then a restart'),
 'C01_C': ('rolling/directory.rs has_room_for_record + append_records', 'record attributed to the NEXT file when the current one "has no room" (`> HEADER_LEN` where `>=` is meant)', 'an append starting with exactly 7 bytes left in a WAL file, a truncate that frees that file, a restart'),
 'C02_A': ('rolling/directory.rs RollingReader::next_block', 'self.file / file_number / block_id assigned before the first block of the next file was read', 'a crash leaving an empty trailing WAL file, recovery, an append, another restart'),
 'C02_B': ('multi_record_log.rs persist / write_record helper', '"skip redundant persist" field reset by a write helper that delete_queue does not go through', 'create/append persisted, delete_queue, crash: the DeleteQueue entry is still buffered'),
 'C02_C': ('frame/reader.rs read_frame_header', 'cursor += HEADER_LEN moved before the header validity check: an undecodable header is consumed too', 'a torn header at the end of the log, recovery (the writer resumes 7 bytes too far), append, restart'),
 'C03_A': ('mem/queue.rs + record_empty_queues_position', 'an empty queue whose position is on record in a file newer than the oldest is not recorded again', 'a GC that removes several files at once, including the one holding the only RecordPosition of an idle queue'),
 'C03_B': ('rolling/directory.rs RollingWriter synced flag', '`synced` flag set by the roll-over fsync stays set for the frame that caused the roll-over', 'an entry whose last frame rolls over to a new file, persist(FlushAndFsync), power loss'),
 'C03_C': ('multi_record_log.rs truncate / delete_queue / run_gc_if_necessary', 'persist moved in front of the GC, the unconditional pre-GC fsync dropped as redundant', 'DoNothing / OnDelay policy, truncate freeing a file, crash: the Truncate entry and earlier appends are still buffered'),
 'C04_A': ('mem/queues.rs truncate', 'fast path `Some(0)` when the queue holds no record: truncate_head (which moves an empty queue forward) is skipped', 'truncate of an empty queue beyond its end, then an automatic-position append (live or after a restart)'),
 'C04_B': ('multi_record_log.rs record_empty_queues_position', 'skip the position pass when "already recorded in the current file", the file number being sampled AFTER the writes', 'position records straddling a file boundary, a later GC removing the first of the two files, restart'),
 'C04_C': ('rolling/directory.rs RollingWriter flushed_offset', 'persist(Flush) returns early when offset == flushed_offset; roll-over resets offset but not flushed_offset', 'bytes written since the last persist adding up to exactly one WAL file, then a process crash'),
 'C06_A': ('mem/queue.rs first_file cache', 'cached FileNumber clone of the oldest retained record refreshed only when the last evicted record carries a file marker', 'one truncate evicting past a file marker and stopping in the middle of a later file: the old file stays pinned'),
 'C06_B': ('rolling/directory.rs Directory::open latest_contiguous_run', 'only the run of consecutive numbers ending at the newest file is tracked', 'a hole in the file numbers (interrupted GC): the files before it are neither replayed nor ever removed'),
 'C06_C': ('multi_record_log.rs open_with_prefs', 'a clone of the first FileNumber kept in a local for logging lives across the recovery-time GC', 'a reopen with several files whose oldest is reclaimable: nothing is reclaimed at open'),
 'C07_A': ('frame/reader.rs into_writer resume_cursor', 'the writer resumes at the next block when `<= HEADER_LEN` bytes are left (`<` is what writer and reader use)', 'a log ending with exactly 7 bytes left in a block, reopen, append, reopen'),
 'C07_B': ('frame/header.rs is_unwritten + get_frame_header', 'end-of-log test looks at the 4 checksum bytes only', 'a frame whose CRC32 is 0 (forged payload): it and everything after it is taken for unwritten space'),
 'C07_C': ('rolling/directory.rs RollingReader::next_block', 'block_id += 1 before knowing a block was read', 'a log whose last entry leaves 1..6 bytes at the end of the last block of a file, reopen, append'),
 'C08_A': ('frame/reader.rs next_frame_header helper', 'an undecodable header makes the reader continue with the next block without reporting Corruption', 'an invalid frame-type byte while a multi-frame entry is open: frames before and after the block are glued'),
 'C08_B': ('recordlog/reader.rs corruption_reported flag', 'further Corruptions are swallowed (continue, before within_record = false) until a record completes', 'two damaged frames, the second in the middle of the next multi-frame entry'),
 'C08_C': ('frame/reader.rs read_frame at_end_of_written_data', 'a CRC failure is skipped silently when "nothing follows", which is also true at every block end', 'CRC damage in a First/Middle frame that reaches the end of its block'),
 'C09_A': ('recordlog/reader.rs skip_to_end_of_record', 'on Corruption inside an entry, frames are consumed up to the next Last frame', 'damage in the LAST fragment of a multi-block entry: the next (undamaged) entry is eaten'),
 'C09_B': ('frame/reader.rs last_frame_type / can_follow_last_frame', 'fragment-sequence validation whose state is updated on the success path only: an orphan-looking fragment quarantines its block', 'CRC damage in a First fragment: the block of the following Last fragment is dropped with the entries it holds'),
 'C09_C': ('multi_record_log.rs open_with_prefs replay', 'RecordPosition ignored for a queue replay already knows', 'payload damage on a DeleteQueue entry followed by a re-creation of the queue'),
 'C10_A': ('frame/reader.rs read_frame', 'frame-fits test done before the cursor moves past the header (7 bytes too generous)', 'a damaged 16-bit length in the 7-value window at the end of a block with a valid type byte'),
 'C10_B': ('rolling/directory.rs filename_to_position digits_to_position', 'parse::<u64>().ok() replaced by a hand-rolled digit fold', 'a stray regular file `wal-` + 20 digits above u64::MAX'),
 'C10_C': ('record.rs deserialize + open replay loop', 'lazy validation (new_unchecked) at decode and `continue` on a bad item in replay', 'a CRC-valid AppendRecords entry with a cut-short batch at a particular alignment: next() re-yields the error forever'),
 'C11_A': ('rolling/directory.rs open_file / roll-over', 'open_file gains create(true) (shared with the roll-over)', 'a listed WAL file vanishing before recovery reaches it: re-created empty and skipped'),
 'C11_B': ('frame/reader.rs exhausted + recordlog/reader.rs go_next', 'sticky end-of-log flag set before next_block()? + I/O error inside an entry reported as Corruption', 'an I/O failure while an entry straddling a block/file boundary is being assembled'),
 'C11_C': ('multi_record_log.rs open_with_prefs io_grace_period_is_over', 'grace-period retry of replay I/O errors whose timestamp is reset on every call (Option::insert)', 'any persistent I/O error on a WAL file during replay: open retries forever'),
 'C12_A': ('mem/queues.rs replay_record + open_with_prefs', 'at replay a record below the next position is skipped as "already known" instead of aborting', 'damage on adjacent DeleteQueue and RecordPosition frames of a deleted-and-recreated queue'),
 'C12_B': ('multi_record_log.rs append_records append_chunk', 'a batch is written as one WAL entry per 4096 payloads', 'a batch of more than 4096 records and a crash before its end reaches the disk'),
 'C12_C': ('record.rs MultiRecord::next', 'the "declared length larger than the rest" branch returns None instead of Some(Err)', 'damage + later crash leaving a stale Last fragment after a new First: the batch is cut to its valid prefix'),
 'C13_A': ('record.rs is_empty_batch + append_records', 'empty-batch test done before serialisation through size_hint().1 == Some(0)', 'an empty batch from an iterator with an inexact hint (filter, flat_map)'),
 'C13_B': ('mem/queue.rs is_last_position + append_records', 'retry/past classification through record_metas.last() (loses the start_position fallback)', 'a fully truncated queue and an append with an explicit position at or below the old last one'),
 'C13_C': ('multi_record_log.rs truncate', 'queue_exists pre-check replaced by .ok_or(MissingQueue)? on the in-memory result, after the WAL write', 'a truncate on a missing queue followed by a flush'),
 'C14_A': ('multi_record_log.rs truncate / persist_on_policy', 'GC runs only when persist_on_policy actually persisted', 'DoNothing / OnDelay, a roll-over, a truncate freeing the first files: files and disk_used_bytes differ from Always'),
 'C14_B': ('persist_policy.rs update_persisted', 'next deadline = now + (interval - overshoot): Duration subtraction underflows', 'OnDelay and an idle gap longer than twice the interval: the call panics'),
 'C14_C': ('rolling/directory.rs persist / roll_over', 'persist(FlushAndFsync) rolls over right away when the file is exactly full', 'an append ending exactly on the last byte of a WAL file under an fsync policy vs a lazy one'),
 'C15_A': ('frame/writer.rs pad_block_if_needed', 'padding helper writes padding[..remaining] but returns padding.len()', 'an entry starting with 1..6 bytes left in the block'),
 'C15_B': ('recordlog/writer.rs write_record num_padding_bytes', 'write_frame return value ignored, count recomputed with a padding predictor off by one case', 'an entry starting with exactly 7 bytes left in the block'),
 'C15_C': ('multi_record_log.rs gc_wal_bytes_written field', 'GC bytes accumulated in a field drained by truncate / delete_queue but not by open', 'a recovery-time GC that writes position entries, then the first truncate of the session'),
 'C16_A': ('mem/queue.rs size / num_records', 'per-record overhead multiplied by the position span instead of the number of records', 'an append with an explicit position beyond the next one (a gap)'),
 'C16_B': ('mem/queues.rs size / names_size', 'queue names counted with chars().count()', 'queue names with multi-byte characters'),
 'C16_C': ('multi_record_log.rs memory_usage_cache', 'Cell cache of the memory figures reset at the end of each mutating call, i.e. not on an early error exit', 'resource_usage, then a truncate whose GC fails with an I/O error, then resource_usage'),
 'C17_A': ('rolling/directory.rs open_or_create_sized_file', 'the next file is opened with create(true) instead of create_new(true)', 'a foreign (e.g. symlink) entry carrying the name of the next WAL file at roll-over'),
 'C17_B': ('rolling/file_number.rs from_file_numbers file_number_bounds', 'tracker rebuilt as the dense range min..=max of the scanned numbers', 'a gap in the numbering plus a non-regular entry named like a missing number'),
 'C17_C': ('rolling/directory.rs Directory::open remove_empty_leftover', 'empty regular files are deleted during the scan, before the name was parsed', 'an empty non-WAL regular file (.gitkeep, a lock file) in the directory'),
 'C18_A': ('mem/queues.rs num_empty_queues counter', 'the empty-queue scan is skipped when a counter says no queue is empty; delete_queue decrements it for non-empty queues too', 'delete_queue of a non-empty queue while another queue is the only empty one, GC, restart'),
 'C18_B': ('multi_record_log.rs run_gc_if_necessary', 'the two fsyncs of the GC pass merged into `if bytes_written > 0 { fsync }`', 'lazy policy, a GC at a moment when no queue is empty, crash: another queue\'s buffered records are lost with the deleted file'),
 'C18_C': ('record.rs serialize clamp_queue_name', 'the assert on the name length replaced by cutting the name to its 65535-byte prefix in the WAL', 'a queue whose oversized name starts with another queue\'s maximal-length name, restart'),
}

DESC5 = {
 'C01_A': ('multi_record_log.rs append_record', 'single-record fast path taking current_file().clone() AFTER write_record', 'a record written with append_record that crosses a file boundary, the first file released by a truncate, restart'),
 'C01_B': ('mem/queues.rs spare_queues + mem/queue.rs clear', 'deleted MemQueues are recycled by create_queue; clear() empties through truncate_head and keeps start_position', 'delete a queue that had records, create a queue in the same process, restart'),
 'C01_C': ('file_number.rs take_all_unused + directory.rs gc_unreferenced + delete_queue', 'after delete_queue every unreferenced file except the last is reclaimed, not only a prefix', 'three queues, an old file pinned by a slow queue, a middle file holding Truncate/DeleteQueue entries, delete_queue, restart'),
 'C02_A': ('file_number.rs take_unused + directory.rs gc', 'unused files collected oldest-first into a Vec and unlinked with pop(): newest first', 'a GC removing >= 2 files interrupted between the two unlinks'),
 'C02_B': ('multi_record_log.rs append_records', 'past / retry check against last_record() instead of next_position', 'fully truncated queue, append with an explicit stale position, restart: open fails with Corruption'),
 'C02_C': ('frame/reader.rs read_frame_header', 'cursor advanced before the header validity check', 'a torn header at the end of the log: the writer resumes 7 bytes too far'),
 'C03_A': ('multi_record_log.rs run_gc_if_necessary + record_empty_queues_position', 'one fsync per GC pass, placed BEFORE the position pass, whose own fsync is removed', 'lazy policy, GC while a queue is empty, crash before the next flush'),
 'C03_B': ('file_number.rs take_first_unused (+ unused: Vec field)', 'the whole unused prefix collected at once and handed out with pop(): newest first', 'a GC removing >= 2 files interrupted after the first unlink'),
 'C03_C': ('rolling/directory.rs roll_over helper', 'file_number and offset switched before the fallible create/open of the next file', 'a transient I/O fault when the next file is created, a retry, a truncate of older records'),
 'C04_A': ('mem/queue.rs truncate_head', 'start_position set from next_position() (hoisted local) in the evict-everything branch', 'truncate beyond the last appended position, then an automatic append'),
 'C04_B': ('multi_record_log.rs record_empty_queues_position queue_position', 'position re-recorded at GC = summary.end.unwrap_or(start): last instead of next', 'emptied queue, roll-over, GC, restart, automatic append'),
 'C04_C': ('mem/queues.rs truncate', 'fast path Some(0) for an empty queue (truncate_head skipped)', 'drained queue truncated ahead, automatic append'),
 'C06_A': ('mem/queue.rs first_file cache', 'cached FileNumber clone refreshed only when the first kept record carries a file marker', 'truncate crossing a file boundary and landing mid-file'),
 'C06_B': ('multi_record_log.rs open_with_prefs', 'clone of the first FileNumber kept for an info! after the recovery-time GC', 'crash after a durable Truncate but before the unlink, reopen'),
 'C06_C': ('rolling/directory.rs has_files_that_can_be_deleted', 'gate rewritten as count() - 1 > 1', 'exactly two tracked files, the older one reclaimable'),
 'C07_A': ('frame/reader.rs into_writer resume_cursor', 'writer resumes at the next block when <= HEADER_LEN bytes remain', 'a log ending exactly 7 bytes before a block end, reopen, append, reopen'),
 'C07_B': ('multi_record_log.rs append_records', 'empty-transaction shortcut tests total payload bytes instead of the serialised buffer', 'a batch made only of zero-length entries'),
 'C07_C': ('rolling/directory.rs open_next_file', 'create_file with fallback to open_file on AlreadyExists: the set_len of a reused file is lost', 'crash between creation and sizing of the next file, reopen, roll into it, reopen'),
 'C08_A': ('frame/reader.rs read_frame', 'frame-fits test 7 bytes too lenient, payload slice made checked, Corruption without quarantine', 'a length overshooting the block by 1..7 bytes with frame-shaped bytes in the payload'),
 'C08_B': ('frame/header.rs crc32 update_by_chunks', 'payload hashed with chunks_exact(4096): the remainder is never hashed', 'damage in the last len % 4096 bytes of a large frame'),
 'C08_C': ('mem/queue.rs append_record', 'Past check lost when the last record lives in another WAL file', 'zeroed header at the end of wal-0 with a stale wal-1, reopen, appends, reopen'),
 'C09_A': ('frame/reader.rs read_frame is_on_frame_boundary', 'on CRC failure the rest of the block is dropped unless the next bytes look like a frame start (< for <=)', 'damage in a small frame whose successor ends exactly at the block end'),
 'C09_B': ('frame/header.rs Header::deserialize', 'a header whose checksum field is zero is rejected as partially written', 'damage zeroing the four checksum bytes of one frame with more entries in the block'),
 'C09_C': ('mem/queues.rs ack_position', 'already-in-state test = start_position() != next_position (is_empty dropped)', 'payload damage on a DeleteQueue entry, queue recreated and appended to'),
 'C10_A': ('frame/reader.rs go_to_next_block_if_necessary', 'Corruption instead of NotAvailable when next_block() is false while skipping a damaged block', 'a damaged header in the LAST readable block: the replay loop spins'),
 'C10_B': ('rolling/file_number.rs FileTracker::next', 'successor lookup as range(curr + 1..)', 'a stray wal-18446744073709551615 and an exactly full last file'),
 'C10_C': ('rolling/directory.rs read_block', 'read_exact replaced by a hand-rolled read loop that spins on a 0-byte read after a partial block', 'a WAL file whose length is not a multiple of 32 KiB'),
 'C11_A': ('rolling/directory.rs RollingReader::next_block', 'following files walked with successors(..).flat_map(|n| open_file(n)..): io::Result as IntoIterator drops the error', 'a non-first WAL file that cannot be opened'),
 'C11_B': ('recordlog/reader.rs go_next drop_record_in_flight', 'IoError reported as Corruption while an entry is being assembled', 'a transient I/O failure at a block/file boundary inside an entry'),
 'C11_C': ('frame/reader.rs load_next_block is_transient', 'unbounded retry of next_block on Interrupted / WouldBlock / TimedOut', 'a persistent ETIMEDOUT / EAGAIN on a WAL read'),
 'C12_A': ('recordlog/reader.rs go_next', 'Corruption while within_record answers Ok(false) (end of log)', 'garbage on a non-first block header of a 4-block batch, reopen, crashed multi-block batch, reopen'),
 'C12_B': ('frame/reader.rs read_frame is_torn_write', 'CRC failure with 16 trailing zero bytes treated as a torn write: NotAvailable, cursor stepped back', 'a zeroed page at the end of a middle block of a batch, reopen, crashed batch, reopen'),
 'C12_C': ('multi_record_log.rs open_with_prefs MAX_CORRUPTIONS_IN_A_ROW', 'replay breaks after 4 corrupted records in a row', '4 consecutive damaged blocks, reopen, crashed multi-block batch, reopen'),
 'C13_A': ('multi_record_log.rs unreported_wal_bytes', 'bytes of the open-time GC carried in a field and added to the next outcome, no-op returns included', 'a restart whose GC pass writes positions, then a retry / empty batch'),
 'C13_B': ('rolling/directory.rs roll_if_needed + current_file', 'current_file() rolls over first when the file is exactly full; append_records calls it before the empty-batch test', 'a WAL file filled to exactly 128 KiB, then an empty batch'),
 'C13_C': ('mem/queue.rs accepts_position', 'retry / past classification against the last stored record (go ahead when the queue holds none)', 'a fully truncated queue and an explicit stale position'),
 'C14_A': ('multi_record_log.rs truncate', 'GC only when next_persist.should_persist().is_some()', 'lazy policy, roll-over, a truncate freeing the oldest file'),
 'C14_B': ('block_read_write.rs pad + frame/writer.rs + directory.rs forward', 'padding done by seeking the raw File under the BufWriter', 'lazy policy, an entry ending 1..6 bytes before a block end, another append, clean reopen'),
 'C14_C': ('persist_policy.rs update_persisted', 'fixed-grid deadline: late.as_nanos() / interval.as_nanos()', 'OnDelay with a zero interval: divide by zero'),
 'C15_A': ('multi_record_log.rs gc_wal_bytes_written', 'GC bytes accumulated in a field drained by truncate / delete_queue but not by open', 'a recovery-time GC writing positions, then the first truncate'),
 'C15_B': ('frame/writer.rs write_frame offset_in_block', 'count = in-block cursor distance modulo the block size', 'a frame filling a whole block'),
 'C15_C': ('recordlog/writer.rs write_record frame_num_bytes', 'single-frame fast path returns HEADER_LEN + len instead of what write_frame returned', 'an entry starting 1..6 bytes before a block end'),
 'C16_A': ('mem/queue.rs truncate_head is_worth_compacting', 'payload bytes removed only when >= 512 bytes are reclaimed', 'a partial truncation evicting fewer than 512 bytes'),
 'C16_B': ('mem/queue.rs name_num_bytes + mem/queues.rs size', 'name accounting moved into MemQueue; ack_position builds queues without the name', 'reopen an existing log, resource_usage'),
 'C16_C': ('multi_record_log.rs resource_usage scratch_buffer_size', 'the batch serialisation buffer added to both memory figures', 'any non-empty append since open'),
 'C17_A': ('rolling/directory.rs Directory::gc', 'after untracking, every directory entry starting with wal- and sorting before the first kept name is removed', 'a foreign wal-... entry sorting before the first retained file'),
 'C17_B': ('file_number.rs staging_filename + directory.rs create_file', 'new files created as wal-<N>.tmp (create+truncate) then renamed', 'a foreign wal-<N>.tmp, or a crash between open and rename'),
 'C17_C': ('multi_record_log.rs preserve_damaged_file', 'on a corrupted record the WAL file is copied to wal-<N>.damaged', 'any damaged record, reopen'),
 'C18_A': ('recordlog/writer.rs write_record_in_file + directory.rs is_current_file_full', 'record pinned to the file current AFTER the write when the file was exactly full', 'cursor exactly at a file end, an append larger than a file, another queue truncates, restart'),
 'C18_B': ('multi_record_log.rs open_with_prefs', 'replaying a DeleteQueue for an unknown queue becomes a Corruption error', 'delete_queue whose GC removes all of the queue history, restart'),
 'C18_C': ('mem/queue.rs resolve_append_position', 'the in-the-past case left to the in-memory queue, i.e. after the WAL write', 'a stale explicit position on one queue, restart: every queue unreadable'),
}

DESC6 = {
 'C01_A': ('multi_record_log.rs delete_queue release_unused_files', 'delete_queue calls the fsync-and-unlink tail of the GC directly: the positions of empty queues are not re-recorded', 'an empty queue whose only position record sits in a file pinned by the deleted queue, restart'),
 'C01_B': ('frame/reader.rs go_to_next_block_if_necessary', 'cursor / block_corrupted reset before next_block() (rediscovery of r4_C01_A)', 'a WAL ending within 6 bytes of the end of the last file, reopen, append, reopen'),
 'C01_C': ('mem/queues.rs deleted_queues tombstones', 'ack_position ignores names deleted earlier; only the live create_queue clears the tombstone', 'create, delete, create again, restart'),
 'C02_A': ('rolling/directory.rs RollingWriter::write', 'a re-used next file is sized with set_len(FRAME_NUM_BYTES) instead of FILE_NUM_BYTES', 'crash between creation and sizing of the next file, reopen, roll into it, write more than a block, restart'),
 'C02_B': ('frame/reader.rs + recordlog/reader.rs into_writer_at', 'after a torn multi-frame entry the writer resumes at the in-block offset of that entry\'s first frame', 'a crash inside a multi-block entry, recovery, more operations, restart'),
 'C02_C': ('multi_record_log.rs truncate', 'the range written to the Truncate entry is clamped to the last position; memory uses the caller\'s range', 'truncate beyond the last record, restart before any GC'),
 'C03_A': ('mem/queues.rs empty_queues + record_empty_queues_position', 'empty_queues yields (name, last_position().unwrap_or(0)): the RecordPosition is one too low', 'a queue emptied by truncate, GC, reopen'),
 'C03_B': ('rolling/directory.rs RollingWriter::gc + pass-throughs', '"make durable, then delete" helper that fsyncs without flushing the BufWriter', 'lazy policy, roll-over, truncate freeing file 0, crash'),
 'C03_C': ('persist_policy.rs already_covers + MultiRecordLog::persist', 'under Always(p) an explicit persist no stronger than p is skipped, internal callers included', 'Always(FlushAndFsync) and a crash right after create_queue / delete_queue'),
 'C04_A': ('mem/queue.rs truncate_head clear()', 'evict-everything branch extracted; start_position = next_position()', 'truncate beyond the last appended position, automatic append'),
 'C04_B': ('frame/reader.rs go_to_next_block_if_necessary', 'cursor reset before next_block() (rediscovery)', 'log ending within 6 bytes of a file end, restart, append, restart'),
 'C04_C': ('multi_record_log.rs record_empty_queues_position', 'positions taken from the name-sorted QueuesSummary: end.unwrap_or(start) is the last position, not the next', 'an emptied queue, GC deleting a file, restart'),
 'C06_A': ('mem/queue.rs position_file + record_empty_queues_position', 'each empty queue keeps a clone of the file its position was written in', 'a GC pass while a queue is empty, that queue idle, later roll-overs and truncates'),
 'C06_B': ('mem/queues.rs delete_queue returning the queue', 'the removed MemQueue bound to a local for a log line: alive across the GC pass', 'delete_queue on the queue that alone pins the oldest files'),
 'C06_C': ('multi_record_log.rs open_with_prefs', 'per-record file clone hoisted and refreshed at the bottom of the loop: the Corruption arm skips the refresh', 'CRC damage on a record straddling two files followed by a good record of another queue'),
 'C07_A': ('frame/writer.rs num_bytes_remaining_in_block field', 'block position cached in the frame writer, stored back only after a successful frame write', 'padding written, frame write fails once, later appends'),
 'C07_B': ('recordlog/writer.rs write_record chunks()', 'first frame + chunks; the only-frame test misses the empty entry with exactly 7 bytes left', 'an empty entry written with exactly HEADER_LEN bytes left in the block'),
 'C07_C': ('recordlog/reader.rs go_next', 'a First/Full frame arriving while within_record answers Corruption (the frame is dropped)', 'crash in the middle of a multi-block entry, reopen, append, reopen'),
 'C08_A': ('frame/header.rs Header::check is_block_filler', 'a frame with len == 0 is accepted without comparing the checksum', 'a First frame overwritten by forged empty-First headers before an intact Last frame'),
 'C08_B': ('frame/reader.rs go_to_next_block_if_necessary', 'with no next block the corrupted flag is cleared and the cursor steps past the bad header', 'a damaged type byte in the last block and frame-shaped bytes in the payload'),
 'C08_C': ('mem replay_record + open_with_prefs', 'replay refuses a position only below start_position', 'delete + create entries lost to damage: positions 0, 1, 0 recovered'),
 'C09_A': ('frame/reader.rs read_frame', 'on CRC failure cursor = frame_num_bytes (block-relative) instead of +=', 'payload damage in a frame that is not the first of its block'),
 'C09_B': ('mem/queues.rs ack_position', 'stale and unknown branches merged into entry().or_insert_with(): the stale queue is kept', 'payload damage on a DeleteQueue entry followed by re-creation'),
 'C09_C': ('recordlog/reader.rs skip_to_end_of_record', 'on Corruption inside an entry frames are discarded up to the next Last/Full', 'damage in the Last frame of a multi-frame entry'),
 'C10_A': ('frame/reader.rs payload_fits_in_block', 'payload-fits test evaluated before the header is consumed', 'a damaged length in the 7-value window'),
 'C10_B': ('file_number.rs FileTracker::next / inc', 'range(n + 1..)', 'a stray wal-18446744073709551615'),
 'C10_C': ('rolling/directory.rs read_block', 'hand-written fill loop spinning on EOF after a partial read', 'a WAL file cut mid-block'),
 'C11_A': ('rolling/directory.rs RollingReader::open', 'first block read through read_block, whose Ok(false) is ignored', 'an oldest WAL file shorter than one block'),
 'C11_B': ('frame/reader.rs leave_corrupted_block', 'matches!(next_block(), Ok(true)): an I/O error while leaving a corrupted block becomes NotAvailable', 'header corruption in a block and an I/O error loading the next one'),
 'C11_C': ('multi_record_log.rs can_resume_after', 'IoError NotFound classified as resumable like Corruption', 'a listed WAL file that disappears: open retries for ever'),
 'C13_A': ('multi_record_log.rs is_empty_batch', 'empty batch decided by size_hint().1 == Some(0)', 'an empty batch through an iterator of unknown size'),
 'C13_B': ('multi_record_log.rs ack_noop', 'no-op acknowledgements call persist_on_policy()', 'OnDelay, buffered append, delay elapsed, then a retry / empty batch'),
 'C13_C': ('mem/queues.rs try_truncate + truncate', 'missing-queue check delegated to the in-memory truncate, after the WAL write', 'truncate on a missing queue, flush'),
 'C14_A': ('block_read_write.rs skip + frame/writer.rs + directory.rs forward', 'padding skipped by seeking the raw File under the BufWriter', 'lazy policy, an entry ending 1..6 bytes before a block end'),
 'C14_B': ('multi_record_log.rs gc_pending', 'GC after truncate deferred to the next policy-driven persist', 'OnDelay, truncate emptying a queue, later append to it, restart'),
 'C14_C': ('rolling/directory.rs RollingWriter::size', 'disk usage = full files + offset - BufWriter::buffer().len()', 'lazy policy and a live resource_usage()'),
 'C15_A': ('frame/writer.rs write_frame block_cursor', 'count = cursor distance modulo the block size', 'a frame filling a whole block'),
 'C15_B': ('recordlog/writer.rs write_record', 'single-frame fast path returns HEADER_LEN + len', 'an entry starting 1..6 bytes before a block end'),
 'C15_C': ('multi_record_log.rs wal_bytes_pending', 'counts accumulated in a field and drained when an outcome is built', 'an I/O fault between the write and the outcome, then a successful call'),
 'C16_A': ('mem/queue.rs drain_record_metas', 'rebase by the start offset of the LAST DRAINED record', 'any partial truncation'),
 'C16_B': ('mem/queues.rs size', 'allocated = table capacity x entry size + queue capacities (name bytes dropped)', 'long queue names on nearly empty queues'),
 'C16_C': ('mem/rolling_buffer.rs clear MIN_RETAINED_CAPACITY', 'clear() keeps len/8 bytes (VecDeque::truncate shortens the length)', 'a queue of >= 32 KiB emptied by one truncation'),
 'C17_A': ('rolling/directory.rs wal_seq_number', 'name taken from path().file_stem(): wal-<20 digits>.<ext> passes the parser', 'a side file wal-...1.bak without the genuine file'),
 'C17_B': ('file_number.rs FileTracker::next', 'point lookup files.get(curr + 1)', 'a hole in the numbering'),
 'C17_C': ('multi_record_log.rs open_with_prefs', 'create_dir_all(directory_path) before opening', 'opening a path that does not exist'),
 'C18_A': ('mem/queue.rs is_empty + mem/queues.rs ack_position', 'is_empty tests the payload bytes; ack_position always re-creates', 'a queue holding only empty payloads, a GC triggered by another queue, restart'),
 'C18_B': ('multi_record_log.rs delete_queue reclaim_unused_files', 'delete_queue unlinks unused files without the position pass', 'an empty queue whose records sit only in files pinned by the deleted queue'),
 'C18_C': ('recordlog/reader.rs go_next', 'a First/Full frame is honoured only when no entry is open', 'a torn multi-frame entry of another queue at the tail, recovery, append, restart'),
 'C12_A': ('recordlog/reader.rs go_next has_pending_record', 'a Last frame is accepted when within_record OR the buffer is non-empty (the buffer is not cleared by a corruption)', 'a batch of >= 3 blocks, damage in a Middle block, item boundaries on frame boundaries'),
 'C12_B': ('record.rs MultiRecord::new', 'validation keeps the well-formed items before the first malformed one', 'a CRC-valid but malformed batch (stale frames glued after damage + crash)'),
 'C12_C': ('multi_record_log.rs append_records wal_chunks', 'a batch is written as one WAL entry per MiB', 'a batch larger than 1 MiB and a crash losing its last entries'),
}


DESC7 = {
 'C01_A': ('multi_record_log.rs open_with_prefs DeleteQueue arm', 'replay applies a DeleteQueue entry only if the rebuilt queue stands at the recorded position (computed from last_record)', 'a queue that is empty at a position > 0 when deleted, clean restart'),
 'C01_B': ('mem/queue.rs new field MemQueue::next_position', 'next_position() answers from a cached field that with_next_position (..Default::default()) leaves at 0', 'a queue whose history was reclaimed: only the RecordPosition entry rebuilds it, restart'),
 'C01_C': ('frame/reader.rs resume_cursor + into_writer', 'the writer resumes on the block boundary when `<= HEADER_LEN` bytes remain (the protocol pads only for `<`)', 'log closed exactly 7 bytes before a block end, reopen, append, reopen'),
 'C02_A': ('frame/reader.rs new field torn_tail', 'into_writer resumes at the offset of a trailing frame that failed its checksum; the field is never reset when the reader moves to the next block', 'a crash part-way through a block-filling first frame, recovery, appends, restart'),
 'C02_B': ('recordlog/reader.rs go_next', 'a First/Full frame while an entry is open returns Corruption: the consumed frame (start of the next valid entry) is lost', 'an orphan First frame at the tail (crash), one append after recovery, restart'),
 'C02_C': ('multi_record_log.rs open_with_prefs needs_repositioning', 'after a skipped corruption, an AppendRecords ahead of the queue head triggers ack_position on a known queue', 'a torn frame, an append at an explicit future position, restart'),
 'C03_A': ('multi_record_log.rs gc_and_persist helper', 'delete_queue loses its unconditional persist(FlushAndFsync): persists only on policy', 'lazy policy, delete_queue without GC, crash'),
 'C03_B': ('persist_policy.rs PersistState::gc_barrier', 'the fsync before unlinking is derived from the policy: DoNothing gives no barrier', 'DoNothing, truncate releasing the oldest file while newer records are buffered, crash'),
 'C03_C': ('recordlog/reader.rs go_next', 'First/Full while an entry is open -> Corruption (same mechanism as r7_C02_B)', 'crash inside a multi-frame entry, append, restart'),
 'C04_A': ('mem/queue.rs position_after_eviction', 'evict-all path: start_position = max(next_position(), truncate_up_to_pos)', 'truncate at or beyond the next position, automatic append'),
 'C04_B': ('multi_record_log.rs truncate', 'GC pass and policy flush moved before the in-memory truncation: the position pass snapshots the pre-truncation state', '>= 2 files, a truncation freeing the first, truncate beyond next position of an empty queue, restart'),
 'C04_C': ('rolling/directory.rs RollingWriter::write', 'a re-used next file is sized with set_len(FRAME_NUM_BYTES)', 'crash between creating and sizing a file, recovery, > 32 KiB of appends, restart'),
 'C06_A': ('rolling/directory.rs Directory::gc', 'unlink first, pop from the tracker afterwards', 'an unlink failing with NotFound: every later GC pass retries the vanished file and fails'),
 'C06_B': ('multi_record_log.rs open_with_prefs', 'the replay file clone hoisted out of the loop: it lives across the open-time GC', 'DoNothing, file N exactly full, roll-over buffered, crash, all queues empty by the end of N'),
 'C06_C': ('mem/queue.rs new field MemQueue::first_file', 'cached first file handle refreshed under `<` instead of `<=`', 'records in two files, truncate exactly at the last record of the oldest file'),
 'C06_D': ('rolling/directory.rs Directory::open_next_file', 'roll-over extracted into a helper that loses the set_len of an already listed next file (reverts fix 8a84cd9)', 'a 0-byte leftover next file from a crash'),
 'C07_A': ('frame/reader.rs resume_cursor', 'same mechanism as r7_C01_C (`<= HEADER_LEN`)', 'reopen with exactly 7 bytes left in the block, append, reopen'),
 'C07_B': ('rolling/directory.rs Directory::open_next_file', 'an existing next file is sized to one block (FRAME_NUM_BYTES)', 'leftover empty next file, appends ending past its first block unaligned, reopen'),
 'C07_C': ('recordlog/reader.rs go_next', 'First/Full while an entry is open -> Corruption', 'DoNothing, crash while a many-block entry is partly on disk, restart, append, restart'),
 'C08_A': ('recordlog/writer.rs new field mid_record', 'the first-frame flag becomes a field updated after each successful write_frame: an I/O error on a later frame leaves it set', 'I/O error on the 2nd+ frame of an entry, writer used again, sizes such that the glued buffer parses'),
 'C08_B': ('mem/rolling_buffer.rs get_range', 'wrap-around case through iter().skip(start).take(end) (should be end - start)', 'the ring wraps: fill, truncate a small head, append again, read'),
 'C08_C': ('recordlog/reader.rs go_next', 'start-of-entry test becomes `!within_record && is_first_frame`: a First/Full frame after a torn entry no longer clears the buffer', 'a torn multi-frame entry at the tail, restart, append, reopen'),
 'C09_A': ('frame/reader.rs is_at_frame_boundary', 'after a CRC failure the next 7 bytes are peeked and the block quarantined if they do not decode; unguarded slice near the block end', 'a damaged frame ending 1..6 bytes before the block end (panic), or followed by garbage'),
 'C09_B': ('recordlog/reader.rs skip_to_record_boundary', 'on Corruption inside an entry, frames are consumed up to the next Full/Last: a damaged LAST frame swallows the next entry', 'damage in the last frame of a multi-frame entry'),
 'C09_C': ('mem/queues.rs ack_position', 'reset condition simplified to `!queue.is_empty()`', 'a damaged DeleteQueue / Truncate entry followed by a RecordPosition'),
 'C10_A': ('frame/reader.rs payload_fits_in_block', 'the frame-fits test is evaluated before `cursor += HEADER_LEN`: 7 bytes too generous', 'a header announcing a length in (remaining-7, remaining]'),
 'C10_B': ('rolling/directory.rs num_bytes_remaining_in_file', 'roll-over test written `len > FILE_NUM_BYTES - offset`', 'the file where replay ends is longer than a WAL file: subtraction underflows'),
 'C10_C': ('recordlog/reader.rs go_next NotAvailable arm', 'end of log inside an entry answers Corruption and stays inside the entry', 'a log ending inside a multi-frame entry: open spins'),
 'C11_A': ('rolling/directory.rs RollingReader::open', 'the first block is read with read_block and its bool ignored: a short first file is not an error', 'first WAL file shorter than a block'),
 'C11_B': ('recordlog/reader.rs go_next', 'Corruption and IoError arms merged into `Err(_) => Corruption`', 'an I/O failure in next_block during recovery: open retries forever'),
 'C11_C': ('frame/reader.rs advance_block', '`matches!(next_block(), Ok(true))`: an I/O error looks like the end of the log', 'a WAL file unreadable during recovery'),
 'C12_A': ('file_number.rs take_unused + directory.rs gc_unused + delete_queue', 'delete_queue sweeps unused files anywhere in the log: a middle file holding continuation frames goes', 'a batch bigger than one WAL file, delete_queue on another queue, restart'),
 'C12_B': ('recordlog/reader.rs new field fragment_buffer', 'the is-last test slipped out of the within_record guard', 'a >= 3-frame batch, a damaged Middle frame, restart'),
 'C12_C': ('rolling/directory.rs next_block is_blank', 'a next file whose first block is all zeros is skipped when a later file exists', 'a batch longer than a WAL file, the first block of the middle file zeroed, restart'),
 'C13_A': ('multi_record_log.rs append_records', 'empty-batch test replaced by `size_hint().1 == Some(0)` before serialising', 'an empty batch from a filter/flat_map iterator'),
 'C13_B': ('multi_record_log.rs write_records wrapper', 'persist_on_policy hoisted into the public wrapper: no-op returns flush too', 'lazy policy, a retry / empty batch'),
 'C13_C': ('multi_record_log.rs truncate', 'existence decided by the in-memory truncate, after the WAL write', 'truncate of a missing queue'),
 'C14_A': ('multi_record_log.rs truncate', 'GC runs only when the policy says persist now', 'OnDelay / DoNothing and a truncation that frees a file'),
 'C14_B': ('rolling/directory.rs switch_to_next_file + persist', 'FlushAndFsync on an exactly-full file rolls over eagerly', 'an fsync while the cursor sits exactly at the end of a file'),
 'C14_C': ('persist_policy.rs next_deadline', 'OnDelay re-armed on a fixed grid: divides by the interval', 'OnDelay with a zero interval: panic after the WAL write'),
 'C15_A': ('frame/writer.rs block_cursor', 'write_frame reports the in-block cursor delta modulo the block size', 'a frame exactly one block long'),
 'C15_B': ('recordlog/writer.rs num_frames', 'entry footprint computed up front with `x / n + 1` frames', 'a remainder that is an exact multiple of the max frame payload'),
 'C15_C': ('multi_record_log.rs truncate', 'MissingQueue decided after the Truncate entry was written', 'truncate of a missing queue: bytes written, nothing reported'),
 'C16_A': ('mem/queue.rs MemQueue::len', 'size() multiplies the per-record overhead by next_position - start_position', 'explicit positions with gaps'),
 'C16_B': ('mem/queues.rs ack_position', 'kept-as-is test becomes `last_position() == next_position - 1`: a non-empty queue ending there is kept', 'replay of a RecordPosition onto a non-empty queue'),
 'C16_C': ('mem/queue.rs truncate_head', 'early return when the first retained record starts at offset 0: metas not drained', 'evicted records with empty payloads'),
 'C17_A': ('rolling/directory.rs is_empty_leftover', 'zero-length files whose name merely starts with wal- are unlinked during the scan', 'an empty foreign file named wal-writer.lock'),
 'C17_B': ('file_number.rs FileNumber::parse_filename', 'digits taken with trim_start_matches("wal-"): strips the prefix repeatedly', 'a 24-byte foreign name wal-wal-0000000000000007'),
 'C17_C': ('rolling/directory.rs Directory::open tail', 'file 0 of a fresh tracker created only if !path.exists()', 'no regular WAL file plus a symlink / directory named like file 0'),
 'C18_A': ('mem/queues.rs resolve_append_position', 'the explicit-position pre-check loses its Past arm: Past is detected after the WAL write', 'an append at a stale explicit position, restart: open fails for every queue'),
 'C18_B': ('recordlog/reader.rs go_next', 'First/Full while an entry is open -> Corruption', 'a torn multi-frame append of X, recovery, append by Y, restart'),
 'C18_C': ('multi_record_log.rs run_gc_if_necessary', 'the single fsync hoisted above the position pass: position entries still buffered when files are unlinked', 'lazy policy, GC while Y is empty, crash'),
}

ROUND = os.environ.get('SEED_ROUND', '1')


def main():
    global DESC
    if ROUND == '2':
        DESC = DESC2
    if ROUND == '3':
        DESC = DESC3
    if ROUND == '4':
        DESC = DESC4
    if ROUND == '5':
        DESC = DESC5
    if ROUND == '6':
        DESC = DESC6
    if ROUND == '7':
        DESC = DESC7
    out_root = os.path.join(VERIF, 'seeded')
    os.makedirs(out_root, exist_ok=True)
    work = os.path.join(VERIF, '.work')
    os.makedirs(work, exist_ok=True)
    n = 0
    for key in sorted(DESC):
        pid, x = key.split('_')
        src = os.path.join(SRC, pid, x)
        vs = os.path.join(VS, '%s_%s.json' % (pid, x))
        if ROUND in ('3', '4', '5', '6', '7') and os.path.exists(os.path.join(VS, 'r%s_%s_%s.json' % (ROUND, pid, x))):
            vs = os.path.join(VS, 'r%s_%s_%s.json' % (ROUND, pid, x))
        if not os.path.isdir(src) or not os.path.exists(vs):
            print('skip (not verified yet):', key)
            continue
        v = json.load(open(vs))
        ok = 'error' not in v and '66 passed; 0 failed' in v['suite_with_change'] and 'FAILED' in v['demo_with_change'] and 'FAILED' not in v['demo_without_change'] and ' passed' in v['demo_without_change']
        if not ok:
            print('NOT CONFIRMED, not kept:', key, v)
            continue
        dst = os.path.join(out_root, key if ROUND == '1' else 'r%s_' % ROUND + key)
        os.makedirs(dst, exist_ok=True)
        for f in ('patch.diff', 'demo.diff', 'notes.md'):
            if os.path.exists(os.path.join(src, f)):
                shutil.copy(os.path.join(src, f), os.path.join(dst, f))
        r = analyse(os.path.join(dst, 'patch.diff'), work)
        rules = sorted(r.get('violated', {})) if r['status'] == 'analysed' else []
        props = r.get('props_failed', []) if r['status'] == 'analysed' else []
        site, what, needs = DESC[key]
        meta = {
            'id': key if ROUND == '1' else 'r%s_' % ROUND + key, 'round': int(ROUND), 'property': pid, 'site': site, 'what': what, 'needs': needs,
            'written_by': 'independent sub-agent given only the property text and a private worktree of /repo',
            'verified_by_me': {
                'how': 'selftest/verify_seed.sh in a scratch worktree of /repo HEAD: (1) cargo test --offline --workspace --no-fail-fast with patch.diff, (2) the demo tests with patch.diff + demo.diff, (3) the demo tests with demo.diff only',
                'suite_with_change': v['suite_with_change'], 'demo_with_change': v['demo_with_change'][:300], 'demo_without_change': v['demo_without_change'][:300],
            },
            'checker': {'rules_reporting': rules, 'properties_failing': props, 'target_property_fails': pid in props,
                        'anchor_missing': r.get('missing', [])[:3] if r['status'] == 'analysed' else []},
            'caught_by': ('%s → %s' % (', '.join(rules), ', '.join(props))) if rules or props else 'NOT CAUGHT',
        }
        json.dump(meta, open(os.path.join(dst, 'meta.json'), 'w'), indent=1)
        n += 1
        print('%-6s %-8s %s' % (key, 'caught' if pid in props else ('other' if props else 'MISSED'), meta['caught_by']))
    print(n, 'seeds imported')


if __name__ == '__main__':
    main()
